#!/bin/sh
# usage: run_all.sh "<seeds>" [tier] : runs every registered check at each seed, prints one summary line per run
cd "$(dirname "$0")/.." || exit 1
TIER="${2:-quick}"
for s in $1; do
  for id in $(/venv/bin/python -c "import json; print(' '.join(c['property_id'] for c in json.load(open('MANIFEST.json'))['checks']))" 2>/dev/null | tail -1); do
    out=$(VERIF_SEED=$s VT_REPLAY_DIR=${VT_REPLAY_DIR:-/tmp/vt-runall-replays} VT_EVIDENCE_DIR=${VT_EVIDENCE_DIR:-/tmp/vt-runall-evidence} ./check $id --tier $TIER 2>&1)
    rc=$?
    echo "seed=$s $id rc=$rc $(echo "$out" | grep -c '^VIOLATION') violations | $(echo "$out" | grep 'tier=' | tail -1 | cut -c1-120)"
    [ $rc -ne 0 ] && echo "$out" | grep "^FAIL\|HARNESS" | cut -c1-300
  done
done
