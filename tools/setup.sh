#!/bin/sh
# Offline setup: hypothesis must be importable in /venv; atheris goes to /verif/.deps (used by the thorough tier of C18 only).
cd "$(dirname "$0")/.." || exit 1
/venv/bin/python -c "import hypothesis" 2>/dev/null || /venv/bin/pip install --no-index --find-links /opt/veriftools/wheels hypothesis
mkdir -p .deps
/venv/bin/python -c "import sys; sys.path.insert(0, '.deps'); import atheris" 2>/dev/null || \
  /venv/bin/pip install -q --no-index --find-links /opt/veriftools/wheels --target .deps atheris || echo "atheris not installed (thorough fuzz tier will be skipped)"
/venv/bin/python -c "import hypothesis, ttconv; print('setup ok: hypothesis', hypothesis.__version__)"
