#!/usr/bin/env python3
"""compact view of replay files whose case holds a DocSpec under "spec": show_replay.py FILE..."""
import json, sys
def val(v):
    if isinstance(v, dict):
        if "$F" in v: return v["$F"]
        if "$E" in v: return v["$E"].split(".")[-1]
        if "$T" in v: return "(" + ",".join(val(x) for x in v["$T"]) + ")"
        if "$f" in v: return v["$f"]
        if "$D" in v: return v["$D"].split(":")[-1].replace("Type","") + "(" + ",".join("%s" % val(x) for k, x in v["f"].items() if k != "ident") + ")"
        return "{" + ",".join("%s=%s" % (k, val(x)) for k, x in v.items()) + "}"
    if isinstance(v, list): return "[" + ",".join(val(x) for x in v) + "]"
    return json.dumps(v)
def show(n, ind=0):
    extra = " ".join("%s=%s" % (k, val(n[k])) for k in ("begin", "end", "region", "text", "space", "lang") if n.get(k) not in (None, "", "default"))
    st = " ".join("%s:%s" % (k, val(v)) for k, v in n["styles"].items())
    an = " ".join("set(%s)" % val(a) for a in n["anims"])
    print("  " * ind + "%s %s %s %s %s" % (n["kind"], n.get("id") or "", extra, st, an))
    for k in n["kids"]: show(k, ind + 1)
for f in sys.argv[1:]:
    r = json.load(open(f))
    print("==", f.split("/")[-1], "| part", r["part"], "| bucket", r["bucket"]); print("  ", r["detail"][:400])
    c = r["case"]; spec = c.get("spec")
    print("   other:", {k: val(v) for k, v in c.items() if k != "spec"})
    if spec:
        dp = {k: val(spec[k]) for k in ("lang", "cell", "px", "active_area", "dar") if spec.get(k) not in ("", None) and val(spec[k]) not in ("(32,15)", "(1920,1080)")}
        if dp or spec["initials"]: print("   doc:", dp, "initials:", {k: val(v) for k, v in spec["initials"].items()})
        for x in spec["regions"]: show(x, 2)
        if spec["body"]: show(spec["body"], 2)
