#!/usr/bin/env python3
"""Regenerates MANIFEST.json from the table below (keeps it schema-valid at all times)."""
import json, os
HERE = os.path.dirname(os.path.dirname(os.path.abspath(__file__)))
PROPS = [json.loads(l)["id"] for l in open(os.path.join(HERE, "properties.jsonl"))]

# id -> (technique, level text, level note, design ref)
CLAIMED = {
  "C12": ("enumeration of frame counts per rate (exhaustive in thorough tier) + Hypothesis rationals/floats, against an integer SMPTE 12M reference and algebraic laws",
          "Every frame count of 24 h at 7 rates is enumerated in the thorough tier (stratified in quick) against an independently written integer drop-frame reference; the unbounded parts (ClockTime, from_seconds on rationals/floats, writer syntaxes) are sampled by Hypothesis. Finite domain fully covered in thorough; the rest is exploration.",
          "Trusted: vt/ref_timecode.py (self-tested against SMPTE 12M worked examples at start-up). 24000/1001 only identity/monotone/range.",
          "DESIGN.md C12"),
  "C17": ("exhaustive enumeration of all 65,536 word values against an independently written CEA-608 table; Hypothesis-generated lines for the disassembly",
          "The whole domain (every 16-bit value, both parities) is enumerated in both tiers and compared, attribute by attribute, with a bit-pattern table written from CEA-608; all six code finders are evaluated for ambiguity. Multi-word lines are sampled (disassembly is checked to be word-local).",
          "Trusted: vt/ref_608.py classify(); eight conventional Unicode cells accept alternatives; colours compared by class (CEA-608 names colours, not RGB).",
          "DESIGN.md C17"),
}
NOT_APPLICABLE = {}

def main():
  checks = []
  for pid in PROPS:
    if pid not in CLAIMED:
      continue
    tech, text, note, ref = CLAIMED[pid]
    checks.append({
      "property_id": pid,
      "quick_cmd": "./check %s --tier quick" % pid,
      "thorough_cmd": "./check %s --tier thorough" % pid,
      "evidence_file": "evidence/%s.json" % pid,
      "replay_cmd_template": "./check %s --replay {path}" % pid,
      "engine": "vt",
      "level_claimed": {"category": "exploration", "text": text, "design_ref": ref},
      "level_note": note,
      "technique": tech,
    })
  na = [{"property_id": p, "reason": NOT_APPLICABLE.get(p, "check not built yet in this session; planned in DESIGN.md section 4")}
        for p in PROPS if p not in CLAIMED]
  man = {
    "version": 1,
    "setup_cmd": "sh tools/setup.sh",
    "hooks": {"guard": "TTCONV_VERIF", "enable": "no source hooks are needed: every observable is public API; checks import /repo/src/main/python directly (VT_REPO overrides)",
              "baseline_off_cmd": "sh tools/repo_tests.sh /repo", "source_commits": [], "add_only": True},
    "engines": [{"name": "vt", "path": "vt/", "serves_properties": [c["property_id"] for c in checks],
                 "kind_free_text": "Hypothesis 6.168 property-based testing + exhaustive enumeration of finite domains + atheris fuzz targets; runner vt/run.py (collect-bucket-shrink, known findings, evidence)"}],
    "checks": checks,
    "not_applicable": na,
    "notes": "Run from /verif. VERIF_SEED selects the Hypothesis seed (default 1). exit 0 held / 1 VIOLATION / 2 harness error.",
  }
  with open(os.path.join(HERE, "MANIFEST.json"), "w") as f:
    json.dump(man, f, indent=1)
    f.write("\n")

if __name__ == "__main__":
  main()
