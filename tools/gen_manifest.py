#!/usr/bin/env python3
"""Regenerates MANIFEST.json from the table below (keeps it schema-valid at all times)."""
import json, os
HERE = os.path.dirname(os.path.dirname(os.path.abspath(__file__)))
PROPS = [json.loads(l)["id"] for l in open(os.path.join(HERE, "properties.jsonl"))]

# id -> (technique, level text, level note, design ref)
CLAIMED = {
  "C12": ("enumeration of frame counts per rate (exhaustive in thorough tier) + Hypothesis rationals/floats, against an integer SMPTE 12M reference and algebraic laws",
          "Every frame count of 24 h at 7 rates is enumerated in the thorough tier (stratified in quick) against an independently written integer drop-frame reference; the unbounded parts (ClockTime, from_seconds on rationals/floats, writer syntaxes) are sampled by Hypothesis. Finite domain fully covered in thorough; the rest is exploration.",
          "Trusted: vt/ref_timecode.py (self-tested against SMPTE 12M worked examples at start-up). 24000/1001 only identity/monotone/range.",
          "DESIGN.md C12"),
  "C17": ("exhaustive enumeration of all 65,536 word values against an independently written CEA-608 table; Hypothesis-generated lines for the disassembly",
          "The whole domain (every 16-bit value, both parities) is enumerated in both tiers and compared, attribute by attribute, with a bit-pattern table written from CEA-608; all six code finders are evaluated for ambiguity. Multi-word lines are sampled (disassembly is checked to be word-local).",
          "Trusted: vt/ref_608.py classify(); eight conventional Unicode cells accept alternatives; colours compared by class (CEA-608 names colours, not RGB).",
          "DESIGN.md C17"),
  "C01": ("Hypothesis-generated documents x reference-derived probe times, compared with an independent TTML2 reference interpreter (presence, region association, order)",
          "Generated-input search: each snapshot of each generated document is compared leaf by leaf and container by container with vt/ref_isd.py. Exploration only: bounded trees (<= 40 nodes quick, 120 thorough), lattice plus random rational times.",
          "Trusted: vt/ref_isd.py (per-element reading of TTML2 11.3.1/12). Known finding I-3 (ruby losing a child) is excluded by construction in the main part and kept under test by the ruby_timed part.",
          "DESIGN.md C01"),
  "C02": ("Hypothesis documents with animation on offset elements x probe times; metamorphic comparison over time plus reference change points",
          "Generated-input search: strict monotonicity, completeness (snapshot at t equals the snapshot at the last reported time; every reference change point that alters the rendered reference snapshot is reported) and sequence == snapshots at reported times.",
          "Trusted: reference change points from vt/ref_isd.py. Known finding I-1 (animation steps on offset elements) is reported as KNOWN-FINDING and excluded by construction in the main part.",
          "DESIGN.md C02"),
  "C03": ("Hypothesis style-heavy documents; every (element, applicable property) cell compared with an independent style-resolution reference",
          "Generated-input search over all 36 properties x sources (animation, specified, inherited, initial) x units; the evidence reports the per-cell coverage grid.",
          "Trusted: vt/ref_isd.py compute(). Not asserted: winner among simultaneously active steps with different values; region direction when only initial/animated values decide.",
          "DESIGN.md C03"),
  "C13": ("Hypothesis documents x probe times and every generate_isd_sequence entry, walked through an invariant predicate (one bucket per clause)",
          "Generated-input search: shape invariants (no timing/animation/region refs, content model, exact applicable style sets, rh/rw lengths, origin==position, no display none, white-space rules, ownership, document parameters).",
          "Trusted: vt/ref_lwsp.py white-space rules (DESIGN 2.3) and the applicability table in vt/ref_isd.py transcribed from doc/data_model.md.",
          "DESIGN.md C13"),
  "C14": ("Hypothesis (document, operation history) pairs interpreted against the real API and a fresh copy; fingerprint invariance; cached vs uncached snapshots modulo non-painting empty regions",
          "Generated-input search over histories of significant_times / from_model (cached, uncached) / generate_isd_sequence / SRT / VTT / IMSC writer calls on one document object; the generator builds regions whose background is revealed only by animation or initial values on purpose.",
          "Trusted: vt/ref_isd.py for which empty regions paint. Histories are data (lists of operations) so the whole history shrinks as one value.",
          "DESIGN.md C14"),
  "C06": ("Hypothesis text-profile documents x writer configurations; output parsed by independent strict SRT/WebVTT parsers and compared with the reference interpreter's visible text per significant interval",
          "Generated-input search: number, order, millisecond times and payload lines of the cues against expected cues derived from vt/ref_isd.py; documents are shaped so that several regions hold content at once and several div/p sit under one region; a part with intervals shorter than a millisecond (no cue when both ends round to the same millisecond, a 1 ms cue when they do not).",
          "Trusted: vt/cueparse.py (self-tested), vt/cuecheck.py, vt/ref_isd.py. Significant times are taken from ttconv (C02 covers their completeness). Paragraphs with preserved white space are compared by non-space characters.",
          "DESIGN.md C06"),
  "C07": ("Hypothesis styled / markup-text / sub-millisecond documents x writer configurations; strict grammar parsers; per-character style runs recovered from tags vs reference computed styles; cue settings vs reference geometry",
          "Generated-input search: grammar validity, tag balance, style runs, no tags when formatting is disabled, line/align settings, no failure on sub-millisecond intervals.",
          "Trusted: vt/cueparse.py, vt/ref_isd.py. Known finding S-7 (style reset inside a styled parent) reported as KNOWN-FINDING. SubRip text containing markup characters: only 'does not fail'.",
          "DESIGN.md C07"),
  "C05": ("Hypothesis documents x writer time-format configurations: write, re-read, compare snapshots / parameters / written times; reader log captured",
          "Generated-input search over round trips: writer must not fail, output well-formed, re-read logs nothing above INFO, parameters equal, every element written, snapshots equal at the reference's probe times (6 significant digits), written times exact when representable and within one unit and order-preserving otherwise. Special-value overrides are built on purpose.",
          "Trusted: snapshot equality is judged through ttconv's own ISD on both documents (the ISD is checked independently by C01/C03/C13). Element xml:id and numeric values outside [1e-4,1e5] are outside the comparison.",
          "DESIGN.md C05"),
  "C10": ("Hypothesis SRT files from a cue grammar with the expected cue model built alongside; exhaustive ms x fps enumeration for the frame composition law; writer output round trip through a strict parser",
          "Generated-input search: one P per cue, exact rational times (type and value), lines, per-character formatting for both tag syntaxes; all 1000 ms values x 5 rates x 4 bases enumerated for the composed frames output; the SRT writer's output over styled documents is re-read and compared with what a strict parser reads.",
          "Trusted: vt/gen_srt.py expectations (self-tested), vt/cueparse.py. Short brace tags {b} accepted under either reading; line-edge spaces free.",
          "DESIGN.md C10"),
  "C19": ("Hypothesis command lines / configurations / histories: CLI output bytes vs an independently written library composition; enumerated error scenarios and configuration values; subprocess determinism under hash seeds",
          "Generated-input search: pipeline equality over input/output formats, type selection, filter lists (incl. non-commuting harness filters) and every documented configuration key; file-over-inline precedence; error scenarios leave no output; every documented key x valid and invalid values enumerated; determinism across fresh processes, repetitions, histories, PYTHONHASHSEED and log settings.",
          "Trusted: vt/gen_cli.py compose() written from README/tt.py contract; 'documented values' transcribed narrowly from README.md. Unknown filter names are not asserted.",
          "DESIGN.md C19"),
  "C04": ("grammar-generated TTML/IMSC XML with an independent translation to a DocSpec, interpreted by the reference interpreter and compared with reader+ISD snapshots; single-attribute corruption with log capture",
          "Generated-input search over timing (par/seq, begin/dur/end, every time syntax, frame/tick rates), styling (style graphs, nested, initial, set), white space, ruby, and a corruption pass (malformed or unknown attributes must be ignored, logged and leave the rest unchanged).",
          "Trusted: vt/gen_ttml.py to_docspec() (my reading of TTML2 12 / 10.4, self-tested) and vt/ref_isd.py. Known finding R-8 (unknown attributes not logged). Structural generation is driven by a Hypothesis-drawn seed (see module docstring).",
          "DESIGN.md C04"),
  "C09": ("Hypothesis byte-level STL files assembled from structured GSI/TTI descriptions with the expected subtitles built alongside; exhaustive enumeration of the asserted character-table cells",
          "Generated-input search over DFC/DSC/CCT, extension chains, cumulative sets, user-data and comment blocks, programme start and reader configurations: exact rational times, word-level text, per-character colours/italic/underline, justification, region anchoring; every asserted cell of the five character tables enumerated.",
          "Trusted: vt/gen_stl.py assemble()/expected() (self-tested byte-exactly against a bundled file) with independently written ISO 6937 / 8859 tables; contested code points are not asserted; geometry asserted as containment + anchored edge.",
          "DESIGN.md C09"),
  "C11": ("Hypothesis WebVTT files from file / cue-text / cue-settings grammars with the expected cue model built alongside; geometry validity predicates and anchoring; writer output round trip through a strict parser",
          "Generated-input search: one P per cue with exact rational times, payload lines, character references, per-character markup (b/i/u/c/lang/v/ruby), inline timestamps as absolute begins, region geometry inside the root with the anchoring the WebVTT rendering rules give, region sharing; the VTT writer's output over styled documents is re-read and compared with what a strict parser reads.",
          "Trusted: vt/gen_vtt.py expectations (self-tested, grammar re-validated per case), vt/cueparse.py. Known findings: ruby inside other tags / markup inside ruby raise (model restricts ruby to p). Colours of custom STYLE classes are not compared (STYLE blocks are skipped by design).",
          "DESIGN.md C11"),
  "C16": ("Hypothesis documents x LCD configurations: post-condition predicates on the filtered document, reference text timeline and computed styles before/after, idempotence",
          "Generated-input search: no animation, only allowed styles / initial values, regions exactly at the safe area, merged regions and redirected references, registered region objects, text timeline unchanged for documents without hiding styles, configured colour / background / alignment as computed by the reference interpreter, second application is a no-op, filter does not fail (positioned regions, no body).",
          "Trusted: vt/ref_isd.py for timelines and computed styles. Known finding: conflicting nested region references become visible when regions merge (excluded by construction in the main parts).",
          "DESIGN.md C16"),
  "C08": ("Hypothesis caption scripts from the pop-on / roll-up / paint-on protocol grammars rendered to SCC, compared frame by frame with an independent CEA-608 cell-grid decoder; timing windows with integer drop-frame arithmetic",
          "Generated-input search: rows, row text, row numbers, per-character colour class / italics / underline outside transition windows; begin/end exact frame multiples (30 NDF / 30000/1001 DF), never before the line's time code and within the transmission window of the triggering word; channel-2 and field-2 data ignored.",
          "Trusted: vt/ref_608_decoder.py (self-tested on hand-computed scenarios) and vt/ref_608.py tables (verified exhaustively by C17). Grammar productions no encoder emits are labelled classes with some attributes unasserted (see ASSUMPTIONS).",
          "DESIGN.md C08"),
  "C18": ("Hypothesis structure-aware mutation of corpus and grammar-generated inputs per reader, outcome classifier, full downstream pipeline; atheris (libFuzzer) campaigns per reader in the thorough tier",
          "Fuzzing: every reader on valid, mutated and degenerate inputs must return a document, return None after a fatal log record, or raise ParseError / ValueError / struct.error / UnicodeDecodeError; every returned document must survive significant times, snapshots (cached and uncached), the generated sequence, the LCD filter and all writers under all configurations; per-case watchdog for termination.",
          "Sampling only. Allowed exception set transcribed from the property. Known findings: the two WebVTT ruby crash families (same root causes as in C11).",
          "DESIGN.md C18"),
  "C15": ("model-based testing of call histories: Hypothesis-generated operation lists over a fixed universe interpreted against the real API and an abstract tree model, invariant walker after every call; bounded exhaustive enumeration of all call sequences of length <= 2 (quick) / 3 (thorough)",
          "Histories over two documents, 67 named objects and 14 operations with valid and invalid arguments; after every accepted or rejected call: link consistency, acyclicity, single parent, one document per tree, content model (ruby / rtc patterns), region references are the registered objects, stored values valid, rejected calls leave the model unchanged, accepted calls have the modelled effect. All sequences up to the bound over a fixed call alphabet are enumerated, and every style property x universe value pair through every value-storing call.",
          "Histories are data interpreted by the check (equivalent to a rule-based state machine; the whole history shrinks as one value). Known findings: region references of elements that are not below the body cannot be maintained (orphan forms).",
          "DESIGN.md C15"),
}
NOT_APPLICABLE = {}

def main():
  checks = []
  for pid in PROPS:
    if pid not in CLAIMED:
      continue
    tech, text, note, ref = CLAIMED[pid]
    checks.append({
      "property_id": pid,
      "quick_cmd": "./check %s --tier quick" % pid,
      "thorough_cmd": "./check %s --tier thorough" % pid,
      "evidence_file": "evidence/%s.json" % pid,
      "replay_cmd_template": "./check %s --replay {path}" % pid,
      "engine": "vt",
      "level_claimed": {"category": "exploration", "text": text, "design_ref": ref},
      "level_note": note,
      "technique": tech,
    })
  na = [{"property_id": p, "reason": NOT_APPLICABLE.get(p, "check not built yet in this session; planned in DESIGN.md section 4")}
        for p in PROPS if p not in CLAIMED]
  man = {
    "version": 1,
    "setup_cmd": "sh tools/setup.sh",
    "hooks": {"guard": "TTCONV_VERIF", "enable": "no source hooks are needed: every observable is public API; checks import /repo/src/main/python directly (VT_REPO overrides)",
              "baseline_off_cmd": "sh tools/repo_tests.sh /repo", "source_commits": [], "add_only": True},
    "engines": [{"name": "vt", "path": "vt/", "serves_properties": [c["property_id"] for c in checks],
                 "kind_free_text": "Hypothesis 6.168 property-based testing + exhaustive enumeration of finite domains + atheris fuzz targets; runner vt/run.py (collect-bucket-shrink, known findings, evidence)"}],
    "checks": checks,
    "not_applicable": na,
    "notes": "Run from /verif. VERIF_SEED selects the Hypothesis seed (default 1). exit 0 held / 1 VIOLATION / 2 harness error.",
  }
  with open(os.path.join(HERE, "MANIFEST.json"), "w") as f:
    json.dump(man, f, indent=1)
    f.write("\n")

if __name__ == "__main__":
  main()
