#!/bin/sh
# Runs the repository's baseline suite with the hook guard off; prints pass/fail counts and the names of
# baseline-stable tests that did not pass (expected: 446 passed, 13 always-failing tests).
REPO="${1:-/repo}"
OUT="$(mktemp /tmp/vt-junit-XXXXXX.xml)"
cd "$REPO" && env -u TTCONV_VERIF PYTHONPATH="$REPO/src/main/python" /venv/bin/python -m pytest -ra -q -p no:cacheprovider --timeout=900 --continue-on-collection-errors --junitxml="$OUT" >/dev/null 2>&1
/venv/bin/python - "$OUT" <<'PY'
import sys, json, xml.etree.ElementTree as et
root = et.parse(sys.argv[1]).getroot()
ok = set(); bad = set()
for tc in root.iter("testcase"):
    name = tc.get("classname") + "::" + tc.get("name")
    (bad if any(c.tag in ("failure", "error") for c in tc) else ok).add(name)
stable = set(json.load(open("/root/.vp/BASELINE.json"))["stable_pass"])
missing = sorted(stable - ok)
print("passed=%d failed=%d stable_missing=%d" % (len(ok), len(bad), len(missing)))
for m in missing: print("  NOT PASSING:", m)
sys.exit(1 if missing else 0)
PY
rc=$?
rm -f "$OUT"
exit $rc
