#!/usr/bin/env python3
"""Stores / re-evaluates the seeded breaking changes kept under /verif/seeded.

  seeded_store.py import <src dir> [offset [ID ...]]   copies <src dir>/<ID>-out/change<N>/{patch.diff,demo.py,meta.json} to seeded/<ID>-<N>/
  seeded_store.py eval [name ...]      runs tools/seeded_eval.py for every stored change (its own property's check, plus the
                                       checks listed under "also" in its meta.json) and records the outcome in meta.json
                                       and in seeded/RESULTS.md

Nothing here touches /repo's working tree: seeded_eval.py works in a scratch worktree that it removes.
"""
import concurrent.futures, json, os, shutil, subprocess, sys
HERE = os.path.dirname(os.path.dirname(os.path.abspath(__file__)))
SEEDED = os.path.join(HERE, "seeded")


def do_import(src, offset=0, only=None):
  for d in sorted(os.listdir(src)):
    if not d.endswith("-out"):
      continue
    pid = d[:-4]
    if only and pid not in only:
      continue
    for c in sorted(os.listdir(os.path.join(src, d))):
      cdir = os.path.join(src, d, c)
      if not (c.startswith("change") and os.path.isfile(os.path.join(cdir, "patch.diff"))):
        continue
      dst = os.path.join(SEEDED, "%s-%d" % (pid, int(c[6:]) + offset))
      os.makedirs(dst, exist_ok=True)
      for f in ("patch.diff", "demo.py"):
        shutil.copy(os.path.join(cdir, f), os.path.join(dst, f))
      try:
        meta = json.load(open(os.path.join(cdir, "meta.json")))
      except Exception:  # pylint: disable=broad-except
        meta = {}
      keep = {"property": pid, "summary": meta.get("summary") or meta.get("what") or "",
              "needs_to_manifest": meta.get("needs_to_manifest") or meta.get("needs") or "",
              "files_changed": meta.get("files_changed") or meta.get("where") or [], "author": "sub-agent given only the property text and a scratch worktree",
              "author_verification": meta.get("commands_run") or meta.get("verification") or ""}
      old = os.path.join(dst, "meta.json")
      if os.path.exists(old):
        prev = json.load(open(old))
        for k in ("also", "evaluation"):
          if k in prev:
            keep[k] = prev[k]
      json.dump(keep, open(old, "w"), indent=1)
      print("stored", dst)


def one(name):
  d = os.path.join(SEEDED, name)
  meta = json.load(open(os.path.join(d, "meta.json")))
  checks = [meta["property"]] + list(meta.get("also", []))
  r = subprocess.run([sys.executable, os.path.join(HERE, "tools", "seeded_eval.py"), d] + checks, capture_output=True, text=True)
  line = [l for l in r.stdout.splitlines() if l.startswith("{")][-1]
  out = json.loads(line)
  out.pop("change", None)
  head = subprocess.run("git -C /repo rev-parse --short HEAD", shell=True, capture_output=True, text=True).stdout.strip()
  meta["evaluation"] = {
    "ran": "tools/seeded_eval.py seeded/%s %s  (scratch worktree of /repo %s: demo.py on the unchanged tree, git apply patch.diff, demo.py again, "
           "tools/repo_tests.sh on the changed tree, then ./check <ID> --tier quick with VT_REPO at the changed tree, VERIF_SEED=%s)"
           % (name, " ".join(checks), head, os.environ.get("VERIF_SEED", "1")),
    "demo_rc_unchanged_tree": out.get("demo_unchanged_rc"), "demo_rc_changed_tree": out.get("demo_changed_rc"),
    "patch_applies": out.get("patch_applies"), "repo_tests_with_change": out.get("tests"),
    "checks": out.get("checks"), "caught_by": sorted(k for k, v in (out.get("checks") or {}).items() if v["rc"] == 1)}
  if "error" in out:
    meta["evaluation"]["error"] = out["error"]
  json.dump(meta, open(os.path.join(d, "meta.json"), "w"), indent=1)
  return name, meta


def do_eval(names):
  names = names or sorted(n for n in os.listdir(SEEDED) if os.path.isdir(os.path.join(SEEDED, n)))
  with concurrent.futures.ThreadPoolExecutor(3) as ex:
    for name, meta in ex.map(one, names):
      ev = meta["evaluation"]
      print(name, "caught_by=%s" % ",".join(ev["caught_by"]), "demo %s->%s" % (ev["demo_rc_unchanged_tree"], ev["demo_rc_changed_tree"]),
            ev["repo_tests_with_change"], flush=True)
  rows = ["# Seeded breaking changes: which check catches which", "",
          "Written by tools/seeded_store.py eval; one row per change kept under seeded/. 'caught' = the quick tier of the check exits 1 with",
          "the change applied to a scratch worktree (VT_REPO); every change leaves the repository's own tests at the baseline result.", "",
          "| change | property | what it needs to manifest | caught by (buckets) | missed by |", "|---|---|---|---|---|"]
  for n in sorted(os.listdir(SEEDED)):
    p = os.path.join(SEEDED, n, "meta.json")
    if not os.path.isfile(p):
      continue
    m = json.load(open(p))
    ev = m.get("evaluation") or {}
    ch = ev.get("checks") or {}
    caught = "; ".join("%s (%s)" % (k, ", ".join(v["buckets"][:3])) for k, v in sorted(ch.items()) if v["rc"] == 1)
    missed = ", ".join(k for k, v in sorted(ch.items()) if v["rc"] != 1)
    rows.append("| %s | %s | %s | %s | %s |" % (n, m["property"], " ".join(str(m.get("needs_to_manifest", "")).split())[:260].replace("|", "/"),
                                              caught.replace("|", "/") or "-", missed or "-"))
  open(os.path.join(SEEDED, "RESULTS.md"), "w").write("\n".join(rows) + "\n")


if __name__ == "__main__":
  if sys.argv[1] == "import":
    do_import(sys.argv[2], int(sys.argv[3]) if len(sys.argv) > 3 else 0, sys.argv[4:] or None)
  else:
    do_eval(sys.argv[2:])
