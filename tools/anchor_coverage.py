#!/usr/bin/env python3
"""Which lines of a property's anchor files does its quick check execute?

  anchor_coverage.py [ID ...]   runs ./check <ID> --tier quick with VT_COVERAGE_DIR (every shard records line coverage of the tree
                                under test), combines the data and writes coverage/<ID>.txt: per anchor file of the property
                                (properties.jsonl anchors.files) executed / executable lines and the line ranges never executed.

A line that no generated case executes cannot be where a check notices a change: the report is read to find generator blind spots.
Evidence and replays of these runs go to a scratch directory; nothing under evidence/ or replays/ is touched.
"""
import json, os, shutil, subprocess, sys, tempfile
HERE = os.path.dirname(os.path.dirname(os.path.abspath(__file__)))
REPO = os.environ.get("VT_REPO", "/repo")


def ranges(nums):
  out, start, prev = [], None, None
  for n in sorted(nums):
    if start is None:
      start = prev = n
    elif n == prev + 1:
      prev = n
    else:
      out.append((start, prev)); start = prev = n
  if start is not None:
    out.append((start, prev))
  return ["%d" % a if a == b else "%d-%d" % (a, b) for a, b in out]


def main():
  props = {json.loads(l)["id"]: json.loads(l) for l in open(os.path.join(HERE, "properties.jsonl"))}
  ids = sys.argv[1:] or sorted(props)
  os.makedirs(os.path.join(HERE, "coverage"), exist_ok=True)
  for pid in ids:
    tmp = tempfile.mkdtemp(prefix="vt-cov-")
    try:
      env = dict(os.environ, VT_COVERAGE_DIR=tmp, VT_NO_SHRINK="1", VT_REPLAY_DIR=os.path.join(tmp, "replays"), VT_EVIDENCE_DIR=os.path.join(tmp, "evidence"))
      r = subprocess.run([os.path.join(HERE, "check"), pid, "--tier", "quick"], cwd=HERE, env=env, capture_output=True, text=True)
      import coverage
      cov = coverage.Coverage(data_file=os.path.join(tmp, ".coverage"))
      cov.combine([tmp])
      # lines that run when the modules are merely imported (def / class statements, constants): the shards inherit the imported
      # modules from the parent process, so these lines are never seen by the measurement and are left out of the account
      imp_dir = tempfile.mkdtemp(prefix="vt-cov-imp-")
      code = ("import coverage, importlib, pkgutil, sys\n"
              "cov = coverage.Coverage(data_file=%r, include=[%r])\ncov.start()\n"
              "import ttconv\n"
              "for m in pkgutil.walk_packages(ttconv.__path__, 'ttconv.'):\n"
              "  try:\n    importlib.import_module(m.name)\n  except Exception:\n    pass\n"
              "cov.stop()\ncov.save()\n") % (os.path.join(imp_dir, ".coverage"), os.path.join(REPO, "src", "main", "python", "ttconv") + "/*")
      subprocess.run([sys.executable, "-c", code], env=dict(os.environ, PYTHONPATH=os.path.join(REPO, "src", "main", "python")), capture_output=True)
      imp = coverage.Coverage(data_file=os.path.join(imp_dir, ".coverage"))
      imp.load()
      lines = ["# %s quick tier, exit %d, seed %s, tree %s" % (pid, r.returncode, os.environ.get("VERIF_SEED", "1"),
               subprocess.run("git -C %s rev-parse --short HEAD" % REPO, shell=True, capture_output=True, text=True).stdout.strip())]
      tot_e = tot_x = 0
      for f in props[pid]["anchors"]["files"]:
        path = os.path.join(REPO, f)
        if not os.path.isfile(path) or not path.endswith(".py"):
          lines.append("%s: not a Python source file" % f)
          continue
        try:
          _, executable, _, missing, _ = cov.analysis2(path)
        except coverage.exceptions.NoSource:
          lines.append("%s: no data" % f)
          continue
        # lines that only define things at import time are executed before the shards start: count a module that was imported
        # before measurement as 'not measured' rather than missed
        try:
          _, _, _, imp_missing, _ = imp.analysis2(path)
          import_only = set(executable) - set(imp_missing)
        except Exception:  # pylint: disable=broad-except
          import_only = set()
        executable = [l for l in executable if l not in import_only]
        missing = [l for l in missing if l not in import_only]
        done = len(executable) - len(missing)
        tot_e += done; tot_x += len(executable)
        lines.append("%s: %d/%d lines executed (%.0f%%); never executed: %s" % (f, done, len(executable), 100.0 * done / max(1, len(executable)),
                                                                               ", ".join(ranges(missing)) or "-"))
      lines.insert(1, "anchor files together: %d/%d lines executed (%.0f%%)" % (tot_e, tot_x, 100.0 * tot_e / max(1, tot_x)))
      open(os.path.join(HERE, "coverage", pid + ".txt"), "w").write("\n".join(lines) + "\n")
      print("\n".join(lines[:2]), flush=True)
    finally:
      shutil.rmtree(tmp, ignore_errors=True)
      if "imp_dir" in locals():
        shutil.rmtree(imp_dir, ignore_errors=True)


if __name__ == "__main__":
  main()
