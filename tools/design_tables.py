#!/usr/bin/env python3
"""Regenerates the machine-written tables of DESIGN.md (between <!-- BEGIN x --> / <!-- END x --> markers):
findings (from known_findings.json) and seeded (from seeded/*/meta.json)."""
import json, os, re
HERE = os.path.dirname(os.path.dirname(os.path.abspath(__file__)))


def findings():
  k = json.load(open(os.path.join(HERE, "known_findings.json")))
  out = ["**Open findings** (%d; each prints one `KNOWN-FINDING:` line per run and excludes only its own bucket):" % len(k["open"]), ""]
  for e in k["open"]:
    out.append("* `%s` `%s` — %s  (replay `%s`)" % (e["property"], e["bucket"], e["what"], e["replay"]))
  out += ["", "**Fixed defects** (%d `fix:` commits in /repo; the entry suppresses nothing, the replay of each stays in the regression tier):" % len(k["fixed"]), ""]
  for e in k["fixed"]:
    m = re.match(r"fixed: property=(\S+) (\S+) (.*)", e if isinstance(e, str) else e.get("line", ""))
    if m:
      out.append("* `%s` `%s` %s" % (m.group(1), m.group(2), m.group(3)))
    else:
      out.append("* %s" % (e,))
  return "\n".join(out)


def seeded():
  p = os.path.join(HERE, "seeded", "RESULTS.md")
  if not os.path.exists(p):
    return "(not evaluated yet)"
  return "\n".join(open(p).read().splitlines()[2:])


def asbuilt():
  import importlib, sys
  sys.path[:0] = [HERE, "/repo/src/main/python"]
  rows = ["| id | parts (cases quick / thorough; enum = enumerated) | quick tier as committed: evaluations, distinct non-trivial, wall |",
          "|----|-----|-----|"]
  for i in range(1, 20):
    pid = "C%02d" % i
    try:
      mod = importlib.import_module("vt.props.c%02d" % i)
      parts = []
      for name, part in mod.PARTS.items():
        parts.append("%s %s" % (name, "enum" if part.strategy is None else "%d/%d" % tuple(part.n)))
    except Exception as e:  # pylint: disable=broad-except
      parts = ["(%s)" % type(e).__name__]
    try:
      ev = json.load(open(os.path.join(HERE, "evidence", pid + ".json")))
      q = "%d, %d, %.0f s" % (ev["coverage"]["evaluations"], ev["coverage"]["distinct_nontrivial"], ev.get("wall_s", 0))
    except Exception:  # pylint: disable=broad-except
      q = "-"
    rows.append("| %s | %s | %s |" % (pid, "; ".join(parts), q))
  return "\n".join(rows)


def main():
  p = os.path.join(HERE, "DESIGN.md")
  s = open(p).read()
  for name, fn in (("findings", findings), ("seeded", seeded), ("asbuilt", asbuilt)):
    a, b = "<!-- BEGIN %s -->" % name, "<!-- END %s -->" % name
    if a in s:
      i, j = s.index(a) + len(a), s.index(b)
      s = s[:i] + "\n" + fn() + "\n" + s[j:]
  open(p, "w").write(s)


if __name__ == "__main__":
  main()
