#!/usr/bin/env python3
"""Evaluates seeded breaking changes: seeded_eval.py <change dir> <check id> [<check id> ...]

For one change directory (patch.diff, demo.py, meta.json): in a scratch worktree of /repo's HEAD
  1. demo.py passes on the unchanged tree, 2. the patch applies, 3. demo.py fails with the patch,
  4. the repository's baseline tests give the baseline result, 5. each named check is run (quick tier) with VT_REPO pointing
  at the patched tree; exit 1 = caught.  Prints one JSON line and removes the worktree.
"""
import json, os, shutil, subprocess, sys, tempfile, time
HERE = os.path.dirname(os.path.dirname(os.path.abspath(__file__)))

def sh(cmd, **kw):
  return subprocess.run(cmd, shell=True, capture_output=True, text=True, **kw)

def main():
  cdir, checks = sys.argv[1], sys.argv[2:]
  tmp = tempfile.mkdtemp(prefix="vt-seval-")
  tree = os.path.join(tmp, "tree")
  out = {"change": cdir, "checks": {}}
  try:
    r = sh("git -C /repo worktree add -q --detach %s HEAD" % tree)
    if r.returncode:
      out["error"] = "worktree: " + r.stderr[-200:]
      return out
    env = "PYTHONPATH=%s/src/main/python" % tree
    demo = os.path.join(cdir, "demo.py")
    out["demo_unchanged_rc"] = sh("%s /venv/bin/python %s" % (env, demo), cwd=tmp).returncode
    r = sh("git -C %s apply %s" % (tree, os.path.join(cdir, "patch.diff")))
    out["patch_applies"] = r.returncode == 0
    if r.returncode:
      r = sh("git -C %s apply --3way %s" % (tree, os.path.join(cdir, "patch.diff")))
      out["patch_applies_3way"] = r.returncode == 0
      if r.returncode:
        out["error"] = "patch does not apply: " + r.stderr[-300:]
        return out
    out["demo_changed_rc"] = sh("%s /venv/bin/python %s" % (env, demo), cwd=tmp).returncode
    r = sh("sh %s/tools/repo_tests.sh %s" % (HERE, tree))
    out["tests"] = [l for l in r.stdout.splitlines() if "passed=" in l][-1:] 
    for cid in checks:
      t0 = time.time()
      r = sh("VT_REPO=%s VT_NO_SHRINK=1 VT_REPLAY_DIR=%s/replays VT_EVIDENCE_DIR=%s/evidence %s/check %s --tier quick" % (tree, tmp, tmp, HERE, cid), cwd=HERE)
      buckets = [l.split()[1][7:] for l in r.stdout.splitlines() if l.startswith("FAIL bucket=")]
      out["checks"][cid] = {"rc": r.returncode, "buckets": buckets[:6], "wall": round(time.time() - t0)}
    return out
  finally:
    sh("git -C /repo worktree remove --force %s" % tree)
    shutil.rmtree(tmp, ignore_errors=True)
    print(json.dumps(out), flush=True)

if __name__ == "__main__":
  main()
