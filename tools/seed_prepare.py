#!/usr/bin/env python3
"""seed_prepare.py <dir>: one scratch worktree of /repo HEAD per property under <dir>/<ID> and the task text <dir>/<ID>.prompt.txt for
a sub-agent that is to write breaking changes (property text + one-line summaries of the changes already kept under seeded/; nothing
else from /verif).  Remove the worktrees afterwards with `git -C /repo worktree remove --force <dir>/<ID>`."""
import glob, json, os, subprocess, sys
HERE = os.path.dirname(os.path.dirname(os.path.abspath(__file__)))
d = os.path.abspath(sys.argv[1])
os.makedirs(d, exist_ok=True)
t = open(os.path.join(HERE, "tools", "seed_prompt.txt")).read()
for l in open(os.path.join(HERE, "properties.jsonl")):
  p = json.loads(l)
  pid = p["id"]
  prop = "Property %s: %s\n\nStatement: %s\n\nQuantifier: %s\n\nWhy tests cannot settle it: %s\n\nAnchored in: %s\nMechanisms: %s\nObserve at: %s\n" % (
    pid, p["title"], p["statement"], p["quantifier"]["text"], p["why_tests_cant"], ", ".join(p["anchors"]["files"]),
    "; ".join("%s (%s)" % (m["name"], m["where"]) for m in p["anchors"]["mechanism"]), "; ".join(p["anchors"]["observe_at"]))
  prev = []
  for m in sorted(glob.glob(os.path.join(HERE, "seeded", pid + "-*", "meta.json"))):
    j = json.load(open(m))
    prev.append("- %s [%s]" % (" ".join(str(j.get("summary", "")).split())[:400], ", ".join(os.path.basename(f) for f in j.get("files_changed", []))))
  open(os.path.join(d, pid + ".prompt.txt"), "w").write(t.replace("@DIR@", d).replace("@ID@", pid).replace("@PROP@", prop).replace("@PREV@", "\n".join(prev) + "\n"))
  r = subprocess.run("git -C /repo worktree add -q --detach %s HEAD" % os.path.join(d, pid), shell=True, capture_output=True, text=True)
  if r.returncode:
    print(pid, r.stderr.strip())
print("prepared", d)
