#!/usr/bin/env python3
"""Sensitivity audit: applies each mutant of mutants/<ID>.json (string replacements in ttconv sources) to a scratch
copy of /repo's python sources under /tmp, runs `./check <ID>` (quick) against it with VT_REPO, and requires exit 1.

usage: mutation_audit.py [ID ...] [--only NAME] [--tier quick] [--jobs N]   (no ID and no --only: full audit, rewrites mutants/AUDIT.md)
Mutant spec: {"name":..., "file": "ttconv/x.py", "old": "...", "new": "...", "count": 1, "expect": ["bucket glob", ...]}
"""
import json, os, shutil, subprocess, sys, tempfile, time
HERE = os.path.dirname(os.path.dirname(os.path.abspath(__file__)))
REPO = os.environ.get("VT_REPO", "/repo")

def run(pid, m, tier):
  tmp = tempfile.mkdtemp(prefix="vt-mut-")
  try:
    dst = os.path.join(tmp, "src", "main", "python")
    shutil.copytree(os.path.join(REPO, "src", "main", "python"), dst, ignore=shutil.ignore_patterns("__pycache__"))
    for ed in m.get("edits") or [m]:
      p = os.path.join(dst, ed["file"])
      s = open(p).read()
      n = s.count(ed["old"])
      if n != ed.get("count", 1):
        return "SPEC-ERROR old text occurs %d times in %s" % (n, ed["file"]), 0
      open(p, "w").write(s.replace(ed["old"], ed["new"]))
    t0 = time.time()
    env = dict(os.environ, VT_REPO=tmp, VT_NO_SHRINK="1", VT_REPLAY_DIR=os.path.join(tmp, "replays"), VT_EVIDENCE_DIR=os.path.join(tmp, "evidence"))
    r = subprocess.run([os.path.join(HERE, "check"), pid, "--tier", tier], cwd=HERE, env=env, capture_output=True, text=True)
    dt = time.time() - t0
    buckets = [l.split()[1][7:] for l in r.stdout.splitlines() if l.startswith("FAIL bucket=")]
    if r.returncode == 1:
      return "KILLED (%s)" % ", ".join(buckets[:4]), dt
    if r.returncode == 0:
      return "SURVIVED", dt
    return "HARNESS-ERROR rc=%d %s" % (r.returncode, (r.stdout + r.stderr)[-300:].replace("\n", " | ")), dt
  finally:
    shutil.rmtree(tmp, ignore_errors=True)

def main():
  args = sys.argv[1:]
  tier, only = "quick", None
  if "--tier" in args:
    i = args.index("--tier"); tier = args[i + 1]; del args[i:i + 2]
  if "--only" in args:
    i = args.index("--only"); only = args[i + 1]; del args[i:i + 2]
  if "--jobs" in args:
    i = args.index("--jobs"); del args[i:i + 2]
  ids = args or sorted(f[:-5] for f in os.listdir(os.path.join(HERE, "mutants")) if f.endswith(".json"))
  bad = 0
  rows = []
  jobs = 1
  if "--jobs" in sys.argv:
    jobs = int(sys.argv[sys.argv.index("--jobs") + 1])
  work = [(pid, m) for pid in ids for m in json.load(open(os.path.join(HERE, "mutants", pid + ".json"))) if not only or m["name"] == only]
  import concurrent.futures
  with concurrent.futures.ThreadPoolExecutor(jobs) as ex:
    for (pid, m), (res, dt) in zip(work, ex.map(lambda w: run(w[0], w[1], tier), work)):
      print("%s %-40s %s [%.0fs]" % (pid, m["name"], res, dt), flush=True)
      rows.append((pid, m["name"], (m.get("edits") or [m])[0]["file"], res, dt))
      bad += not res.startswith("KILLED")
  if not args and not only:
    # a full audit rewrites the committed table
    head = subprocess.run("git -C %s rev-parse --short HEAD" % REPO, shell=True, capture_output=True, text=True).stdout.strip()
    out = ["# Mutation audit (tools/mutation_audit.py, tier %s, /repo at %s, VERIF_SEED=%s)" % (tier, head, os.environ.get("VERIF_SEED", "1")), "",
           "%d mutants, %d killed." % (len(rows), sum(r[3].startswith("KILLED") for r in rows)), "",
           "| check | mutant | file | result (first buckets) | s |", "|---|---|---|---|---|"]
    out += ["| %s | %s | %s | %s | %.0f |" % (a, b.replace("|", "/"), c, d.replace("|", "/")[:200], e) for a, b, c, d, e in rows]
    open(os.path.join(HERE, "mutants", "AUDIT.md"), "w").write("\n".join(out) + "\n")
  else:
    # a partial audit replaces its rows in the committed table, if any
    ap = os.path.join(HERE, "mutants", "AUDIT.md")
    if os.path.exists(ap):
      new = {(a, b.replace("|", "/")): "| %s | %s | %s | %s | %.0f |" % (a, b.replace("|", "/"), c, d.replace("|", "/")[:200], e) for a, b, c, d, e in rows}
      lines = open(ap).read().splitlines()
      for i, l in enumerate(lines):
        f = [x.strip() for x in l.split("|")]
        if len(f) > 3 and (f[1], f[2]) in new:
          lines[i] = new.pop((f[1], f[2]))
      lines += list(new.values())      # mutants added after the last full audit
      body = [l for l in lines if l.startswith("| C")]
      lines = [("%d mutants, %d killed." % (len(body), sum("| KILLED" in l for l in body))) if l.endswith(" killed.") and " mutants, " in l else l for l in lines]
      open(ap, "w").write("\n".join(lines) + "\n")
  return 1 if bad else 0

if __name__ == "__main__":
  sys.exit(main())
