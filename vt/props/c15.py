"""C15 - the canonical model stays a well-formed tree under any sequence of API calls."""
import itertools
import signal
from collections import Counter

from hypothesis import strategies as st

from vt import model_universe as mu
from vt.model_universe import KIND, NAMES, DOCS, KINDS
from vt.run import Part, HarnessError

ID = "C15"
LEVEL = "exploration"
RULE = ("A case is a call history given as data: {start: flat|tree, profile: all|clean, ops: [...]} over a fixed universe of {NN} named "
        "objects (two documents with two elements of each of the 12 content kinds - three divs and spans - and three regions each - rA and rB registered, rA2 "
        "sharing rA's id - plus 13 detached objects); the check rebuilds the universe for every case ('tree' first replays a fixed "
        "prelude that assembles body>div>p>span>text, a br and a ruby in d1 and references region A) and interprets the calls. After "
        "every call, accepted or rejected, the invariant walker and the abstract-model comparison run; the history stops at the first "
        "violating call. Parts: 'random' (Hypothesis lists of 40/80 calls, arguments valid and invalid, weighted towards removals, "
        "re-attachments and region removal/replacement while referenced), 'random_clean' (same generator; calls whose argument class, "
        "computed on the abstract model, is the trigger of a reported defect are skipped like a state-machine precondition, so that "
        "histories run to full length), 'exhaustive' (all sequences of 2/3 calls over a fixed alphabet of %d calls, from both start "
        "states; shorter sequences are their prefixes), 'values' (every pair of the 36 style properties and the 43 universe values, valid "
        "and invalid, through set_style on an element and on a region, add_animation_step on both, and put_initial_value: acceptance must "
        "equal the universe's own validity predicate and nothing invalid may be stored). Every call runs under a 0.5 s CPU-time watchdog (a call that does not return "
        "is a failure, bucket hang:*). evaluations = calls executed and judged; non-trivial = history in which an "
        "element accepted-removed from a parent (or detached from a document) is later accepted under another parent (in another "
        "document), or a region is removed or replaced while referenced; distinct by case hash.")
ASSUMPTIONS = [
  "histories are generated as plain data and interpreted against a universe rebuilt per case; this explores the same space as a "
  "Hypothesis RuleBasedStateMachine over the same rules (preconditions = the 'clean' profile's skipped argument classes) but fits the "
  "sharded runner, the replay files and the greedy minimiser",
  "the content model is the one of doc/data_model.md (Ruby: Rb? Rt? | Rb? Rp Rt? Rp | Rbc Rtc Rtc?, Rtc: Rt* | Rp Rt* Rp); an Rtc whose "
  "children are a strict prefix Rp Rt* is tolerated, and the call that would extend or complete it must then be accepted",
  "which calls must be accepted is otherwise not asserted (only what an accepted call does, and that a rejected single-element call "
  "does nothing); a rejected push_children may leave a prefix of its arguments attached (documented for the base class), a rejected "
  "copy_to may leave the destination's own styles partially copied",
  "after put_region replaces a same-id region, a reference to the old object may either follow the new region or be cleared; after "
  "remove_region every reference must be cleared, whether or not the referencing element is below the body (own bucket)",
  "the document is the root of the tree 'Region* Body?': its body and registered regions must belong to it (clause document-tree)",
  "only values whose validity is unambiguous are generated and judged (no empty font-family tuple, no bool as number, no em/c extents)",
  "concurrency, set_id/set_begin/set_end/set_lang/set_space/set_text and the Document-level setters are outside the property",
]

# ------------------------------------------------------------------------------------------------ fixed histories

TREE_PRELUDE = [
  ("set_body", "d1", "d1.body1"),
  ("push_child", "d1.body1", "d1.div1"),
  ("push_child", "d1.div1", "d1.div2"),
  ("push_child", "d1.div1", "d1.p1"),
  ("push_child", "d1.p1", "d1.span1"),
  ("push_child", "d1.span1", "d1.text1"),
  ("push_child", "d1.p1", "d1.br1"),
  ("push_children", "d1.ruby1", ["d1.rb1", "d1.rt1"], "list"),
  ("push_child", "d1.p1", "d1.ruby1"),
  ("set_region", "d1.div1", "d1.rA"),
  ("set_region", "d1.p1", "d1.rA"),
  ("set_region", "d1.p2", "d1.rA"),
  ("set_style", "d1.p1", "Color", "color.red"),
]

# argument classes (method label-feature, see model_universe.describe) that trigger a reported defect; the clean profile skips them
AVOID = frozenset([
  # elements that belong to a document without being below its body are not reachable from the document, so that
  # remove_region / put_region cannot update their region references (known findings, orphan forms of M-2 and M-4)
  "remove_region-referenced-outside-body", "put_region-replace-referenced",
])

ALPHABET = [
  ("push_child", "d1.body1", "d1.div1"),
  ("push_child", "d1.div1", "d1.div2"),
  ("push_child", "d1.div2", "d1.div1"),
  ("push_child", "d1.div1", "d1.p1"),
  ("push_child", "d1.div2", "d1.p1"),
  ("push_child", "d1.p1", "d1.span1"),
  ("push_child", "d1.span1", "d1.span2"),
  ("push_child", "d1.span2", "d1.span1"),
  ("push_child", "d1.span1", "d1.text1"),
  ("push_child", "d1.p1", "d1.br1"),
  ("push_child", "d1.p1", "d1.ruby1"),
  ("push_child", "d1.div1", "d1.span1"),
  ("push_child", "d1.div1", "d2.p1"),
  ("push_child", "d1.div1", "x.p1"),
  ("push_child", "x.div1", "x.p1"),
  ("push_child", "d1.div1", "d1.div1"),
  ("push_child", "d1.div2", "d1.div3"),
  ("push_child", "d1.div3", "d1.div1"),
  ("push_child", "d1.div3", "d1.div2"),
  ("push_child", "d1.ruby1", "d1.rb1"),
  ("push_child", "d1.rb1", "d1.span2"),
  ("push_child", "d1.rbc1", "d1.rb2"),
  ("push_child", "d1.rtc1", "d1.rt1"),
  ("push_child", "d1.rtc1", "d1.rt2"),
  ("push_child", "d1.rtc1", "d1.rp1"),
  ("push_child", "d1.rtc1", "d1.rp2"),
  ("push_children", "d1.ruby1", ["d1.rb1", "d1.rt1"], "list"),
  ("push_children", "d1.ruby2", ["d1.rb2", "d1.rt2"], "generator"),
  ("push_children", "d1.ruby2", ["d1.rb2", "d1.rp1", "d1.rt2", "d1.rp2"], "list"),
  ("push_children", "d1.ruby2", ["d1.rbc1", "d1.rtc1"], "list"),
  ("push_children", "d1.ruby2", ["d1.rbc1", "d2.rtc1"], "list"),
  ("push_children", "d1.ruby2", ["d1.rb2", "d1.rb1"], "list"),
  ("push_children", "d1.rtc1", ["d1.rp1", "d1.rt1", "d1.rp2"], "list"),
  ("push_children", "d1.rtc1", ["d1.rt2"], "list"),
  ("push_children", "d1.rtc1", ["d1.rt1", "d1.rt2"], "generator"),
  ("push_children", "d1.div1", ["d1.p1", "d1.p2"], "list"),
  ("push_children", "d1.div2", ["d1.div1"], "list"),
  ("push_children", "d1.div2", ["d1.p2", "d1.span2", "d1.p1"], "generator"),
  ("remove", "d1.div1"),
  ("remove", "d1.div2"),
  ("remove", "d1.p1"),
  ("remove", "d1.span1"),
  ("remove", "d1.rb1"),
  ("remove_child", "d1.div1", "d1.p1"),
  ("remove_child", "d1.div1", "d1.div2"),
  ("remove_child", "d1.ruby1", "d1.rb1"),
  ("remove_child", "d1.p1", "d1.div1"),
  ("remove_children", "d1.div1"),
  ("remove_children", "d1.p1"),
  ("remove_children", "d1.ruby1"),
  ("remove_children", "d1.rtc1"),
  ("set_doc", "d1.div1", None),
  ("set_doc", "d1.p1", None),
  ("set_doc", "d1.p2", None),
  ("set_doc", "d1.p2", "d2"),
  ("set_doc", "d1.div1", "d2"),
  ("set_doc", "x.div1", "d1"),
  ("set_doc", "x.p1", "d1"),
  ("set_doc", "d1.body1", None),
  ("set_doc", "d1.rA", None),
  ("set_doc", "d1.rA", "d2"),
  ("set_region", "d1.div1", "d1.rA"),
  ("set_region", "d1.p1", "d1.rB"),
  ("set_region", "d1.p1", "d2.rA"),
  ("set_region", "d1.p1", "d1.rA2"),
  ("set_region", "d1.p1", None),
  ("set_region", "x.p1", "d1.rA"),
  ("set_region", "d1.br1", "d1.rA"),
  ("set_region", "d1.p2", "d1.div1"),
  ("put_region", "d1", "d1.rA2"),
  ("put_region", "d1", "d1.rA"),
  ("put_region", "d1", "d2.rA"),
  ("put_region", "d2", "d1.rA"),
  ("put_region", "d1", "d1.div1"),
  ("remove_region", "d1", "A"),
  ("remove_region", "d1", "Z"),
  ("set_body", "d1", "d1.body1"),
  ("set_body", "d1", None),
  ("set_body", "d1", "d2.body1"),
  ("set_body", "d1", "d1.div1"),
  ("set_style", "d1.p1", "FontFamily", "ff.bad-int-item"),
  ("set_style", "d1.p1", "FontFamily", "ff.mixed"),
  ("set_style", "d1.p1", "Color", "junk.str"),
  ("set_style", "d1.p1", "Color", None),
  ("add_animation_step", "d1.p1", "FontFamily", "ff.bad-none-item", 0, 1),
  ("add_animation_step", "d1.p1", "Color", "color.red", 0, None),
  ("put_initial_value", "d1", "FontFamily", "ff.bad-nested-item"),
  ("put_initial_value", "d1", "Color", "color.red"),
  ("add_animation_step", "d1.br1", "Color", "color.red", 0, None),
  ("add_animation_step", "d1.rB", "Opacity", "num.half", None, 2),
  ("copy_to", "d1.br1", "d1.br1"),
  ("copy_to", "d1.rB", "d1.rB"),
  ("copy_to", "d1.p1", "d1.p1"),
  ("copy_to", "d1.p1", "d1.p2"),
  ("copy_to", "d1.p1", "d1.text1"),
]

RULE = (RULE % len(ALPHABET)).replace("{NN}", str(len(mu.NAMES)))

# ------------------------------------------------------------------------------------------------ validation of cases

_ARITY = {"push_child": 3, "push_children": 4, "remove": 2, "remove_child": 3, "remove_children": 2, "set_doc": 3, "set_region": 3,
          "put_region": 3, "remove_region": 3, "set_body": 3, "set_style": 4, "add_animation_step": 6, "put_initial_value": 4, "copy_to": 3}
_NAMESET = frozenset(NAMES)


def _norm(op):
  """tuple form of an operation, validated (a malformed case is a harness error, never a 'rejected call')"""
  op = tuple(op)
  k = op[0]
  if k not in _ARITY or len(op) != _ARITY[k]:
    raise HarnessError("malformed operation %r" % (op,))

  def el(x, none_ok=False):
    if not ((none_ok and x is None) or x in _NAMESET):
      raise HarnessError("unknown element %r in %r" % (x, op))

  def doc(x, none_ok=False):
    if not ((none_ok and x is None) or x in DOCS):
      raise HarnessError("unknown document %r in %r" % (x, op))

  if k in ("put_region", "remove_region", "set_body", "put_initial_value"):
    doc(op[1])
  else:
    el(op[1])
  if k in ("push_child", "remove_child", "set_region", "put_region", "set_body", "copy_to"):
    el(op[2], True)
  elif k == "push_children":
    op = (k, op[1], list(op[2]), op[3])
    for x in op[2]:
      el(x, True)
    if op[3] not in ("list", "generator"):
      raise HarnessError("bad mode in %r" % (op,))
  elif k == "set_doc":
    doc(op[2], True)
  elif k == "remove_region":
    if not isinstance(op[2], str):
      raise HarnessError("bad region id in %r" % (op,))
  elif k in ("set_style", "add_animation_step", "put_initial_value"):
    if not isinstance(op[2], str) or not (op[3] is None or op[3] in mu.VALUES):
      raise HarnessError("bad style arguments in %r" % (op,))
  return op


# ------------------------------------------------------------------------------------------------ the check

_REGION_CLAUSES = ("dangling-region", "stale-region", "foreign-region", "region-on-detached-element", "non-region-stored")


def _bucket(clause, who, lab, feat, m):
  if clause.startswith("invalid-value-stored:"):
    return clause                                   # one root cause per property, whatever the storing call was
  if clause in _REGION_CLAUSES and lab in ("put_region", "remove_region") and who is not None:
    return "%s:%s-element-%s" % (clause, lab, "in-body" if m.in_body(who) else "outside-body")
  return "%s:%s-%s" % (clause, lab, feat)


def _prefix_states(m, op):
  """abstract states a rejected multi-element call may leave behind"""
  k = op[0]
  out = [m]
  if k == "push_children":
    cur = m
    for b in op[2]:
      if b is None:
        break
      cur = cur.copy()
      cur.children[op[1]].append(b)
      cur.parent[b] = op[1]
      out.append(cur)
  elif k == "remove_children":
    cur = m
    for c in m.children[op[1]]:
      cur = cur.copy()
      cur.children[op[1]] = cur.children[op[1]][1:]
      cur.parent[c] = None
      out.append(cur)
  return out


def _cap_memory(limit=6 << 30):
  """safety net for the processes that run this check only: a ttconv call that allocates without end (finding M-9 used 58 GB before
  the watchdog existed) must die with a MemoryError in its own process instead of exhausting the machine"""
  try:
    import resource
    soft, hard = resource.getrlimit(resource.RLIMIT_AS)
    if soft == resource.RLIM_INFINITY or soft > limit:
      resource.setrlimit(resource.RLIMIT_AS, (limit, hard))
  except Exception:  # pylint: disable=broad-except
    pass


_cap_memory()


class _Watchdog(BaseException):
  """raised inside a ttconv call that has used more CPU time than any call on a 67-object universe can need"""


def _alarm(_signum, _frame):
  raise _Watchdog()


CALL_CPU_LIMIT = 0.5    # seconds of process CPU time (not wall time: independent of machine load); a healthy call takes microseconds


def _perform(u, op):
  """one call under a CPU-time watchdog; returns 'accepted' | 'rejected' | 'hang'"""
  old = signal.signal(signal.SIGVTALRM, _alarm)
  signal.setitimer(signal.ITIMER_VIRTUAL, CALL_CPU_LIMIT)
  try:
    try:
      mu.perform(u, op)
      return "accepted"
    finally:
      signal.setitimer(signal.ITIMER_VIRTUAL, 0)
  except _Watchdog:
    return "hang"
  except (RecursionError, MemoryError):
    raise
  except Exception:  # pylint: disable=broad-except
    return "rejected"
  finally:
    signal.signal(signal.SIGVTALRM, old)


def check(case, res):
  profile = case.get("profile", "all")
  start = case.get("start", "flat")
  ops = [_norm(o) for o in case["ops"]]
  prelude = [_norm(o) for o in TREE_PRELUDE] if start == "tree" else []
  u = mu.Universe()
  m = mu.Model()
  stats = Counter()
  res.stats = stats
  res.evals = 0
  removed_from, left_doc = {}, {}
  nt = set()
  violated = False
  executed = 0
  res.label("start:" + start, "profile:" + profile)
  first = mu.walk(u)
  if first or not m.same(mu.observe(u)):
    raise HarnessError("the freshly built universe is not well formed or differs from the abstract model: %r %r" % (first[:2], m.diff(mu.observe(u))))
  if prelude:
    # the fixed prelude is judged once, at its end (its calls are all accepted and exact on a healthy tree)
    for op in prelude:
      try:
        mu.perform(u, op)
      except RecursionError:
        raise
      except Exception as e:  # pylint: disable=broad-except
        res.fail("prelude-call-rejected:" + op[0], "%r raised %s: %s" % (op, type(e).__name__, e))
        return
      mu.advance(m, op, None)
    problems = mu.walk(u)
    for clause, who, text in problems:
      res.fail("prelude:" + clause, text)
    if not problems and not m.same(mu.observe(u)):
      res.fail("prelude:accepted-call-wrong-effect", "; ".join(m.diff(mu.observe(u))))
    if res.fails:
      return
  for i, op in enumerate(ops):
    lab, feat = mu.describe(m, op)
    key = lab + "-" + feat
    if profile == "clean" and key in AVOID:
      stats["skipped-known-trigger:" + key] += 1
      continue
    outcome = _perform(u, op)
    accepted = outcome == "accepted"
    if outcome == "hang":
      # the call did not return: nothing can be said about the state (it may be huge), so it is dropped unread
      res.evals += 1
      executed += 1
      stats["call:%s:hang" % key] += 1
      res.fail("hang:" + key, "call %d %r (%s) was still running after %.1f s of CPU time" % (i, op, key, CALL_CPU_LIMIT))
      violated = True
      u = None
      break
    res.evals += 1
    executed += 1
    stats["call:%s:%s" % (key, "accepted" if accepted else "rejected")] += 1
    where = "call %d %r (%s, %s)" % (i, op, key, "accepted" if accepted else "rejected")
    problems = mu.walk(u)
    if problems:
      for clause, who, text in problems:
        res.fail(_bucket(clause, who, lab, feat, m), "%s: %s" % (where, text))
      violated = True
      break
    obs = mu.observe(u)
    if accepted:
      exp = mu.advance(m.copy(), op, obs)
      if not exp.same(obs):
        res.fail("accepted-call-wrong-effect:" + key, "%s: expected vs observed %s" % (where, "; ".join(exp.diff(obs))))
        violated = True
        break
    elif op[0] in mu.SINGLE:
      exp = m
      if not m.same(obs):
        res.fail("rejected-call-changed-model:" + key, "%s: before vs after %s" % (where, "; ".join(m.diff(obs))))
        violated = True
        break
    else:
      cands = [mu.advance(m.copy(), op, obs)] if op[0] == "copy_to" else _prefix_states(m, op)
      exp = next((c for c in cands if c.same(obs)), None)
      if exp is None:
        res.fail("rejected-call-changed-model:%s-not-a-prefix" % key, "%s: before vs after %s" % (where, "; ".join(m.diff(obs))))
        violated = True
        break
    if feat == "extends-Rp-prefix" and not accepted:
      res.fail("content-model-dead-end:" + key, "%s: %s has children %r, a strict prefix of Rp Rt* Rp, and refuses the %s that continues it"
               % (where, op[1], [KIND[c] for c in m.children[op[1]]], KIND[op[2]]))
    # non-triviality bookkeeping
    for n in NAMES:
      a, b = m.parent[n], exp.parent[n]
      if a != b:
        if b is None:
          removed_from[n] = a
        elif n in removed_from and removed_from[n] != b:
          nt.add("nt:reattached-elsewhere")
      a, b = m.doc[n], exp.doc[n]
      if a != b:
        if b is None:
          left_doc[n] = a
        elif n in left_doc and left_doc[n] != b:
          nt.add("nt:moved-to-other-document")
    if accepted and key.startswith("remove_region-referenced"):
      nt.add("nt:region-removed-while-referenced")
    if accepted and key == "put_region-replace-referenced":
      nt.add("nt:region-replaced-while-referenced")
    m = exp
  # an accepted removal or replacement of a referenced region is non-trivial even when that very call is the violating one
  if violated:
    if key.startswith("remove_region-referenced") and accepted:
      nt.add("nt:region-removed-while-referenced")
    if key == "put_region-replace-referenced" and accepted:
      nt.add("nt:region-replaced-while-referenced")
  res.nontrivial = bool(nt)
  res.label(*sorted(nt))
  res.label("history:stopped-at-violation" if violated else "history:ran-to-end")
  res.label("calls-executed:%s" % ("0-9" if executed < 10 else "10-39" if executed < 40 else "40+"))
  d = m.depth()
  res.label("final-depth:%s" % ("0-1" if d < 2 else "2-3" if d < 4 else "4+"))


# ------------------------------------------------------------------------------------------------ random histories
# Hypothesis favours small values and first list entries (and repeats them): every pool is ordered so that the first
# entry / the low branch is the common, *valid* shape, and the exotic shapes sit in the high branches.

_P = st.integers(0, 99)
_ANY = ("Div", "P", "Span", "Br", "Text", "Ruby", "Rb", "Rt", "Rp", "Rbc", "Rtc", "Body")
_CONTAINERS = [("Div", 5), ("P", 5), ("Span", 5), ("Body", 2), ("Rbc", 2), ("Rtc", 3), ("Rb", 1), ("Rt", 1), ("Rp", 1), ("Ruby", 1),
               ("Br", 1), ("Text", 1)]
_CONTAINER_POOL = [k for k, w in _CONTAINERS for _ in range(w)]
_DOC_POOL = ["d1"] * 8 + ["d2"] * 2 + ["x"]
_OTHER = {"d1": ["d2", "d2", "x"], "d2": ["d1", "d1", "x"], "x": ["d1", "d2"]}
_PARENT_OF = {"Div": ("Div", "Body"), "P": ("Div",), "Span": ("P", "Span", "Rb", "Rt"), "Br": ("P", "Span"), "Text": ("Span",),
              "Ruby": ("P",), "Rb": ("Rbc",)}
_MOVABLE = ("P", "Span", "Div", "Br", "Text", "Ruby", "Rb")
_STYLED = ("P", "Div", "Span", "Body", "Ruby", "Rb", "Rt", "Rtc", "Br", "Text")


def _name(d, k, i):
  if d == "x":
    return "x.%s1" % k.lower()
  return "%s.%s%d" % (d, k.lower(), i)


def _doc_of(name):
  return name.split(".")[0]


@st.composite
def _elem(draw, kinds=None, near=None, stray=12):
  """an element name: kind from `kinds` (default any), document `near` unless it strays to another one"""
  k = draw(st.sampled_from(kinds or _ANY))
  if near is None:
    d = draw(st.sampled_from(_DOC_POOL))
  elif draw(_P) >= 100 - stray:
    d = draw(st.sampled_from(_OTHER[near]))
  else:
    d = near
  return _name(d, k, draw(st.integers(1, 2)))


@st.composite
def _region(draw, near):
  d = near if near in DOCS else draw(st.sampled_from(DOCS))
  r = draw(_P)
  if r < 50:
    return "%s.%s" % (d, draw(st.sampled_from(["rA", "rA", "rB"])))
  if r < 68:
    return d + ".rA2"
  if r < 90:
    return "%s.%s" % ("d2" if d == "d1" else "d1", draw(st.sampled_from(["rA", "rA2", "rB"])))
  return "x.rA"


@st.composite
def _style_args(draw):
  prop = draw(st.sampled_from(("Color", "FontFamily", "FontFamily") + mu.PROPS))
  r = draw(_P)
  if r < 50:
    return prop, draw(st.sampled_from(mu.VALID_VIDS[prop]))
  if r < 90:
    return prop, draw(st.sampled_from(mu.INVALID_VIDS[prop]))
  if r < 97:
    return prop, None
  return "NoSuchProperty", draw(st.sampled_from(mu.VIDS))


def _pattern_items(draw, pattern, d, stray=7):
  flip = draw(st.integers(0, 1))
  seen, items = Counter(), []
  for k in pattern:
    seen[k] += 1
    dd = d if draw(_P) < 100 - stray else draw(st.sampled_from(_OTHER[d]))
    items.append(_name(dd, k, 1 + (seen[k] - 1 + flip) % 2))
  return items


_RTC_SHAPES = [("Rt",), ("Rt", "Rt"), ("Rp", "Rt", "Rp"), ("Rp", "Rt", "Rt", "Rp"), ("Rp", "Rp"), ("Rp", "Rt"), ("Rt", "Rp"), ()]


@st.composite
def _op(draw):
  kind = draw(st.sampled_from(_OP_POOL))
  if kind == "push_child":
    pk = draw(st.sampled_from(_CONTAINER_POOL))
    parent = draw(_elem([pk]))
    allowed = mu.ALLOWED[pk]
    r = draw(_P)
    if r >= 97:
      return (kind, parent, None)
    return (kind, parent, draw(_elem(allowed if allowed and r < 84 else None, near=_doc_of(parent))))
  if kind == "push_children":
    r = draw(_P)
    mode = draw(st.sampled_from(["list", "list", "list", "generator"]))
    if r < 45:
      target = draw(_elem(["Ruby"]))
      d = _doc_of(target)
      if draw(_P) < 80:
        return (kind, target, _pattern_items(draw, draw(st.sampled_from(mu.RUBY_PUSHABLE)), d), mode)
      return (kind, target, draw(st.lists(_elem(["Rb", "Rt", "Rp", "Rbc", "Rtc", "Span"], near=d), max_size=4)), mode)
    if r < 75:
      target = draw(_elem(["Rtc"]))
      return (kind, target, _pattern_items(draw, draw(st.sampled_from(_RTC_SHAPES)), _doc_of(target)), mode)
    pk = draw(st.sampled_from(["Div", "P", "Span", "Body", "Rbc", "Rb"]))
    target = draw(_elem([pk]))
    items = draw(st.lists(_elem(mu.ALLOWED[pk], near=_doc_of(target), stray=8), max_size=3, unique=True))
    if draw(_P) >= 85:
      items.append(draw(_elem(None, near=_doc_of(target))))
    return (kind, target, items, mode)
  if kind == "remove":
    return (kind, draw(_elem(["P", "Span", "Div", "P", "Span", "Div", "Br", "Text", "Ruby", "Rb", "Rt", "Rp", "Rbc", "Rtc", "Body"])))
  if kind == "remove_child":
    pk = draw(st.sampled_from(_CONTAINER_POOL))
    parent = draw(_elem([pk]))
    allowed = mu.ALLOWED[pk]
    r = draw(_P)
    if r >= 97:
      return (kind, parent, None)
    return (kind, parent, draw(_elem(allowed if allowed and r < 90 else None, near=_doc_of(parent), stray=5)))
  if kind == "remove_children":
    return (kind, draw(_elem([draw(st.sampled_from(_CONTAINER_POOL + ["Ruby", "Ruby", "Rtc"]))])))
  if kind == "set_doc":
    x = draw(_elem()) if draw(_P) < 88 else draw(_region(None))
    return (kind, x, draw(st.sampled_from([None, "d1", None, "d2"])))
  if kind == "set_region":
    x = draw(_elem(["P", "Div", "Span", "P", "Div", "Span", "Body", "Br", "Text", "Ruby", "Rb", "Rt", "Rtc"]))
    r = draw(_P)
    if r < 83:
      return (kind, x, draw(_region(_doc_of(x))))
    if r < 93:
      return (kind, x, None)
    if r < 97:
      return (kind, x, draw(_elem(near=_doc_of(x))))
    return (kind, draw(_region(None)), draw(_region(None)))
  if kind == "put_region":
    d = draw(st.sampled_from(["d1", "d1", "d1", "d2"]))
    r = draw(_P)
    if r < 55:
      return (kind, d, draw(st.sampled_from([d + ".rA2", d + ".rA", d + ".rA2", d + ".rB"])))
    if r < 91:
      return (kind, d, draw(_region(d)))
    if r < 96:
      return (kind, d, draw(_elem(near=d)))
    return (kind, d, None)
  if kind == "remove_region":
    return (kind, draw(st.sampled_from(["d1", "d1", "d1", "d2"])), draw(st.sampled_from(["A", "A", "A", "B", "B", "Z"])))
  if kind == "set_body":
    d = draw(st.sampled_from(["d1", "d1", "d1", "d2"]))
    r = draw(_P)
    if r < 75:
      return (kind, d, draw(_elem(["Body"], near=d)))
    if r < 90:
      return (kind, d, None)
    return (kind, d, draw(_elem(near=d)))
  if kind == "set_style":
    prop, vid = draw(_style_args())
    return (kind, draw(_elem(_STYLED)), prop, vid)
  if kind == "add_animation_step":
    prop, vid = draw(_style_args())
    if draw(_P) >= 96:
      prop = "not-a-step"
    return (kind, draw(_elem(_STYLED)), prop, vid, draw(st.one_of(st.none(), st.integers(0, 3))), draw(st.one_of(st.none(), st.integers(1, 5))))
  if kind == "put_initial_value":
    prop, vid = draw(_style_args())
    return (kind, draw(st.sampled_from(DOCS)), prop, vid)
  if kind == "copy_to":
    a = draw(_elem(_STYLED))
    r = draw(_P)
    if r < 60:
      return (kind, a, draw(_elem([KIND[a]], near=_doc_of(a), stray=30)))
    if r < 97:
      return (kind, a, draw(_elem()))
    return (kind, a, None)
  raise ValueError(kind)


_OP_WEIGHTS = [("push_child", 30), ("push_children", 9), ("remove", 11), ("remove_child", 4), ("remove_children", 4), ("set_doc", 7),
               ("set_region", 10), ("put_region", 5), ("remove_region", 4), ("set_body", 3), ("set_style", 6), ("add_animation_step", 3),
               ("put_initial_value", 2), ("copy_to", 2)]
_OP_POOL = [k for k, w in _OP_WEIGHTS for _ in range(w)]
_FRAGMENTS = [("one", 66), ("move", 12), ("ref-remove", 4), ("ref-replace", 4), ("chain", 5), ("ruby", 3), ("move-doc", 3), ("rtc", 3),
              ("cycle", 4), ("ref-ruby", 3)]
_FRAGMENT_POOL = [k for k, w in _FRAGMENTS for _ in range(w)]


@st.composite
def _fragment(draw):
  """one call, or a short run of calls that builds one of the shapes the property's quantifier singles out"""
  f = draw(st.sampled_from(_FRAGMENT_POOL))
  if f == "one":
    return [draw(_op())]
  d = draw(st.sampled_from(["d1", "d1", "d1", "d2"]))
  i, j = draw(st.integers(1, 2)), draw(st.integers(1, 2))
  if f == "move":
    k = draw(st.sampled_from(_MOVABLE))
    x = _name(d, k, i)
    q = _name(d, draw(st.sampled_from(_PARENT_OF[k])), j)
    return [("remove", x), ("push_child", q, x)]
  if f == "move-doc":
    k = draw(st.sampled_from(_MOVABLE))
    x = _name(d, k, i)
    o = "d2" if d == "d1" else "d1"
    q = _name(o, draw(st.sampled_from(_PARENT_OF[k])), j)
    return [("remove", x), ("remove_children", x), ("set_doc", x, None), ("set_doc", x, o), ("push_child", q, x)]
  if f == "ref-remove":
    x = _name(d, draw(st.sampled_from(("P", "Div", "Span", "Body"))), i)
    r = draw(st.sampled_from(["rA", "rB"]))
    return [("set_region", x, "%s.%s" % (d, r)), ("remove_region", d, mu.REGION_IDS[r])]
  if f == "ref-replace":
    x = _name(d, draw(st.sampled_from(("P", "Div", "Span", "Body"))), i)
    first, second = draw(st.sampled_from([("rA", "rA2"), ("rA2", "rA")]))
    return [("put_region", d, "%s.%s" % (d, first)), ("set_region", x, "%s.%s" % (d, first)), ("put_region", d, "%s.%s" % (d, second))]
  if f == "chain":
    b, dv, p, s, t = (_name(d, k, draw(st.integers(1, 2))) for k in ("Body", "Div", "P", "Span", "Text"))
    return [("set_body", d, b), ("push_child", b, dv), ("push_child", dv, p), ("push_child", p, s), ("push_child", s, t)]
  if f == "cycle":
    # a chain of three elements of a kind that may contain itself, then the head of the chain pushed under its tail (or its middle)
    k = draw(st.sampled_from(("Div", "Span")))
    a, b, c = draw(st.permutations([_name(d, k, 1), _name(d, k, 2), "%s.%s3" % (d, k.lower())]))
    out = [("remove", a), ("push_child", a, b), ("push_child", b, c), ("push_child", draw(st.sampled_from([c, c, b])), a)]
    return out if draw(st.booleans()) else out[1:]
  if f == "ruby":
    ruby = _name(d, "Ruby", i)
    return [("push_children", ruby, _pattern_items(draw, draw(st.sampled_from(mu.RUBY_PUSHABLE)), d, stray=0), "list"),
            ("push_child", _name(d, "P", j), ruby)]
  if f == "ref-ruby":
    # a ruby below the body, one of its parts referencing a region that is then removed or replaced
    b, dv, p, ruby = (_name(d, k, 1) for k in ("Body", "Div", "P", "Ruby"))
    pattern = draw(st.sampled_from(mu.RUBY_PUSHABLE))
    items = _pattern_items(draw, pattern, d, stray=0)
    x = draw(st.sampled_from(items + [ruby]))
    build = [("set_body", d, b), ("push_child", b, dv), ("push_child", dv, p), ("push_children", ruby, items, "list"), ("push_child", p, ruby)]
    if draw(st.booleans()):
      return build + [("put_region", d, d + ".rA"), ("set_region", x, d + ".rA"), ("remove_region", d, mu.REGION_IDS["rA"])]
    return build + [("put_region", d, d + ".rA"), ("set_region", x, d + ".rA"), ("put_region", d, d + ".rA2")]
  if f == "rtc":
    rtc = _name(d, "Rtc", i)
    a = draw(st.integers(1, 2))
    return [("push_child", rtc, _name(d, "Rp", a)), ("push_child", rtc, _name(d, "Rt", j)), ("push_child", rtc, _name(d, "Rp", 3 - a))]
  raise ValueError(f)


def _histories(profile):
  def strat(tier):
    n = 40 if tier == "quick" else 80
    return st.builds(lambda start, frags: {"start": start, "profile": profile, "ops": [o for f in frags for o in f][:n]},
                     st.sampled_from(["tree", "flat"]), st.lists(_fragment(), min_size=n // 3, max_size=n))
  return strat


def shrink(case):
  """greedy simplifications: shorter histories first, then simpler starts and arguments"""
  ops = list(case["ops"])
  n = len(ops)

  def with_ops(o, **kw):
    c = dict(case, ops=o)
    c.update(kw)
    return c

  for k in (n // 2, (3 * n) // 4, n - 1):
    if 0 <= k < n:
      yield with_ops(ops[:k])
  for size in (8, 4, 2, 1):
    if size <= n:
      for i in range(n - size, -1, -size):
        yield with_ops(ops[:i] + ops[i + size:])
  if case.get("start") == "tree":
    yield with_ops(ops, start="flat")
    yield with_ops([tuple(o) for o in TREE_PRELUDE] + ops, start="flat")
  for i, o in enumerate(ops):
    o = tuple(o)
    if o[0] == "push_children":
      if o[3] == "generator":
        yield with_ops(ops[:i] + [(o[0], o[1], list(o[2]), "list")] + ops[i + 1:])
      for j in range(len(o[2])):
        yield with_ops(ops[:i] + [(o[0], o[1], list(o[2][:j]) + list(o[2][j + 1:]), o[3])] + ops[i + 1:])
    for j, a in enumerate(o):
      if isinstance(a, str) and a.startswith("d2.") and j > 0:
        b = "d1." + a[3:]
        yield with_ops(ops[:i] + [o[:j] + (b,) + o[j + 1:]] + ops[i + 1:])


# ------------------------------------------------------------------------------------------------ exhaustive sequences

def seq_chunks(tier, seed):
  depth = 2 if tier == "quick" else 3
  return [(start, i, depth) for start in ("flat", "tree") for i in range(len(ALPHABET))]


def seq_cases(chunk):
  start, i, depth = chunk
  for rest in itertools.product(ALPHABET, repeat=depth - 1):
    yield {"start": start, "profile": "all", "ops": [ALPHABET[i]] + list(rest)}


def value_chunks(tier, seed):
  return [(p,) for p in mu.PROPS]


def value_cases(chunk):
  """every (style property, universe value) pair through every call that stores a value: one-call histories on both start states"""
  prop = chunk[0]
  for vid in mu.VIDS:
    for start in ("flat", "tree"):
      for op in (("set_style", "d1.p1", prop, vid), ("set_style", "d1.rA", prop, vid), ("add_animation_step", "d1.span1", prop, vid, 0, 2),
                 ("add_animation_step", "d1.rB", prop, vid, None, 1), ("put_initial_value", "d1", prop, vid)):
        yield {"start": start, "profile": "all", "ops": [op]}


# ------------------------------------------------------------------------------------------------ self-test and summary

def selftest():
  """the walker must see each kind of damage (made by hand through private fields: this tests the oracle, not ttconv)"""
  import ttconv.style_properties as sp

  def fresh():
    u = mu.Universe()
    for o in TREE_PRELUDE:
      mu.perform(u, _norm(o))
    return u

  try:
    if mu.walk(fresh()):
      return     # ttconv cannot even build the fixture: the parts report that as a violation (bucket prelude:*)
  except Exception:  # pylint: disable=broad-except
    return

  def expect(u, clause, what):
    got = {c for c, _w, _t in mu.walk(u)}
    if not any(c.startswith(clause) for c in got):
      raise HarnessError("selftest: %s not detected (clauses reported: %r)" % (what, sorted(got)))

  # pylint: disable=protected-access
  u = fresh(); g = u.obj
  g["d1.body1"]._parent = g["d1.div2"]; g["d1.div2"]._first_child = g["d1.div2"]._last_child = g["d1.body1"]
  expect(u, "cycle", "a cycle")
  u = fresh(); g = u.obj
  g["d1.div1"]._last_child = g["d1.div2"]
  expect(u, "links", "a stale last_child")
  u = fresh(); g = u.obj
  g["d1.div2"]._first_child = g["d1.div2"]._last_child = g["d1.p1"]
  expect(u, "multi-parent", "an element with two parents")
  u = fresh(); g = u.obj
  g["d1.p1"]._doc = u.docs["d2"]
  expect(u, "mixed-document-tree", "a tree over two documents")
  u = fresh(); g = u.obj
  del u.docs["d1"]._regions["A"]
  expect(u, "dangling-region", "a dangling region reference")
  u = fresh(); g = u.obj
  u.docs["d1"]._regions["A"] = g["d1.rA2"]
  expect(u, "stale-region", "a reference to a replaced region")
  u = fresh(); g = u.obj
  g["d1.p1"]._region = g["d2.rA"]
  expect(u, "foreign-region", "a reference to another document's region")
  u = fresh(); g = u.obj
  g["d1.p1"]._styles[sp.StyleProperties.FontFamily] = ("Arial", 5)
  expect(u, "invalid-value-stored:FontFamily", "a bad font-family item")
  u = fresh(); g = u.obj
  g["d1.span1"]._first_child = g["d1.span1"]._last_child = None
  g["d1.text1"]._parent = g["d1.div2"]; g["d1.div2"]._first_child = g["d1.div2"]._last_child = g["d1.text1"]
  expect(u, "content-model", "a text node below a div")
  u = fresh(); g = u.obj
  g["d1.body1"]._doc = None
  expect(u, "document-tree", "a body that belongs to no document")
  # pylint: enable=protected-access
  if mu.rtc_state(["Rp"]) != "prefix" or mu.rtc_state(["Rp", "Rt", "Rp"]) != "legal" or mu.rtc_state(["Rt", "Rp"]) != "illegal" \
     or mu.rtc_state([]) != "legal" or mu.rtc_state(["Rp", "Rp", "Rt"]) != "illegal":
    raise HarnessError("selftest: rtc_state")
  for p in mu.PROPS:
    if not mu.VALID_VIDS[p] or not mu.INVALID_VIDS[p]:
      raise HarnessError("selftest: no valid or no invalid pool value for %s" % p)


def finish(ctx):
  lab = ctx.acc.labels
  calls = sum(v for k, v in lab.items() if k.startswith("call:"))
  acc = sum(v for k, v in lab.items() if k.startswith("call:") and k.endswith(":accepted"))
  ctx.extra["calls_accepted"] = acc
  ctx.extra["calls_rejected"] = calls - acc
  ctx.extra["argument_classes_seen"] = len({k.rsplit(":", 1)[0] for k in lab if k.startswith("call:")})
  ctx.extra["known_triggers_avoided_by_clean_profile"] = sorted(AVOID)
  # a vacuous run is a harness error - unless ttconv is so broken that violations were reported anyway
  if not ctx.violations and all(p in ctx.parts for p in PARTS):
    for need in ("nt:reattached-elsewhere", "nt:moved-to-other-document", "nt:region-removed-while-referenced",
                 "nt:region-replaced-while-referenced", "history:ran-to-end", "final-depth:4+", "calls-executed:10-39"):
      if not lab.get(need):
        raise HarnessError("class %r was never reached" % need)


PARTS = {
  "random": Part("random", check, strategy=_histories("all"), n=(2000, 32000), shrinker=shrink,
                 required_labels=("start:flat", "start:tree")),
  "random_clean": Part("random_clean", check, strategy=_histories("clean"), n=(2000, 32000), shrinker=shrink,
                       required_labels=("start:flat", "start:tree")),
  "exhaustive": Part("exhaustive", check, chunks=seq_chunks, cases=seq_cases, exhaustive=(True, True), shrinker=shrink),
  "values": Part("values", check, chunks=value_chunks, cases=value_cases, exhaustive=(True, True), shrinker=shrink),
}
