"""C01 - a snapshot at time t shows exactly the content TTML makes active at t."""
from collections import Counter

from hypothesis import strategies as st

from ttconv.isd import ISD

from vt import gen_model, obs, codec
from vt.ref_isd import Ref, nonspace
from vt.run import Part, HarnessError

ID = "C01"
LEVEL = "exploration"
RULE = ("Hypothesis DocSpecs (0-3 timed regions, nested body/div/p/span/br/ruby with rational begin/end on a coincidence-rich lattice, "
        "region references at any level, display styles and animations, xml:space) x probe times derived by the reference interpreter "
        "(every absolute begin/end, each +-eps, midpoints, 0, max+1, random rationals). evaluations = (document, time) snapshots; "
        "non-trivial = snapshot in which at least one text/br leaf is presented and at least one is pruned (by time, region or display); "
        "distinct by (document hash, t).")
ASSUMPTIONS = [
  "oracle: vt/ref_isd.py, an independent per-element reading of TTML2 11.3.1/12 (no ttconv code)",
  "containers that are presentable but have no presented leaf may be kept or pruned (not asserted)",
  "main profile builds ruby annotations untimed and non-blank (ttconv finding I-3 is exercised by the ruby_timed part)",
]

MAIN = gen_model.profile(br_styles=False, ruby_timed=False, style_density=(0, 2), max_nodes=40, text_unicode=True,
                         props=["Display", "Visibility", "Opacity", "Color", "BackgroundColor", "FontSize", "TextDecoration",
                                "ShowBackground", "WritingMode", "Extent", "Origin"])
RUBY_TIMED = gen_model.profile(ruby_timed=True, style_density=(0, 1), max_nodes=30, max_regions=2,
                               props=["Display", "Color"])
BR_STYLES = gen_model.profile(br_styles=True, ruby=False, style_density=(0, 2), max_nodes=25)


def cases(prof):
  def strat(tier):
    return st.builds(lambda spec, extra: {"spec": spec, "extra": extra}, gen_model.docspecs(prof),
                     st.lists(st.fractions(0, 12, max_denominator=997), max_size=2))
  return strat


def split_ruby(spec, picks):
  """ruby parts sent to different regions and given their own begin: the per-region document copies of the accelerated path then hold
  a ruby that has lost a part before any snapshot is taken (built on purpose, rare otherwise)"""
  if spec["body"] is None:
    return spec
  while len(spec["regions"]) < 2:
    spec["regions"].append(dict(kind="region", id="rs%d" % len(spec["regions"]), begin=None, end=None, region=None, styles={}, anims=[],
                                kids=[], space="default", lang=""))
  regs = [r["id"] for r in spec["regions"]]
  # everything flows into the first region, except the part of a ruby that is sent to the second one
  for n in gen_model.walk(spec["body"]):
    n["region"] = None
  spec["body"]["region"] = regs[0]
  k = 0
  for n in gen_model.walk(spec["body"]):
    if n["kind"] != "ruby" or k >= len(picks) or len(n["kids"]) < 2:
      continue
    which, begin, away = picks[k]
    k += 1
    base, annot = n["kids"][0], n["kids"][-1]
    (base if which else annot)["begin"] = begin
    (annot if away else base)["region"] = regs[1]
  return spec


def cases_split(prof):
  def strat(tier):
    pick = st.tuples(st.sampled_from([True, True, True, False]), st.sampled_from([gen_model.F(1), gen_model.F(3), gen_model.F(7)]),
                     st.sampled_from([True, True, True, False]))
    return st.builds(lambda spec, extra, picks: {"spec": split_ruby(spec, picks), "extra": extra}, gen_model.docspecs(prof),
                     st.lists(st.fractions(0, 12, max_denominator=997), max_size=2), st.lists(pick, min_size=3, max_size=4))
  return strat


def total_leaves(spec):
  n = 0
  if spec["body"] is not None:
    for node in gen_model.walk(spec["body"]):
      if node["kind"] == "br" or (node["kind"] == "text" and nonspace(node["text"])):
        n += 1
  return n


def check(case, res):
  spec = case["spec"]
  doc = gen_model.build(spec)
  ref = Ref(spec)
  times, boundary = ref.probe_times(case["extra"])
  total = total_leaves(spec)
  h = codec.chash(spec)
  res.evals = 0
  res.label("regions:%d" % min(len(spec["regions"]), 3))
  feats = set()
  for n in gen_model.all_nodes(spec):
    if n["kind"] == "ruby":
      feats.add("has-ruby")
    if n["anims"]:
      feats.add("has-animation")
    if n.get("region"):
      feats.add("has-region-ref")
    if "Display" in n["styles"] or any(a[0] == "Display" for a in n["anims"]):
      feats.add("has-display")
    if n["kind"] not in ("region", "text", "br") and n["begin"] is not None and n["end"] is not None and n["begin"] >= n["end"]:
      feats.add("has-inverted-interval")
  for n in gen_model.all_nodes(spec):
    if n["kind"] == "ruby" and n["kids"] and n["kids"][0]["kind"] == "rbc" and n["kids"][0]["begin"] is not None and \
        any(k["region"] is not None for k in n["kids"][1:]):
      feats.add("ruby-container-with-timed-base-and-annotation-in-another-region")
  res.label(*feats)
  sig = [None]
  # snapshots are random access: the probe times are visited in increasing order, in decreasing order or from both ends inwards (the
  # accelerated path reuses one SignificantTimes object for all of them)
  visit = list(times)
  k = len(visit) + sum(len(n["kids"]) for n in gen_model.all_nodes(spec))
  if k % 3 == 1:
    visit.reverse()
  elif k % 3 == 2:
    visit = [visit[-1 - i // 2] if i % 2 == 0 else visit[i // 2] for i in range(len(visit))]
  res.label("probe-order:%s" % ("increasing", "decreasing", "ends-inwards")[k % 3])
  for t in visit:
    res.evals += 1
    res.labels["probe:boundary" if t in boundary else "probe:between"] += 1
    snaps = ref.snapshot(t)
    try:
      isd = ISD.from_model(doc, t)
    except Exception as e:  # pylint: disable=broad-except
      res.crash(e)
      continue
    compare(spec, snaps, isd, res)
    # the same snapshot through the accelerated path must present the same content (regions without content may be absent)
    try:
      if sig[0] is None:
        sig[0] = ISD.significant_times(doc)
      isd_c = ISD.from_model(doc, t, sig[0])
    except Exception as e:  # pylint: disable=broad-except
      res.crash(e, "cached:")
      continue
    before = len(res.fails)
    compare(spec, snaps, isd_c, res)
    res.fails[before:] = [("cached:" + b, d) for b, d in res.fails[before:]]
    presented = sum(len([l for l in sn.leaves if l.kind == "br" or nonspace(l.text)]) for sn in snaps)
    if 0 < presented < total:
      res.nt_keys.append("%s@%s" % (h, t))
  if res.evals == 0:
    raise HarnessError("no probe times")


def compare(spec, snaps, isd, res):
  regions = obs.observe(isd)
  obs.compare_presence(snaps, regions, res, default_region=not spec["regions"])
  if not spec["regions"]:
    ids = [r.id for r in regions]
    if ids not in ([], ["default_region"]):
      res.fail("presence:default-region-id", ids)


def finish(ctx):
  lab = ctx.acc.labels
  b, o = lab.get("probe:boundary", 0), lab.get("probe:between", 0)
  ctx.extra["boundary_probe_fraction"] = round(b / max(1, b + o), 3)
  ctx.extra["probe_times_total"] = b + o
  if b + o and b / (b + o) < 0.2:
    raise HarnessError("boundary probes are only %.1f%% of evaluations" % (100 * b / (b + o)))


SHRINK = gen_model.case_simplifications("spec")

PARTS = {
  "main": Part("main", check, strategy=cases(MAIN), n=(480, 64000), shrinker=SHRINK,
               required_labels=("has-ruby", "has-animation", "has-region-ref", "has-display", "has-inverted-interval",
                                "regions:0", "regions:1", "regions:3")),
  "ruby_timed": Part("ruby_timed", check, strategy=cases(RUBY_TIMED), n=(160, 8000), required_labels=("has-ruby",), shrinker=SHRINK),
  "ruby_split": Part("ruby_split", check, strategy=cases_split(RUBY_TIMED), n=(480, 16000), shrinker=SHRINK,
                     required_labels=("has-ruby", "ruby-container-with-timed-base-and-annotation-in-another-region")),
  "br_styles": Part("br_styles", check, strategy=cases(BR_STYLES), n=(160, 8000), shrinker=SHRINK),
}
