"""C11 - the WebVTT reader reproduces cues, inline markup and cue-setting geometry.

Cases are structured file descriptions from vt/gen_vtt.py; the text given to `ttconv.vtt.reader.to_model` is printed from the
description and the expectation is computed from the same description (never by parsing the text again).  The model is
observed through its getters only.
"""
import io
from fractions import Fraction

import ttconv.model as model
import ttconv.style_properties as styles
from ttconv.vtt.reader import to_model

from vt import gen_vtt as G
from vt.run import Part, HarnessError, crash_bucket

ID = "C11"
LEVEL = "exploration"
RULE = ("Hypothesis-generated structured WebVTT files (vt/gen_vtt.py): header with optional text/BOM, NOTE blocks anywhere and STYLE/REGION blocks "
        "before the first cue, 1-4 cues (6 in the line-number part) with optional identifiers, non-decreasing start times printed with "
        "and without hours, cue settings over the values {0,1,10,25,50,75,90,100} in any order, shared between cues of a file, and payloads "
        "of 1-4 lines from the cue-text grammar (b i u c.class lang v ruby/rt nested to depth 3, character references, inline timestamps, "
        "tags spanning lines) with unique word tokens. Part main avoids by construction the shapes that hit the reader defects found "
        "so far; each of those shapes has its own small part (timestamps, ruby_nested, ruby_markup, ruby_loose, entities, geometry, "
        "line_numbers, fractional, empty_payload, odd_ids). A case is non-trivial when the file has >= 2 cues, a cue with >= 2 cue "
        "settings and a tag nested in another tag; distinct by case hash.")
ASSUMPTIONS = [
  "line terminators are LF only and the text is handed over as io.StringIO: CR LF / CR translation is the caller's text layer (universal newlines), not the reader",
  "cue text contains no right-to-left characters (&rlm; and RTL letters are not generated), so left/right resolve to start/end and position alignment auto follows align with a left-to-right base direction",
  "a colour class is asserted only on <c> and only with at most one foreground and one bg_ class per tag (the order of equal-specificity ::cue(.x) rules is a style-sheet matter); colour classes on b/i/u/v/lang/ruby are not generated",
  "text without a bg_ class may carry no background or the WebVTT default rgba(0,0,0,0.8); nothing else is asserted about default styles (font, colour, line padding) of the regions",
  "geometry is a validity predicate plus anchoring, not the WebVTT layout algorithm: overlap avoidance and the size of a rendered line are not modelled; without a line setting only displayAlign=after and the validity of the region are asserted (the reader's 1/23 x 1/40 safe margin is accepted)",
  "line:N% in vertical:rl accepts both readings (distance from the left edge as in 7.2 'x-position = computed line', or from the right, block-start, edge)",
  "line numbers: displayAlign is asserted only for n >= 0 without an explicit line alignment (before); with a line alignment or n < 0 only validity and the ordering are asserted (snap-to-lines positioning ignores the line alignment; before and after anchoring are both defensible for n < 0). Ordering of line numbers assumes more than 10 rows/columns: anchored edges of |n| <= 10 are strictly ordered",
  "size / position given explicitly: inline extent = min(size, WebVTT maximum size) and the edge selected by the (computed) position alignment sits at position (auto position 0/50/100 by align); nothing is asserted on the inline axis when neither is given",
  "voice annotations, class names other than the eight colours and identifiers have no counterpart in the model and are only required not to disturb the text",
  "not generated (legal but left out): timestamps inside ruby, region: cue settings, the header line followed by further header lines, missing space around -->",
  "span ends are not asserted (a timestamp span needs no end); the P elements are taken in document order whatever div structure holds them",
  "ruby: the n-th <rt> annotates the n-th base; a base without <rt> is generated only in last position",
  "writer_roundtrip: what was written is what the strict parser vt/cueparse.py reads from the writer's string; lines without visible characters and line-edge spaces are ignored; background rgba(0,0,0,204) / transparent count as no background",
]

SP = styles.StyleProperties
EPS = 1e-6
HALF_MS = Fraction(1, 2000)
DEFAULT_BG = (0, 0, 0, 204)


def selftest():
  G.selftest()
  # the observer, on a model built by hand (not by the reader)
  doc = model.ContentDocument()
  p = model.P(doc)
  p.set_begin(Fraction(3, 2))
  s1 = model.Span(doc)
  s1.set_style(SP.FontWeight, styles.FontWeightType.bold)
  s1.set_style(SP.BackgroundColor, styles.NamedColors.blue.value)
  s1.push_child(model.Text(doc, "ab"))
  s2 = model.Span(doc)
  s2.set_begin(Fraction(1, 2))
  s2.set_lang("ja")
  s2.set_style(SP.Color, styles.NamedColors.red.value)
  s3 = model.Span(doc)
  s3.set_begin(Fraction(1, 4))
  s3.set_lang("ja")
  s3.set_style(SP.TextDecoration, styles.TextDecorationType(underline=True))
  s3.push_child(model.Text(doc, "c"))
  s2.push_child(s3)
  s1.push_child(s2)
  p.push_child(s1)
  p.push_child(model.Br(doc))
  ruby, rbc, rtc = model.Ruby(doc), model.Rbc(doc), model.Rtc(doc)
  for cont, cls, txt in ((rbc, model.Rb, "d"), (rtc, model.Rt, "e"), (rbc, model.Rb, "f"), (rtc, model.Rt, "g")):
    x, sp = cls(doc), model.Span(doc)
    sp.push_child(model.Text(doc, txt))
    x.push_child(sp)
    cont.push_child(x)
  ruby.push_children([rbc, rtc])
  p.push_child(ruby)
  o = observe_p(p)
  want = "ab" + "c" + "\n" + "df"
  if text_of(o["stream"]) != want:
    raise HarnessError("observer self-test: text %r" % text_of(o["stream"]))
  a, c, d = o["stream"][0][1], o["stream"][2][1], o["stream"][5][1]
  ok = (a["b"] and a["bg"] == (0, 0, 255, 255) and a["fg"] is None and a["begin"] == Fraction(3, 2) and a["lang"] is None and not a["u"]
        and c["b"] and c["u"] and c["fg"] == (255, 0, 0, 255) and c["lang"] == "ja" and c["begin"] == Fraction(9, 4) and c["bg"] == (0, 0, 255, 255)
        and o["stream"][3] == ["\n", None] and d["role"] == ["rb", 0, 1] and not d["b"]
        and [[text_of(x) for x in o["rubies"][0][k]] for k in ("rb", "rt")] == [["d", "f"], ["e", "g"]] and not o["notes"])
  if not ok:
    raise HarnessError("observer self-test: attributes %r" % (o,))


# ------------------------------------------------------------------------------------------------ observation (getters only)

def _upd(e, st_):
  s2 = dict(st_)
  if e.get_style(SP.FontWeight) == styles.FontWeightType.bold:
    s2["b"] = True
  elif e.get_style(SP.FontWeight) is not None:
    s2["b"] = False
  if e.get_style(SP.FontStyle) == styles.FontStyleType.italic:
    s2["i"] = True
  elif e.get_style(SP.FontStyle) is not None:
    s2["i"] = False
  td = e.get_style(SP.TextDecoration)
  if td is not None and getattr(td, "underline", None) is not None:
    s2["u"] = bool(td.underline)
  c = e.get_style(SP.Color)
  if c is not None:
    s2["fg"] = tuple(c.components)
  c = e.get_style(SP.BackgroundColor)
  if c is not None:
    s2["bg"] = tuple(c.components)
  # the language of an element of the model is its own (the IMSC writer writes xml:lang="" for an element without one inside an
  # element that has one): text enclosed by <lang> must sit in elements that carry the language themselves
  s2["lang"] = e.get_lang() or None
  return s2


def observe_p(p):
  """per-character stream of a paragraph: [ch, attrs] with attrs = b,i,u,fg,bg,lang,role,begin (absolute), float"""
  out = {"stream": [], "rubies": [], "notes": []}

  def emit(ch, st_, t, fl):
    a = None if ch == "\n" else {"b": st_["b"], "i": st_["i"], "u": st_["u"], "fg": st_["fg"], "bg": st_["bg"], "lang": st_["lang"],
                                 "role": st_["role"], "begin": t, "float": fl}
    r = st_["role"]
    if r is None or r[0] == "rb":
      out["stream"].append([ch, a])
    if r is not None:
      out["rubies"][r[1]][r[0]][r[2]].append([ch, a])

  def rec(e, st_, t, fl, rk):
    for c in e:
      if isinstance(c, model.Text):
        for ch in c.get_text():
          emit(ch, st_, t, fl)
        continue
      if isinstance(c, model.Br):
        emit("\n", st_, t, fl)
        continue
      s2 = _upd(c, st_)
      t2, fl2 = t, fl
      b = c.get_begin()
      if b is not None:
        fl2 = fl or isinstance(b, float)
        if isinstance(b, float):
          out["notes"].append("float-span-begin")
        t2 = t + Fraction(b)
      rk2 = rk
      if isinstance(c, model.Ruby):
        rk2 = len(out["rubies"])
        out["rubies"].append({"rb": [], "rt": []})
      elif isinstance(c, (model.Rb, model.Rt)) and rk is not None:
        kind = "rb" if isinstance(c, model.Rb) else "rt"
        out["rubies"][rk][kind].append([])
        s2["role"] = [kind, rk, len(out["rubies"][rk][kind]) - 1]
      elif isinstance(c, model.Rp):
        continue
      rec(c, s2, t2, fl2, rk2)

  st0 = {"b": False, "i": False, "u": False, "fg": None, "bg": None, "lang": None, "role": None}
  b = p.get_begin()
  rec(p, st0, Fraction(b) if b is not None else Fraction(0), isinstance(b, float), None)
  return out


def text_of(stream):
  return "".join(ch for ch, _ in stream)


# ------------------------------------------------------------------------------------------------ clauses

def time_clause(res, what, got, want):
  """exact rational (type and value); a float is reported once under its own bucket and then compared to the half millisecond"""
  if got is None:
    res.fail("time-missing:" + what, "expected %s" % want)
    return
  if isinstance(got, float):
    res.fail("time-type:float", "%s is the float %r, expected the rational %s" % (what, got, want))
    if abs(Fraction(got) - want) >= HALF_MS:
      res.fail("time-value:" + what, "got %r expected %s" % (got, want))
  elif isinstance(got, bool) or not isinstance(got, (int, Fraction)):
    res.fail("time-type:" + type(got).__name__, "%s is %r" % (what, got))
  elif got != want:
    res.fail("time-value:" + what, "got %r expected %s" % (got, want))


def text_feature(feats):
  if "annotation-entity" in feats:
    return ":character-reference-in-annotation"
  if "entity-semicolon-only" in feats:
    return ":character-reference-without-legacy-form"
  if "ruby-rt-unclosed" in feats:
    return ":ruby-rt-end-tag-omitted"
  return ""


def crash_feature(feats):
  """input feature appended to a crash bucket (the generator's dedicated parts switch these on one at a time)"""
  for f, name in (("annotation-entity", "character-reference-in-annotation"), ("empty-payload", "cue-without-payload"),
                  ("ruby-inside-tag", "ruby-inside-tag"), ("ruby-structured-content", "markup-inside-ruby"),
                  ("ruby-rt-unclosed", "ruby-rt-end-tag-omitted")):
    if f in feats:
      return ":" + name
  return ""


def colour_ok(kind, want, got):
  if want is not None:
    return got == G.COLOURS[want]
  if kind == "bg":
    return got is None or got == DEFAULT_BG
  return got is None


def compare_stream(res, ci, exp, obs, cue_begin, feats, nts, where, loose_roles=False):
  """attribute clauses for two character streams with identical text; loose_roles: a ruby of the cue has a base or annotation
  without text, which may or may not be materialised, so only the kind (base / annotation) and the ruby are compared"""
  done = set()
  for k, ((ch, ea), (_, oa)) in enumerate(zip(exp, obs)):
    if ea is None:
      continue
    leak = ea["leak"]
    if loose_roles and ea["role"] is not None and oa["role"] is not None:
      ea, oa = dict(ea, role=ea["role"][:2]), dict(oa, role=oa["role"][:2])
    for key, name in (("b", "bold"), ("i", "italic"), ("u", "underline"), ("lang", "lang"), ("role", "ruby-role")):
      if ea[key] != oa[key] and name not in done:
        done.add(name)
        res.fail("markup-scope:text-after-end-tag-following-timestamp" if leak else "markup:" + name + where + (text_feature(feats) if key == "role" else ""),
                 "cue %d char %d %r: %s expected %r got %r" % (ci, k, ch, name, ea[key], oa[key]))
    for key, name in (("fg", "colour-class"), ("bg", "background-class")):
      if not colour_ok(key, ea[key], oa[key]) and name not in done:
        done.add(name)
        res.fail("markup-scope:text-after-end-tag-following-timestamp" if leak else "markup:" + name + where,
                 "cue %d char %d %r: %s expected %r got %r" % (ci, k, ch, name, ea[key], oa[key]))
    want = cue_begin if ea["ts"] is None else G.ms_to_fraction(ea["ts"])
    got = oa["begin"]
    bad = abs(got - want) >= HALF_MS if oa["float"] else got != want
    if bad and "begin" not in done:
      done.add("begin")
      if leak:
        b = "ts-begin:text-after-end-tag-following-timestamp"
      elif ea["tsn"] >= 3 or (ea["tsn"] == 2 and cue_begin != 0):
        # the timestamp follows an earlier timestamp whose span has a non-zero relative or inherited begin
        b = "ts-begin:chained-timestamps"
      elif ea["tsn"] == 0:
        b = "ts-begin:text-before-first-timestamp"
      else:
        b = "ts-begin" + where
      res.fail(b, "cue %d (begin %s, %d timestamps) char %d %r: absolute begin expected %s got %s" % (ci, cue_begin, nts, k, ch, want, float(got)))


def block_feature(g):
  """input feature that names the failure bucket of a block-axis clause: the first root-cause class that applies"""
  line, v = g["line"], g["vertical"]
  if line is None:
    return "no-line"
  align = line["edge"] if line["kind"] == "pct" else line["align"]
  if v == "rl":
    return "line-in-vertical-rl"
  if v == "lr" and align == "center":
    return "line-center-in-vertical"
  if line["kind"] == "num":
    return "line-number-nonpositive" if line["n"] <= 0 else "line-number-large" if line["n"] > 15 else "line-number"
  return "fractional-percentage" if line["P"].denominator != 1 else "line-percentage"


def inline_feature(g):
  i = g["inline"]
  if i is None:
    return "no-position-no-size"
  if not i["explicit_pos"]:
    return "size-without-position"
  if i["size"] is None:
    return "position-without-size"
  if i["size"] > i["max"]:
    return "size-above-maximum"
  if i["P"].denominator != 1 or i["size"].denominator != 1:
    return "fractional-percentage"
  return "position+size"


def region_numbers(r):
  o = r.get_style(SP.Origin)
  e = r.get_style(SP.Extent)
  if o is None or e is None:
    return None, "origin/extent missing"
  ls = (o.x, o.y, e.width, e.height)
  if any(l.units != styles.LengthType.Units.pct for l in ls):
    return None, "units %r" % ([l.units for l in ls],)
  return tuple(float(l.value) for l in ls), None


DA_NAME = {styles.DisplayAlignType.before: "before", styles.DisplayAlignType.center: "center", styles.DisplayAlignType.after: "after"}
TA_NAME = {styles.TextAlignType.start: "start", styles.TextAlignType.center: "center", styles.TextAlignType.end: "end"}
WM_NAME = {styles.WritingModeType.lrtb: "lrtb", styles.WritingModeType.rltb: "rltb", styles.WritingModeType.tbrl: "tbrl",
           styles.WritingModeType.tblr: "tblr"}


def geometry_clause(res, ci, g, r):
  """returns facts about the region used by the ladder / sharing clauses, or None"""
  n0 = len(res.fails)
  wm = WM_NAME.get(r.get_style(SP.WritingMode), str(r.get_style(SP.WritingMode)))
  if wm != g["wm"]:
    res.fail("writing-mode", "cue %d vertical=%s: writingMode %s expected %s" % (ci, g["vertical"], wm, g["wm"]))
  ta = TA_NAME.get(r.get_style(SP.TextAlign), str(r.get_style(SP.TextAlign)))
  if ta != g["ta"]:
    res.fail("text-align", "cue %d: textAlign %s expected %s" % (ci, ta, g["ta"]))
  da = DA_NAME.get(r.get_style(SP.DisplayAlign), str(r.get_style(SP.DisplayAlign)))
  nums, err = region_numbers(r)
  if nums is None:
    res.fail("geom-units", "cue %d: %s" % (ci, err))
    return None
  x, y, w, h = nums
  bf, inf = block_feature(g), inline_feature(g)
  horizontal = g["vertical"] is None
  blk = (y, h) if horizontal else (x, w)
  inl = (x, w) if horizontal else (y, h)
  desc = "cue %d region %s origin=(%.6g,%.6g) extent=(%.6g,%.6g) displayAlign=%s" % (ci, r.get_id(), x, y, w, h, da)

  def inside(o, e):
    return o >= -EPS and e >= -EPS and o + e <= 100 + EPS

  if not inside(*blk):
    res.fail("geom-inside:" + bf, desc + ": block axis [%.6g, %.6g] is not inside [0,100] with extent >= 0" % (blk[0], blk[0] + blk[1]))
  if not inside(*inl):
    res.fail("geom-inside:" + inf, desc + ": inline axis [%.6g, %.6g] is not inside [0,100] with extent >= 0" % (inl[0], inl[0] + inl[1]))

  # --- block axis: displayAlign and the anchored edge
  lo, hi = blk[0], blk[0] + blk[1]
  rl = g["vertical"] == "rl"
  # physical edge (lo = top/left, hi = bottom/right) at which displayAlign anchors the text
  phys = {"before": "hi" if rl else "lo", "after": "lo" if rl else "hi", "center": "mid"}.get(da)
  coord = {"lo": lo, "hi": hi, "mid": (lo + hi) / 2}.get(phys)
  facts = {"da": da, "dist_start": None}
  if coord is not None:
    facts["dist_start"] = (100 - coord) if rl else coord       # distance of the anchored edge from the block-start side
  line = g["line"]
  if phys is None:
    res.fail("display-align:" + bf, desc + ": displayAlign missing")
  elif line is None:
    if da != "after":
      res.fail("display-align:" + bf, desc + ": no line setting (line auto = last line) expects displayAlign after")
  elif line["kind"] == "pct":
    P = float(line["P"])
    want_phys = {"start": "lo", "center": "mid", "end": "hi"}[line["edge"]]
    readings = [(want_phys, P)]
    if rl:
      readings.append(({"lo": "hi", "hi": "lo", "mid": "mid"}[want_phys], 100 - P))
    if not any(phys == k for k, _ in readings):
      res.fail("display-align:" + bf, desc + ": line:%s%%,%s anchors the %s edge, displayAlign %s anchors %s" % (
        line["P"], line["edge"], " or ".join(k for k, _ in readings), da, phys))
    elif not any(phys == k and abs(coord - c) <= EPS for k, c in readings):
      res.fail("line-anchor:" + bf, desc + ": line:%s%%,%s expects the %s edge at %s, it is at %.6g" % (
        line["P"], line["edge"], phys, " or ".join("%.6g" % c for k, c in readings if k == phys), coord))
  else:
    n = line["n"]
    if n >= 0 and line["align"] is None:
      if da != "before":
        res.fail("display-align:" + bf, desc + ": line:%d expects displayAlign before" % n)
      elif n == 0 and abs(facts["dist_start"]) > EPS:
        res.fail("line-anchor:" + bf, desc + ": line:0 is the first line, before edge expected at the block-start edge, distance is %.6g" % facts["dist_start"])

  # --- inline axis
  i = g["inline"]
  if i is not None:
    a = {"line-left": inl[0], "center": inl[0] + inl[1] / 2, "line-right": inl[0] + inl[1]}[i["anchor"]]
    if abs(a - float(i["P"])) > EPS:
      res.fail("inline-anchor:" + inf, desc + ": the %s edge of the cue box is expected at %s%% of the inline axis, region has it at %.6g" % (
        i["anchor"], i["P"], a))
    if i["extent"] is not None and abs(inl[1] - float(i["extent"])) > EPS:
      res.fail("inline-extent:" + inf, desc + ": size %s%% (maximum size %s%%) expects inline extent %s, region has %.6g" % (
        i["size"], i["max"], i["extent"], inl[1]))
  facts["clean"] = len(res.fails) == n0
  return facts


def ladder_clause(res, items):
  """line numbers: monotone in n on each side; non-negative counted from the block-start edge, negative from the end"""
  for a in range(len(items)):
    for b in range(len(items)):
      (c1, g1, f1), (c2, g2, f2) = items[a], items[b]
      l1, l2 = g1["line"], g2["line"]
      if g1["vertical"] != g2["vertical"] or l1["align"] or l2["align"] or f1["dist_start"] is None or f2["dist_start"] is None:
        continue
      n1, n2 = l1["n"], l2["n"]
      if not n1 < n2 or max(abs(n1), abs(n2)) > 10:
        continue
      d1, d2 = f1["dist_start"], f2["dist_start"]
      feat = "line-in-vertical-rl" if g1["vertical"] == "rl" else "line-number-nonpositive" if n1 <= 0 else "line-number"
      what = "cues %d,%d (vertical=%s): line:%d anchored at %.6g from the block-start edge, line:%d at %.6g" % (c1, c2, g1["vertical"], n1, d1, n2, d2)
      if (n1 >= 0) == (n2 >= 0):
        if not d1 < d2 - EPS:
          res.fail("line-number-order:" + feat, what + ("" if n1 >= 0 else " (-1 is the last line)"))
      elif n2 == 0:
        # n1 < 0 = n2: the first line is nearer to the block-start edge than any of the last ten lines
        if not d2 < d1 - EPS:
          res.fail("line-number-order:" + feat, what + " (0 is the first line, negative numbers count from the end)")


# ------------------------------------------------------------------------------------------------ the check

def labels_of(case, res, cues, feats_all):
  res.label("cues:%d" % len(cues))
  if case["bom"]:
    res.label("file:bom")
  if case["header"]:
    res.label("file:header-text")
  if case["final"] == 0:
    res.label("file:no-final-newline")
  for b in case["blocks"]:
    if b["k"] != "cue":
      res.label("block:" + b["k"])
  depth = 0
  for b, f in zip(cues, feats_all):
    if b["id"] is not None:
      res.label("cue:identifier")
    res.label("cue:hours-printed" if (b["hb"] or b["begin"] >= 3600000) else "cue:hours-omitted")
    ns = len(b["settings"])
    res.label("settings:%d" % ns)
    for n, v in b["settings"].items():
      res.label("setting:" + n)
      if n == "line":
        res.label("line:pct" if v["pct"] is not None else ("line:zero" if v["num"] == 0 else "line:negative" if v["num"] < 0 else "line:positive"))
    d = G.depth_of(b["nodes"])
    depth = max(depth, d)
    res.label("cue:depth-%d" % d)
    nl = G.render_nodes(b["nodes"]).count("\n") + 1 if b["nodes"] else 0
    res.label("cue:lines-%d" % nl)
    nts = sum(1 for n in G.walk_nodes(b["nodes"]) if n["t"] == "ts")
    res.label("cue:timestamps-%d" % nts)
    for x in sorted(f):
      res.label("cue:" + x)
  if len(cues) >= 2 and any(len(b["settings"]) >= 2 for b in cues) and depth >= 2:
    res.nontrivial = True


def check(case, res):
  G.validate(case)
  text = G.render(case)
  exp = G.expected(case)
  cues = [b for b in case["blocks"] if b["k"] == "cue"]
  feats_all = [G.cue_features(b) for b in cues]
  labels_of(case, res, cues, feats_all)
  try:
    doc = to_model(io.StringIO(text))
  except Exception as e:  # pylint: disable=broad-except
    bucket, harness = crash_bucket(e)
    if harness:
      raise
    res.fail(bucket + crash_feature(set().union(*feats_all)), "%s: %s" % (type(e).__name__, e))
    return
  body = doc.get_body()
  ps = [e for e in body.dfs_iterator() if isinstance(e, model.P)] if body is not None else []
  if len(ps) != len(cues):
    any_f = set().union(*feats_all)
    if "empty-payload" in any_f:
      f = ":cue-without-payload"
    elif any(b["id"] is not None and (b["id"].startswith("NOTE ") or b["id"].startswith("STYLE")) for b in cues):
      f = ":identifier-beginning-like-a-block-keyword"
    else:
      f = ""
    res.fail("cue-count" + f, "%d cues in the file, %d paragraphs in the model" % (len(cues), len(ps)))
    return
  regions = []
  ladder = []
  for ci, (b, e, p, feats) in enumerate(zip(cues, exp, ps, feats_all)):
    time_clause(res, "begin", p.get_begin(), e["begin"])
    time_clause(res, "end", p.get_end(), e["end"])
    obs = observe_p(p)
    if "float-span-begin" in obs["notes"]:
      res.fail("time-type:float", "cue %d: a span begin is a float" % ci)
    et, ot = text_of(e["stream"]), text_of(obs["stream"])
    loose = any(not text_of(x) for r in e["rubies"] for x in r["rb"] + [y for y, h in zip(r["rt"], r["has_rt"]) if h])
    if et != ot:
      res.fail(("text" if et.count("\n") == ot.count("\n") else "lines") + text_feature(feats), "cue %d: lines expected %r got %r" % (ci, et.split("\n"), ot.split("\n")))
    else:
      compare_stream(res, ci, e["stream"], obs["stream"], e["begin"], feats, e["nts"], "", loose)
    # ruby: n-th annotation belongs to the n-th base
    ex_r = [[[text_of(s) for s in r["rb"]], [text_of(s) for s, h in zip(r["rt"], r["has_rt"]) if h]] for r in e["rubies"]]
    ob_r = [[[text_of(s) for s in r["rb"]], [text_of(s) for s in r["rt"]]] for r in obs["rubies"]]
    if loose:
      # a base or annotation without any text may be represented by an empty element or by none
      res.label("cue:ruby-empty-component")
      ex_r = [[[t for t in l if t] for l in r] for r in ex_r]
      ob_r = [[[t for t in l if t] for l in r] for r in ob_r]
    if ex_r != ob_r:
      res.fail("ruby-pairs" + text_feature(feats), "cue %d: [bases, annotations] per ruby expected %r got %r" % (ci, ex_r, ob_r))
    elif et == ot:
      for r_e, r_o in zip(e["rubies"], obs["rubies"]):
        for s_e, s_o in zip([s for s, h in zip(r_e["rt"], r_e["has_rt"]) if h], r_o["rt"]):
          compare_stream(res, ci, s_e, s_o, e["begin"], feats, e["nts"], ":annotation", loose)
    # geometry
    r = p.get_region()
    if r is None:
      res.fail("region-missing", "cue %d has no region" % ci)
      regions.append(None)
      continue
    facts = geometry_clause(res, ci, e["geom"], r)
    regions.append((r, e, facts))
    if facts is not None and e["geom"]["line"] is not None and e["geom"]["line"]["kind"] == "num":
      ladder.append((ci, e["geom"], facts))
  ladder_clause(res, ladder)
  # region sharing
  shared = False
  for a in range(len(regions)):
    for b in range(a + 1, len(regions)):
      if regions[a] is None or regions[b] is None:
        continue
      (r1, e1, f1), (r2, e2, f2) = regions[a], regions[b]
      if e1["key"] == e2["key"]:
        shared = True
        if r1 is not r2:
          res.fail("region-sharing:equal-settings", "cues %d and %d have the settings %r but the regions %s and %s" % (a, b, e1["key"], r1.get_id(), r2.get_id()))
      # cues with different geometry: a shared region would have to satisfy both expectations, which the per-cue clauses decide
  if shared:
    res.label("file:cues-sharing-settings")
  if len(set(id(x[0]) for x in regions if x)) >= 2:
    res.label("file:several-regions")


def finish(ctx):
  lab = ctx.acc.labels
  n = max(1, sum(v for k, v in lab.items() if k.startswith("cues:")))
  ncues = max(1, sum(v for k, v in lab.items() if k.startswith("settings:")))
  ctx.extra["files"] = n
  ctx.extra["cues"] = ncues
  ctx.extra["fraction_of_cues"] = {
    "with >= 2 settings": round(sum(v for k, v in lab.items() if k.startswith("settings:") and int(k[9:]) >= 2) / ncues, 3),
    "nested tags (depth >= 2)": round(sum(v for k, v in lab.items() if k.startswith("cue:depth-") and int(k[10:]) >= 2) / ncues, 3),
    "ruby": round(lab.get("cue:ruby", 0) / ncues, 3),
    "inline timestamps": round(lab.get("cue:timestamp", 0) / ncues, 3),
    "character references": round(lab.get("cue:entity", 0) / ncues, 3),
    "multi-line": round(sum(v for k, v in lab.items() if k.startswith("cue:lines-") and int(k[10:]) >= 2) / ncues, 3),
  }
  if "main" in ctx.parts and ctx.parts["main"]["distinct_nontrivial"] < ctx.parts["main"]["evaluations"] * 0.05:
    raise HarnessError("main: only %d of %d files are non-trivial" % (ctx.parts["main"]["distinct_nontrivial"], ctx.parts["main"]["evaluations"]))


def cases(prof):
  return lambda tier: G.descs(prof)


SHRINK = G.simplifications

MAIN = G.profile()
TIMESTAMPS = G.profile(ts="full", ruby="none", geometry="none")
RUBY_NESTED = G.profile(ruby="nested", ts="none", geometry="none")
RUBY_MARKUP = G.profile(ruby="structured", ts="none", geometry="none")
RUBY_LOOSE = G.profile(ruby="loose", ts="none", geometry="none")
ENTITIES = G.profile(entities="all", annot_entities=True, geometry="none", ts="none")
GEOMETRY = G.profile(geometry="all", ts="none", ruby="none", depth=1)
NUMBERS = G.profile(geometry="numbers", ts="none", ruby="none", depth=1, max_cues=6)
FRACTIONAL = G.profile(geometry="fractional", ts="none", ruby="none", depth=1)
EMPTY_PAYLOAD = G.profile(empty_payload=True, geometry="none", ts="none", ruby="none", depth=1)
ODD_IDS = G.profile(odd_ids=True, geometry="none", ts="none", ruby="none", depth=1)
WS_LINES = G.profile(ws_lines=True, geometry="none", ts="none", ruby="none", depth=1)

PARTS = {
  "main": Part("main", check, strategy=cases(MAIN), n=(1600, 80000), shrinker=SHRINK,
               required_labels=("block:note", "block:style", "block:region", "cue:identifier", "cue:hours-omitted", "cue:hours-printed",
                                "setting:vertical", "setting:line", "setting:position", "setting:size", "setting:align", "line:pct",
                                "line:positive", "cue:depth-3", "cue:ruby", "cue:timestamp", "cue:entity", "cue:lines-4",
                                "file:cues-sharing-settings", "file:several-regions", "cue:tag:b", "cue:tag:i", "cue:tag:u", "cue:tag:c",
                                "cue:tag:lang", "cue:tag:v")),
  "timestamps": Part("timestamps", check, strategy=cases(TIMESTAMPS), n=(160, 16000), shrinker=SHRINK, required_labels=("cue:timestamps-3",)),
  "ruby_nested": Part("ruby_nested", check, strategy=cases(RUBY_NESTED), n=(80, 8000), shrinker=SHRINK, required_labels=("cue:ruby-inside-tag",)),
  "ruby_markup": Part("ruby_markup", check, strategy=cases(RUBY_MARKUP), n=(80, 8000), shrinker=SHRINK, required_labels=("cue:ruby-structured-content",)),
  "ruby_loose": Part("ruby_loose", check, strategy=cases(RUBY_LOOSE), n=(80, 8000), shrinker=SHRINK,
                     required_labels=("cue:ruby-rt-unclosed", "cue:ruby-base-without-rt")),
  "entities": Part("entities", check, strategy=cases(ENTITIES), n=(160, 16000), shrinker=SHRINK,
                   required_labels=("cue:annotation-entity", "cue:entity-semicolon-only")),
  "geometry": Part("geometry", check, strategy=cases(GEOMETRY), n=(320, 32000), shrinker=SHRINK,
                   required_labels=("line:zero", "line:negative", "settings:5")),
  "line_numbers": Part("line_numbers", check, strategy=cases(NUMBERS), n=(160, 16000), shrinker=SHRINK,
                       required_labels=("line:zero", "line:negative", "line:positive")),
  "fractional": Part("fractional", check, strategy=cases(FRACTIONAL), n=(80, 8000), shrinker=SHRINK),
  "empty_payload": Part("empty_payload", check, strategy=cases(EMPTY_PAYLOAD), n=(80, 8000), shrinker=SHRINK, required_labels=("cue:empty-payload",)),
  "ws_lines": Part("ws_lines", check, strategy=cases(WS_LINES), n=(160, 8000), shrinker=SHRINK, required_labels=("cue:white-space-only-line",)),
  "odd_ids": Part("odd_ids", check, strategy=cases(ODD_IDS), n=(80, 8000), shrinker=SHRINK, required_labels=("cue:identifier-like-block-keyword",)),
}

def check_roundtrip(case, res):
  """reading the WebVTT writer's own output returns the cues that were written: the writer's string is read by the strict parser of
  vt/cueparse.py (what was written) and by the WebVTT reader (what is returned); times, lines and per-character styles must agree"""
  import io
  from vt import gen_model as _gm, cueparse as _cp
  from vt.props import c06 as _c06
  import ttconv.vtt.writer as _w
  import ttconv.vtt.reader as _r
  doc = _gm.build(case["spec"])
  try:
    out = _w.from_model(doc, _c06.vtt_cfg(case["cfg"]))
    cues, css = _cp.parse_vtt(out)
  except Exception:  # pylint: disable=broad-except
    res.label("writer-output-unusable")          # whether the writer may fail or write bad grammar is C07's business
    return
  res.label("cfg:" + case["cfg"])
  try:
    doc2 = _r.to_model(io.StringIO(out))
  except Exception as e:  # pylint: disable=broad-except
    res.crash(e, "roundtrip:")
    return
  if doc2 is None:
    res.fail("roundtrip:reader-returned-none", repr(out[:200]))
    return
  ps = []
  body = doc2.get_body()
  if body is not None:
    for div in body:
      ps.extend(c for c in div if isinstance(c, model.P))
  if len(ps) != len(cues):
    res.fail("roundtrip:cue-count", "writer wrote %d cues, reader returned %d paragraphs: %r" % (len(cues), len(ps), out[:300]))
    return
  for c, p in zip(cues, ps):
    b, e = p.get_begin(), p.get_end()
    if isinstance(b, float) or isinstance(e, float):
      res.fail("roundtrip:time-type:float", "%r %r" % (b, e))
    if Fraction(b or 0) != c.begin or e is None or Fraction(e) != c.end:
      res.fail("roundtrip:time-value", "written %s --> %s, read %s --> %s" % (c.begin, c.end, b, e))
    o = observe_p(p)
    got = [(ch, a) for ch, a in o["stream"]]
    want = []
    for i, (l, sts) in enumerate(zip(c.lines, c.styles)):
      if i:
        want.append(("\n", None))
      want.extend(zip(l, sts))
    gtext = "".join(ch for ch, _ in got)
    wtext = "".join(ch for ch, _ in want)
    norm = lambda t: "\n".join(x.strip(" ") for x in t.split("\n") if x.strip() != "")
    if norm(gtext) != norm(wtext):
      res.fail("roundtrip:text", "written %r read %r" % (wtext, gtext))
      continue
    gs = [(ch, a) for ch, a in got if not ch.isspace()]
    ws = [(ch, a) for ch, a in want if not ch.isspace()]
    for (ch, a), (_c2, w_) in zip(gs, ws):
      # the reader skips STYLE blocks (as the property says): only the default WebVTT colour classes carry a colour for it
      wfg = _cp.vtt_class_color(w_["color"], {}, "color") if w_["color"] else None
      wbg = _cp.vtt_class_color(w_["bg"], {}, "background-color") if w_["bg"] else None
      custom_fg = bool(w_["color"]) and wfg is None
      custom_bg = bool(w_["bg"]) and wbg is None
      hexof = lambda t: None if t is None else "#%02x%02x%02x%02x" % tuple(t)
      gfg, gbg = hexof(a["fg"]), hexof(a["bg"])
      if gbg in ("#00000000", "#000000cc"):
        gbg = None
      if gfg == "#ffffffff":
        gfg = None
      if wfg == "#ffffffff":
        wfg = None
      pairs = (("bold", a["b"], w_["bold"]), ("italic", a["i"], w_["italic"]), ("underline", a["u"], w_["underline"]),
               ("colour", None if custom_fg else gfg, wfg), ("background", None if custom_bg else gbg, wbg))
      bad = [n for n, x, y in pairs if x != y]
      if bad:
        res.fail("roundtrip:style:" + bad[0], "char %r written %r read %r in %r" % (ch, [y for _n, _x, y in pairs], [x for _n, x, _y in pairs], c.raw_lines))
        break
  res.nontrivial = len(cues) >= 2 and any(len(c.lines) >= 2 for c in cues)


def roundtrip_cases(tier):
  from vt import gen_model as _gm
  from vt.props import c06 as _c06, c07 as _c07
  from hypothesis import strategies as st
  # (one document in four holds the characters that the writer must escape: & < > and -->)
  docs = st.one_of(_gm.docspecs(_c07.STYLED), _gm.docspecs(_c07.STYLED), _gm.docspecs(_c07.STYLED), _gm.docspecs(_c07.MARKUP))
  return st.builds(lambda spec, mode, cfg: {"spec": _c06.shape(spec, mode), "cfg": cfg}, docs,
                   st.sampled_from([0, 1, 2]), st.sampled_from(_c06.VTT_NAMES))


PARTS["writer_roundtrip"] = Part("writer_roundtrip", check_roundtrip, strategy=roundtrip_cases, n=(640, 48000),
                                 required_labels=("cfg:vtt-L-A-I", "cfg:vtt-l-a-i"))
