"""C14 - snapshot acceleration and repeated use never change results or the source."""
import xml.etree.ElementTree as et
from fractions import Fraction

from hypothesis import strategies as st

from ttconv.isd import ISD
import ttconv.srt.writer as srt_writer
import ttconv.vtt.writer as vtt_writer
import ttconv.imsc.writer as imsc_writer
from ttconv.srt.config import SRTWriterConfiguration
from ttconv.vtt.config import VTTWriterConfiguration
from ttconv.imsc.config import IMSCWriterConfiguration
from ttconv.imsc.attributes import TimeExpressionSyntaxEnum

from vt import gen_model, codec, canon
from vt.ref_isd import Ref
from vt.run import Part

ID = "C14"
LEVEL = "exploration"
RULE = ("Hypothesis (DocSpec, operation history) pairs: documents with 0, 1 and several regions, content before/inside/after the content "
        "interval, region backgrounds made visible only by animation or initial values; histories of 4-12 (quick) operations drawn from "
        "significant_times / from_model(t) / from_model(t, sig) / generate_isd_sequence / SRT / VTT / IMSC writer calls on one document "
        "object, t drawn from the reference's probe times; part all_props repeats this over documents using all 36 style properties "
        "and ruby. evaluations = operations executed; non-trivial = history with >= 1 cached and "
        ">= 1 uncached snapshot at a time where the snapshot has content and >= 1 writer call before a snapshot call; distinct by case hash.")
ASSUMPTIONS = [
  "cached and uncached snapshots are compared after removing, from both, regions without content that paint nothing at t according to "
  "the reference interpreter (background alpha 0, opacity 0, visibility hidden, or showBackground whenActive)",
  "a writer that raises is compared by exception type only (whether it may raise is C07/C18's business)",
  "mutating the document between computing and using a SignificantTimes object is outside the property",
]

PROF = gen_model.profile(style_density=(0, 3), max_nodes=20, ruby=False, br_styles=False, anim_on_offset=False,
                         props=["Display", "Visibility", "Opacity", "Color", "BackgroundColor", "ShowBackground", "FontWeight",
                                "TextDecoration", "Extent", "Origin"], initial_counts=(0, 0, 1, 2, 3))
SHRINK = gen_model.case_simplifications("spec")

SRT_CFGS = [None, SRTWriterConfiguration(text_formatting=False)]
VTT_CFGS = [None, VTTWriterConfiguration(line_position=True, text_align=True, cue_id=False),
            VTTWriterConfiguration(line_position=False, text_align=True, cue_id=True)]
IMSC_CFGS = [None, IMSCWriterConfiguration(time_format=TimeExpressionSyntaxEnum.frames, fps=Fraction(25)),
             IMSCWriterConfiguration(time_format=TimeExpressionSyntaxEnum.clock_time)]


def ops_strategy(max_ops):
  op = st.one_of(
    st.just(("sig",)),
    st.tuples(st.just("snap"), st.integers(0, 60), st.booleans(), st.booleans()),
    st.tuples(st.just("snap"), st.integers(0, 60), st.booleans(), st.just(True)),
    st.just(("seq",)),
    st.tuples(st.just("srt"), st.integers(0, len(SRT_CFGS) - 1)),
    st.tuples(st.just("vtt"), st.integers(0, len(VTT_CFGS) - 1)),
    st.tuples(st.just("imsc"), st.integers(0, len(IMSC_CFGS) - 1)),
  )
  return st.lists(op, min_size=3, max_size=max_ops)


import ttconv.style_properties as styles

RED = styles.ColorType((255, 0, 0, 255))
HIDE_REVEAL = [
  ("BackgroundColor", styles.NamedColors.transparent.value, RED),
  ("Opacity", 0, 1.0),
  ("Visibility", styles.VisibilityType.hidden, styles.VisibilityType.visible),
  ("ShowBackground", styles.ShowBackgroundType.whenActive, styles.ShowBackgroundType.always),
  ("Display", styles.DisplayType.none, styles.DisplayType.auto),
]


def steer(spec, choices):
  """makes some regions hide their background through a specified style and reveal it through an animation step: the shape the
  property's quantifier singles out (built on purpose: an unbiased generator almost never produces it)"""
  for r, (k, b, e) in zip(spec["regions"], choices):
    if k is None:
      continue
    name, hide, reveal = HIDE_REVEAL[k]
    r["styles"][name] = hide
    if name != "BackgroundColor":
      r["styles"]["BackgroundColor"] = RED
    r["styles"].pop("Display", None) if name != "Display" else None
    r["anims"] = [a for a in r["anims"] if a[0] not in (name, "Display")] + [(name, b, e, reveal)]
    r["begin"] = None
  # value-equal animation steps on two siblings that are active one after the other (gen_model.equal_steps_on_siblings)
  if choices and choices[0][0] in (None, 0, 1):
    gen_model.equal_steps_on_siblings(spec, RED)
  return spec


# every style property (the source-unchanged and equivalence clauses do not depend on which properties a document uses)
PROF_ALL = gen_model.profile(style_density=(0, 3), max_nodes=16, ruby=True, br_styles=False, anim_on_offset=False, props=None,
                             initial_counts=(0, 0, 1, 2))


def cases_all(tier):
  return st.builds(lambda spec, ops: {"spec": spec, "ops": ops}, gen_model.docspecs(PROF_ALL), ops_strategy(8 if tier == "quick" else 20))


def cases_ruby_split(tier):
  """documents whose ruby parts are sent to different regions and timed (C01's split_ruby): the per-region copies of the accelerated
  path hold a ruby that has lost a part; histories of snapshots only"""
  from vt.props import c01
  pick = st.tuples(st.sampled_from([True, True, True, False]), st.sampled_from([gen_model.F(1), gen_model.F(3), gen_model.F(7)]),
                   st.sampled_from([True, True, True, False]))
  snaps = st.lists(st.tuples(st.just("snap"), st.integers(0, 60), st.booleans(), st.just(True)), min_size=4, max_size=10)
  return st.builds(lambda spec, picks, ops: {"spec": c01.split_ruby(spec, picks), "ops": ops}, gen_model.docspecs(c01.RUBY_TIMED),
                   st.lists(pick, min_size=3, max_size=4), snaps)


def cases(tier):
  choice = st.tuples(st.one_of(st.none(), st.integers(0, len(HIDE_REVEAL) - 1)), st.sampled_from(gen_model.TIMES),
                     st.one_of(st.none(), st.sampled_from(gen_model.TIMES)))
  # (some histories end with the SRT, WebVTT and IMSC writers one after the other, in either order)
  tails = [[], [], [], [("srt", 0), ("imsc", 0)], [("vtt", 0), ("imsc", 2)], [("imsc", 1), ("srt", 1), ("vtt", 1)], [("vtt", 2), ("srt", 0), ("imsc", 0)]]
  return st.builds(lambda spec, ch, ops, tail: {"spec": steer(spec, ch), "ops": ops + tail}, gen_model.docspecs(PROF),
                   st.lists(choice, min_size=3, max_size=3), ops_strategy(12 if tier == "quick" else 30), st.sampled_from(tails))


class State:
  def __init__(self, spec):
    self.doc = gen_model.build(spec)
    self.sig = None


def pick_time(op, times):
  """times = (all probe times, probe times at which the reference presents content)"""
  pool = times[1] if len(op) > 3 and op[3] and times[1] else times[0]
  return pool[op[1] % len(pool)]


def apply(state, op, times):
  """executes one operation; returns a canonical, comparable result"""
  doc = state.doc
  try:
    if op[0] == "sig":
      state.sig = ISD.significant_times(doc)
      return ("sig", tuple(state.sig))
    if op[0] == "snap":
      t = pick_time(op, times)
      if op[2]:
        if state.sig is None:
          state.sig = ISD.significant_times(doc)
        return ("snap", canon.canon_isd(ISD.from_model(doc, t, state.sig)))
      return ("snap", canon.canon_isd(ISD.from_model(doc, t)))
    if op[0] == "seq":
      return ("seq", tuple((t, canon.canon_isd(isd)) for t, isd in ISD.generate_isd_sequence(doc)))
    if op[0] == "srt":
      return ("srt", srt_writer.from_model(doc, SRT_CFGS[op[1]]))
    if op[0] == "vtt":
      return ("vtt", vtt_writer.from_model(doc, VTT_CFGS[op[1]]))
    if op[0] == "imsc":
      tree = imsc_writer.from_model(doc, IMSC_CFGS[op[1]])
      return ("imsc", et.tostring(tree.getroot(), encoding="unicode"))
  except Exception as e:  # pylint: disable=broad-except
    from vt.run import crash_bucket
    bucket, harness = crash_bucket(e)
    if harness:
      raise
    return ("raised", bucket)
  raise ValueError(op)


# ---- a fixed document through every writer configuration: what it gives when a worker process starts is what it must give after every
# case that process has run since.  State that a call leaves behind outside the documents (a writer's filter table shared by all
# conversions, say) changes the results of later calls for good, so only the first case to trigger it could see it by comparing calls
# within the case; the canary sees it after whichever case triggers it.

def _canary_doc():
  import ttconv.model as m
  doc = m.ContentDocument()
  regs = []
  for rid, y in (("c1", 10), ("c2", 60)):
    r = m.Region(rid, doc)
    r.set_style(styles.StyleProperties.Origin, styles.CoordinateType(styles.LengthType(10, styles.LengthType.Units.pct), styles.LengthType(y, styles.LengthType.Units.pct)))
    r.set_style(styles.StyleProperties.Extent, styles.ExtentType(styles.LengthType(30, styles.LengthType.Units.pct), styles.LengthType(80, styles.LengthType.Units.pct)))
    r.set_style(styles.StyleProperties.TextAlign, styles.TextAlignType.end)
    doc.put_region(r)
    regs.append(r)
  body = m.Body(doc)
  doc.set_body(body)
  div = m.Div(doc)
  body.push_child(div)
  for k, (b, e, reg) in enumerate(((Fraction(1), Fraction(3), regs[0]), (Fraction(2), Fraction(7, 2), regs[1]), (Fraction(4), None, regs[0]))):
    p = m.P(doc)
    p.set_begin(b)
    p.set_end(e)
    p.set_region(reg)
    for j, (text, prop, value) in enumerate((("plain%d " % k, None, None), ("red%d" % k, styles.StyleProperties.Color, RED),
                                             ("bold%d" % k, styles.StyleProperties.FontWeight, styles.FontWeightType.bold),
                                             ("bg%d" % k, styles.StyleProperties.BackgroundColor, styles.NamedColors.blue.value))):
      sp = m.Span(doc)
      if prop is not None:
        sp.set_style(prop, value)
      sp.push_child(m.Text(doc, text))
      p.push_child(sp)
      if j == 1:
        p.push_child(m.Br(doc))
    div.push_child(p)
  return doc


def _canary_outputs():
  out = []
  for op in [("srt", i) for i in range(len(SRT_CFGS))] + [("vtt", i) for i in range(len(VTT_CFGS))] + [("imsc", i) for i in range(len(IMSC_CFGS))]:
    out.append((op, _apply_doc(_canary_doc(), op)))
  return out


def _apply_doc(doc, op):
  st_ = State.__new__(State)
  st_.doc, st_.sig = doc, None
  return apply(st_, op, ([Fraction(0)], []))


_CANARY = []


def check(case, res):
  if not _CANARY:
    _CANARY.append(_canary_outputs())
  try:
    _check(case, res)
  finally:
    now = _canary_outputs()
    for (op, a), (_op, b) in zip(_CANARY[0], now):
      if a != b:
        res.fail("process-state-changed:%s" % op[0], "after this case the fixed document gives another result for %r than when the process started" % (op,))
        _CANARY[0] = now
        break


def _check(case, res):
  spec, ops = case["spec"], [tuple(o) for o in case["ops"]]
  ref = Ref(spec)
  times, _b = ref.probe_times()
  times = (times, [t for t in times if any(sn.leaves for sn in ref.snapshot(t))])
  res.label("doc-with-content" if times[1] else "doc-without-content")
  st_ = State(spec)
  fp0 = canon.fingerprint(st_.doc)
  res.evals = 0
  cached_content = uncached_content = writer_before_snap = False
  writer_seen = False
  res.label("regions:%d" % min(2, len(spec["regions"])))
  if any(a[0] in ("BackgroundColor", "Opacity", "Visibility", "ShowBackground") for r in spec["regions"] for a in r["anims"]):
    res.label("region-background-animated")
  steps = [a for n in gen_model.all_nodes(spec) if n["kind"] != "text" for a in n["anims"]]
  if len(set(map(repr, steps))) < len(steps):
    res.label("value-equal-animation-steps")
  # results of the writer operations before anything else has been done in this case: a writer that keeps state outside the document
  # (a module-level cache, a shared mutable object) makes the fresh-document comparison below blind, since the fresh document is
  # processed by the same, already used, process
  base = {}
  for op in ops:
    if op[0] in ("srt", "vtt", "imsc") and op not in base:
      base[op] = apply(State(spec), op, times)
  for i, op in enumerate(ops):
    res.evals += 1
    r1 = apply(st_, op, times)
    if op in base and r1 != base[op]:
      res.fail("history-dependent:%s:differs-from-first-call-of-the-case" % op[0],
               "operation %d %r differs from the same call made on a fresh document before the other operations of the history" % (i, op))
    fp = canon.fingerprint(st_.doc)
    if fp != fp0:
      res.fail("source-mutated:" + op[0], "after operation %d %r" % (i, op))
      fp0 = fp
    fresh = State(spec)
    if op[0] == "snap" and op[2]:
      fresh.sig = ISD.significant_times(fresh.doc)
    r2 = apply(fresh, op, times)
    if r1 != r2:
      res.fail("history-dependent:%s:after-%s" % (op[0], ops[i - 1][0] if i else "start"), "operation %d %r differs from the same call on a fresh document" % (i, op))
    r3 = apply(st_, op, times)
    if r3 != r1:
      res.fail("not-repeatable:" + op[0], "operation %d %r" % (i, op))
    if r1[0] == "raised":
      res.label("writer-raised" if op[0] in ("srt", "vtt", "imsc") else "isd-raised:" + r1[1])
      if op[0] not in ("srt", "vtt", "imsc"):
        res.fail(r1[1], "operation %d %r" % (i, op))
      continue
    if op[0] in ("srt", "vtt", "imsc"):
      writer_seen = True
    if op[0] == "snap":
      t = pick_time(op, times)
      has_content = bool(canon.drop_empty_regions(r1[1]))
      if writer_seen:
        writer_before_snap = True
      if op[2]:
        cached_content = cached_content or has_content
      else:
        uncached_content = uncached_content or has_content
      # cached == uncached modulo empty regions that paint nothing
      other = apply(st_, ("snap", op[1], not op[2], op[3]), times)
      if other[0] != "raised":
        paints = {sn.id for sn in ref.snapshot(t) if Ref.paints_background(sn.computed)}
        a = canon.drop_empty_regions(r1[1], paints)
        b = canon.drop_empty_regions(other[1], paints)
        if a != b:
          ca, un = (a, b) if op[2] else (b, a)
          ids_c, ids_u = [r[1] for r in ca], [r[1] for r in un]
          if ids_c != ids_u:
            lost = [i for i in ids_u if i not in ids_c]
            kind = "painting-empty-region-dropped" if all(not [r for r in un if r[1] == i][0][5] for i in lost) and lost else "regions"
          else:
            kind = "content-or-style"
          res.fail("cached-differs:" + kind, "t=%s cached regions %r uncached %r" % (t, ids_c, ids_u))
        if paints - {r[1] for r in canon.drop_empty_regions(other[1], ())} or any(not r[5] and r[1] in paints for r in other[1]):
          res.label("empty-painting-region-at-probe")
  res.nontrivial = cached_content and uncached_content and writer_before_snap
  res.label("nt:cached-content" if cached_content else "nt:no-cached-content", "nt:uncached-content" if uncached_content else "nt:no-uncached-content",
            "nt:writer-before-snap" if writer_before_snap else "nt:no-writer-before-snap")


PARTS = {
  "main": Part("main", check, strategy=cases, n=(960, 64000), shrinker=SHRINK,
               required_labels=("regions:0", "regions:1", "regions:2", "empty-painting-region-at-probe", "region-background-animated")),
  "all_props": Part("all_props", check, strategy=cases_all, n=(640, 32000), shrinker=SHRINK),
  "ruby_split": Part("ruby_split", check, strategy=cases_ruby_split, n=(320, 16000), shrinker=SHRINK),
}
