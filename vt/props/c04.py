"""C04 - reading IMSC/TTML XML follows TTML timing, styling and white-space semantics."""
import copy
import logging
import zlib
import xml.etree.ElementTree as et
from collections import Counter

from hypothesis import strategies as st

import ttconv.model as m
import ttconv.imsc.reader as imsc_reader
from ttconv.isd import ISD

from vt import gen_ttml, gen_model, obs, codec
from vt.gen_model import PROP
from vt.ref_isd import Ref, nonspace
from vt.run import Part, HarnessError, Res

ID = "C04"
LEVEL = "exploration"
RULE = ("Hypothesis TTML descriptions (vt/gen_ttml.py: tt parameters, initial / style graphs with chains, diamonds, forward and missing "
        "references, regions with inline / nested / referential styling, set children and timing, body/div/p/span/br to depth 4 with "
        "par|seq, every begin/dur/end combination, mixed content, ruby) written as XML text with every time value in a randomly chosen "
        "exact syntax (clock time with fraction / frames, h m s ms f t offsets under frameRate, frameRateMultiplier, tickRate) and every "
        "style value in one of its legal forms; parsed with ElementTree, read with ttconv.imsc.reader.to_model and compared, through "
        "ISD.from_model at the reference's probe times, with Ref(to_docspec(desc)).snapshot(t). evaluations = (document, time) "
        "snapshots + 1 per document for the direct comparison of document parameters. non-trivial = document containing an offset "
        "container with timed children, a seq container, a dur, a frame- or tick-based time expression and a referential style chain of "
        "length >= 2, with at least one snapshot presenting content; distinct by XML hash. Part corrupt: one attribute replaced by a "
        "malformed value or an unknown attribute added; non-trivial = the uncorrupted document presents content in some snapshot.")
ASSUMPTIONS = [
  "oracle: vt/gen_ttml.py to_docspec (TTML2 12.2 / SMIL par-seq timing, 10.4 style resolution order, IMSC default font family) + vt/ref_isd.py",
  "model elements are given ids by a positional walk against the expected tree (the reader does not keep xml:id); elements that are never "
  "active (zero duration, never begin) may be present or absent; a structural mismatch is reported as structure:* and ends the comparison",
  "main parts avoid by construction: the trigger of finding R-2 (seq child after an indefinite sibling: part r2), set children in seq "
  "containers, end < begin where an implicit duration or a seq sibling depends on it, textShadow colours in rgb()/rgba() form, "
  "tts:extent=auto and one-letter unquoted font families (part values), tts:textAlign left/right only in documents without rtl / "
  "vertical writing, px lengths only with tts:extent on tt, frame / tick syntax only with ttp:frameRate / ttp:tickRate present",
  "documents containing the trigger of finding R-1 (fixed by 7b226c4) are generated everywhere; their failures are reported under one bucket",
  "not asserted: winner among simultaneously active set elements with different values on one property; white-space collapsing beyond "
  "the non-white-space characters of each text node; foreign-namespace attributes need not be logged",
  "structural choices of a description come from random.Random seeded with one Hypothesis-drawn integer (see gen_ttml.st); style values "
  "are Hypothesis draws",
]

TIMING = gen_ttml.profile(p_time=0.38, p_seq=0.3, attrs=(0, 1), n_styles=(1, 3), style_refs=(0, 1), elem_refs=(0, 2), initials=(0, 1),
                          regions=(0, 2), nested=(0, 1), sets=(0, 0, 0, 1), max_nodes=26, avoid_r1=False,
                          props=["Color", "BackgroundColor", "Display", "Opacity", "FontSize", "TextAlign", "Visibility", "Extent", "Origin",
                                 "FontStyle", "TextDecoration"])
STYLING = gen_ttml.profile(p_time=0.12, p_seq=0.15, attrs=(0, 3), n_styles=(3, 7), style_attrs=(1, 3), style_refs=(0, 3), elem_refs=(0, 3),
                           initials=(0, 2), regions=(1, 3), nested=(0, 2), sets=(0, 0, 1, 2), max_nodes=16, fanout=2, ruby=True,
                           p_missing_ref=0.08, avoid_r1=False)
R1 = gen_ttml.profile(p_time=0.45, p_seq=0.15, attrs=(0, 0), n_styles=(0, 0), elem_refs=(0, 0), initials=(0, 0), regions=(0, 1),
                      sets=(0,), max_nodes=14, avoid_r1=False, force_r1=True, props=["Color"], preserve=False, langs=False, p_inverted=0)
R2 = gen_ttml.profile(p_time=0.3, p_seq=0.6, attrs=(0, 0), n_styles=(0, 0), elem_refs=(0, 0), initials=(0, 0), regions=(0, 1),
                      sets=(0,), max_nodes=14, avoid_r2=False, props=["Color"], preserve=False, langs=False, p_inverted=0)
CORRUPT = gen_ttml.profile(p_time=0.3, p_seq=0.2, attrs=(0, 2), n_styles=(1, 3), style_attrs=(1, 2), style_refs=(0, 1), elem_refs=(0, 2),
                           initials=(0, 1), regions=(1, 2), nested=(0, 1), sets=(0, 0, 1), max_nodes=12, fanout=2)

VALUES = gen_ttml.profile(p_time=0.05, p_seq=0.0, attrs=(0, 1), n_styles=(0, 1), elem_refs=(0, 1), initials=(0, 0), regions=(0, 1),
                          sets=(0,), max_nodes=10, fanout=2, hiding=False, exotic=gen_ttml.EXOTIC,
                          props=["Color", "BackgroundColor", "FontSize", "TextAlign", "Extent", "Origin", "FontStyle"])
R1_BUCKET = "timing:implicit-end:par-container-at-nonzero-offset"
R2_BUCKET = "crash:TypeError:seq-child-after-indefinite-sibling"


# ---------------------------------------------------------------------------------------------- reading

class _Capture(logging.Handler):
  def __init__(self):
    super().__init__(logging.WARNING)
    self.records = []

  def emit(self, record):
    self.records.append((record.levelno, record.name, record.getMessage()))


def read(xml_text, capture=False):
  """(document, log records) - parses with ElementTree and reads with the IMSC reader; exceptions propagate"""
  tree = et.ElementTree(et.fromstring(xml_text.encode("utf-8")))
  if not capture:
    return imsc_reader.to_model(tree), None
  lg = logging.getLogger("ttconv.imsc")
  h = _Capture()
  old_prop, old_level = lg.propagate, lg.level
  lg.addHandler(h)
  lg.propagate = False
  lg.setLevel(logging.WARNING)
  logging.disable(logging.NOTSET)
  try:
    doc = imsc_reader.to_model(tree)
  finally:
    logging.disable(logging.CRITICAL)
    lg.removeHandler(h)
    lg.propagate = old_prop
    lg.setLevel(old_level)
  return doc, [r for r in h.records if r[1].startswith("ttconv.imsc")]


# ---------------------------------------------------------------------------------------------- comparison

def never_active(e):
  if isinstance(e, (m.Text, m.Br)):
    return False
  b, en = e.get_begin(), e.get_end()
  return en is not None and (b if b is not None else 0) == en


def align(e, node, res, path="body"):
  """walks the model tree against the expected tree, giving the model elements the expected ids; False on a structural mismatch"""
  mk = [c for c in e if not never_active(c)]
  sk = node["kids"]
  kinds_m = [obs.kind_of(c) for c in mk]
  kinds_s = [k["kind"] for k in sk]
  if kinds_m != kinds_s:
    res.fail("structure:children-of-%s" % node["kind"], "%s (%s): model children %r, expected %r" % (path, node["id"], kinds_m, kinds_s))
    return False
  ok = True
  for c, k in zip(mk, sk):
    if k["kind"] == "text":
      if c.get_text() != k["text"]:
        res.fail("structure:text-content", "%s: %r expected %r" % (path, c.get_text(), k["text"]))
      continue
    c.set_id(k["id"])
    if k["kind"] != "br":
      ok = align(c, k, res, path + "/" + k["kind"]) and ok
  return ok


def compare_params(doc, spec, desc, res):
  tt = desc["tt"]
  if doc.get_lang() != spec["lang"]:
    res.fail("params:lang", "%r expected %r" % (doc.get_lang(), spec["lang"]))
  cr = doc.get_cell_resolution()
  if (cr.columns, cr.rows) != tuple(spec["cell"]):
    res.fail("params:cellResolution", "%r expected %r" % ((cr.columns, cr.rows), spec["cell"]))
  if tt["extent"] is not None:
    px = doc.get_px_resolution()
    if (px.width, px.height) != tuple(spec["px"]):
      res.fail("params:extent", "%r expected %r" % ((px.width, px.height), spec["px"]))
  aa = doc.get_active_area()
  got = None if aa is None else (aa.left_offset, aa.top_offset, aa.width, aa.height)
  if (got is None) != (spec["active_area"] is None) or (got is not None and not obs.close(tuple(got), tuple(spec["active_area"]))):
    res.fail("params:activeArea", "%r expected %r" % (got, spec["active_area"]))
  if doc.get_display_aspect_ratio() != spec["dar"]:
    res.fail("params:aspectRatio:%s" % (tt["aspect"][0] if tt["aspect"] else "absent"),
             "%r expected %r" % (doc.get_display_aspect_ratio(), spec["dar"]))
  got_i = {p.__name__: v for p, v in doc.iter_initial_values()}
  for name in sorted(set(got_i) | set(spec["initials"])):
    a, b = got_i.get(name), spec["initials"].get(name)
    if a is None or b is None or not obs.close(obs.conv(name, a), obs.conv(name, b)):
      res.fail("initial:%s" % name, "initial %s: %r expected %r" % (name, a, b))
  ids = [r.get_id() for r in doc.iter_regions()]
  if ids != [r["id"] for r in spec["regions"]]:
    res.fail("structure:regions", "%r expected %r" % (ids, [r["id"] for r in spec["regions"]]))
    return False
  for r, rs in zip(doc.iter_regions(), spec["regions"]):
    if r.get_lang() != rs["lang"]:
      res.fail("inherit:lang:region", "%s %r expected %r" % (rs["id"], r.get_lang(), rs["lang"]))
    if r.get_space().value != rs["space"]:
      res.fail("inherit:space:region", "%s %r expected %r" % (rs["id"], r.get_space().value, rs["space"]))
  return True


def compare_inherited(snaps, regions, res):
  """xml:lang and xml:space of every element present on both sides"""
  got = {r.id: r for r in regions}
  for sn in snaps:
    g = got.get(sn.id)
    if g is None:
      continue
    for eid, e in g.elements.items():
      if eid not in sn.elements:
        continue
      node = sn.elements[eid][0]
      anon = ":anonymous-span" if ".a" in eid else ""
      if e.get_lang() != node["lang"]:
        res.fail("inherit:lang" + anon, "%s %s: %r expected %r" % (node["kind"], eid, e.get_lang(), node["lang"]))
      if e.get_space().value != node["space"]:
        res.fail("inherit:space" + anon, "%s %s: %r expected %r" % (node["kind"], eid, e.get_space().value, node["space"]))


def pick_times(times, boundary, cap):
  if len(times) <= cap:
    return times
  keep = [t for t in times if t in boundary]
  rest = [t for t in times if t not in boundary]
  if len(keep) > cap:
    keep = keep[::-(-len(keep) // cap)]
  room = max(0, cap - len(keep))
  if room and rest:
    rest = rest[::-(-len(rest) // room)]
  else:
    rest = []
  return sorted(keep + rest)


def compare_doc(doc, spec, desc, res, cap=40):
  """all clauses for one document; returns (snapshots compared, snapshots presenting content)"""
  if doc is None:
    res.fail("read:no-document", "to_model returned None")
    return 0, 0
  ok = compare_params(doc, spec, desc, res)
  body = doc.get_body()
  if (body is None) != (spec["body"] is None):
    if not (body is None and not any(True for _ in spec["body"]["kids"])):
      res.fail("structure:body", "model body %r, expected %r" % (body, spec["body"] and spec["body"]["id"]))
    ok = False
  elif body is not None and not spec["body"].get("never"):
    body.set_id(spec["body"]["id"])
    ok = align(body, spec["body"], res) and ok
  if not ok:
    return 0, 0
  ref = Ref(spec)
  times, boundary = ref.probe_times()
  times = pick_times(times, boundary, cap)
  n = shown = 0
  for t in times:
    n += 1
    res.labels["probe:boundary" if t in boundary else "probe:between"] += 1
    snaps = ref.snapshot(t)
    try:
      isd = ISD.from_model(doc, t)
    except Exception as e:  # pylint: disable=broad-except
      res.crash(e, "isd:")
      continue
    regions = obs.observe(isd)
    obs.compare_presence(snaps, regions, res, default_region=not spec["regions"])
    before = len(res.fails)
    obs.compare_styles(snaps, regions, res)
    res.fails[before:] = [f for f in res.fails[before:] if ":anim-multi" not in f[0]]
    compare_inherited(snaps, regions, res)
    if any(l.kind == "br" or nonspace(l.text) for sn in snaps for l in sn.leaves):
      shown += 1
  return n, shown


FEATURES = ("offset-container", "seq", "dur", "chain>=2")


def classify(desc, info, res):
  feat = info["feat"]
  res.label(*["feat:" + f for f in sorted(feat)])
  res.label("ns:default" if not desc["ns"]["tt"] else "ns:prefixed")
  if desc["tt"]["frm"] is not None and tuple(desc["tt"]["frm"]) != (1, 1):
    res.label("feat:frameRateMultiplier")
  depth = [0]

  def w(n, d):
    depth[0] = max(depth[0], d)
    for k in n["kids"]:
      if k["kind"] != "text":
        w(k, d + 1)
  if desc["body"] is not None:
    w(desc["body"], 0)
  res.label("depth:%d" % min(depth[0], 4))
  frame_or_tick = bool(feat & {"syn:f", "syn:t", "syn:clockf"})
  if frame_or_tick:
    res.label("feat:frame-or-tick-syntax")
  return all(f in feat for f in FEATURES) and frame_or_tick


def check(case, res):
  desc = case["desc"]
  info = {}
  spec = gen_ttml.to_docspec(desc, info)
  xml_text = gen_ttml.to_xml(desc)
  rich = classify(desc, info, res)
  res.evals = 1
  if info["r2_sites"]:
    res.label("known:r2-site")
  if info["ambiguous"]:
    # end < begin on an element whose end a seq sibling or an implicit duration depends on: SMIL does not make such an interval
    # valid and the property does not say what its end contributes, so the document is not judged (the generator repairs these
    # shapes in the main parts; they remain reachable through shrinking and in the small trigger parts)
    res.label("skipped:ambiguous-inverted-interval")
    return
  try:
    doc, _ = read(xml_text)
  except Exception as e:  # pylint: disable=broad-except
    if desc.get("exotic"):
      res.label("exotic:" + desc["exotic"])
      res.fail("value:crash:%s:%s" % (type(e).__name__, desc["exotic"]), "%s: %s" % (type(e).__name__, e))
    elif isinstance(e, TypeError) and info["r2_sites"]:
      res.fail(R2_BUCKET, "%s: %s (seq children %r follow a sibling without a definite end)" % (type(e).__name__, e, info["r2_sites"]))
    else:
      res.crash(e, "read:")
    return
  collapse = None
  if info["r1_sites"]:
    # finding R-1 (fixed in the tree by 7b226c4): documents containing its trigger are judged as a whole under the finding's own
    # bucket, so that a regression shows up as one root cause and not as a flood of presence / structure buckets
    res.label("known:r1-site")
    collapse = R1_BUCKET
  elif desc.get("exotic"):
    res.label("exotic:" + desc["exotic"])
    collapse = "value:%s" % desc["exotic"]
  sub = Res() if collapse else res
  n, shown = compare_doc(doc, spec, desc, sub)
  res.evals += n
  if collapse:
    res.labels.update(sub.labels)
    for b, d in sub.fails:
      if collapse == R1_BUCKET and not b.startswith(("presence:", "structure:")):
        res.fail(b, d)         # styles, inheritance, parameters do not depend on the implicit end
      else:
        res.fail(collapse, "%s%s %s" % ("offset par containers %r without dur/end: " % info["r1_sites"] if info["r1_sites"] else "", b, d))
  if shown:
    res.label("presents-content")
  if rich and shown:
    res.nontrivial = True
    res.nt_key = codec.chash(xml_text)


# ---------------------------------------------------------------------------------------------- corruption

TIME_BAD = ["abc", "5", "1.5", "5 s", "-1s", "1:2:3", "5sec", ".5s", "1,5s", "00:00", "s", "10 f", "5S"]
TIME_FRAME_JUNK = ["5frames", "10f0", "3fx", "12f s"]
ENUM_BAD = ["bogus", "AUTO", "none1", "", "x y"]
LENGTH_BAD = ["10", "10xx", "px", "1e1px", "10 px", "ten%", "--1c", "1.px"]
COLOR_BAD = ["#12345", "#gggggg", "rgb(1,2)", "notacolor", "rgba(1,2,3)", "# ff0000", "12", "rgb(a,b,c)", "rgb(256,0,0)", "rgba(0,0,0,999)"]
COLOR_JUNK = ["#1234567", "#ff0000zz", "rgb(1,2,3)x", "rgba(1,2,3,4)5"]
NUMBER_BAD = ["abc", "1,0", "0.5.5", "", "half"]
ENUM_PROPS = set(gen_ttml.TOKENS)
LENGTH_PROPS = {"FontSize", "Disparity", "LinePadding", "LineHeight"}
PAIR_PROPS = {"Extent", "Origin"}
COLOR_PROPS = {"Color", "BackgroundColor"}
NUMBER_PROPS = {"Opacity", "LuminanceGain"}


def style_corruptions(owner, attrs):
  """(owner, key, class, values) for the style attributes we know how to malform"""
  out = []
  for a in attrs:
    p = a["p"]
    key = "style:" + p
    if p in ENUM_PROPS:
      out.append((owner, key, "enum-token", ENUM_BAD))
    elif p in LENGTH_PROPS:
      out.append((owner, key, "length", LENGTH_BAD))
    elif p in PAIR_PROPS:
      out.append((owner, key, "length-pair", ["10%", "10% 10% 10%", "10px 10", "a b", "10% ,10%"]))
    elif p == "Padding":
      out.append((owner, key, "padding", ["1% 1% 1% 1% 1%", "1", "1% x", ""]))
    elif p in COLOR_PROPS:
      out.append((owner, key, "color", COLOR_BAD))
      out.append((owner, key, "color-trailing-junk", COLOR_JUNK))
    elif p in NUMBER_PROPS:
      out.append((owner, key, "number", NUMBER_BAD))
    elif p == "Shear":
      out.append((owner, key, "shear", ["10", "10px", "abc%", "%"]))
    elif p == "TextOutline":
      out.append((owner, key, "textOutline", ["red", "red 1px 2px 3px", "1xx", "red blue"]))
    elif p == "FontFamily":
      out.append((owner, key, "fontFamily", ["", ",", " "]))
    elif p == "FillLineGap":
      out.append((owner, key, "boolean", ["yes", "TRUE", "1", "", "False"]))
  return out


def corruptions(desc):
  """every single-attribute corruption applicable to the description: (owner, key, class, malformed values)"""
  out = []
  tt = desc["tt"]
  syns = Counter()
  max_ff = 0

  def seen(t):
    nonlocal max_ff
    syns[t["syn"]] += 1
    if t["syn"] == "clockf":
      max_ff = max(max_ff, t["q"][1])

  for n in gen_ttml.walk_desc(desc):
    for k in ("begin", "dur", "end"):
      if n[k] is not None:
        out.append((n["id"], k, "time-syntax", TIME_BAD))
        out.append((n["id"], k, "time-frame-trailing-junk", TIME_FRAME_JUNK))
        seen(n[k])
    for i, stp in enumerate(n["sets"]):
      for k in ("begin", "dur", "end"):
        if stp[k] is not None:
          out.append(("%s/set%d" % (n["id"], i), k, "time-syntax", TIME_BAD))
          seen(stp[k])
      out += style_corruptions("%s/set%d" % (n["id"], i), [stp["attr"]] if stp["attr"] is not None else [])
    for i, at in enumerate(n["nested"]):
      out += style_corruptions("%s/nested%d" % (n["id"], i), at)
    out += style_corruptions(n["id"], n["attrs"])
    if n["region"] is not None:
      out.append((n["id"], "region", "region-ref", ["nosuchregion", ""]))
    if n["space"] is not None:
      out.append((n["id"], "space", "xml-space", ["bogus", "Preserve", ""]))
    if n["tc"] is not None:
      out.append((n["id"], "tc", "timeContainer", ["bogus", "SEQ", "sequence", ""]))
    if n["ruby"] == "none":
      # an ordinary span either way: tts:ruby="none" is the initial value
      out.append((n["id"], "ruby", "ruby-token", ["foo", "Container", "", "base text", "NONE"]))
  for sty in desc["styles"]:
    out += style_corruptions(sty["id"], sty["attrs"])
  for i, at in enumerate(desc["initials"]):
    out += style_corruptions("initial%d" % i, at)
  if tt["cell"] is not None:
    out.append(("tt", "cell", "cellResolution", ["32", "a b", "32x15", "", "32,15"]))
    out.append(("tt", "cell", "cellResolution-zero", ["0 15", "32 0", "0 0"]))
    out.append(("tt", "cell", "cellResolution-trailing-junk", ["%d %dx" % tuple(tt["cell"]), "%d %d 7" % tuple(tt["cell"])]))
  if tt["extent"] is not None:
    out.append(("tt", "extent", "tt-extent-one-token", ["1920px", "640px"]))
    out.append(("tt", "extent", "tt-attribute-not-a-length", ["a b", "1920 1080", "1920px 1080xx"]))
    out.append(("tt", "extent", "tt-extent-not-px", ["100% 100%", "32c 15c"]))
  if tt["active_area"] is not None:
    out.append(("tt", "active_area", "activeArea-arity", ["10% 10% 80%", "10%", "1% 1% 1% 1% 1%"]))
    out.append(("tt", "active_area", "tt-attribute-not-a-length", ["a b c d", "10 10 80 80"]))
    out.append(("tt", "active_area", "activeArea-not-percent", ["10px 10px 80px 80px"]))
  if tt["aspect"] is not None:
    out.append(("tt", "aspect", "aspectRatio", ["16:9", "16", "a b", "16 0", ""]))
  # without ttp:frameRate the default of 30 applies (TTML2 7.2.5): clock times whose frame field is >= 30 would become malformed
  # themselves, so the frame rate is only corrupted when no such expression exists
  if tt["fps"] is not None and max_ff < 30:
    out.append(("tt", "fps", "frameRate", ["abc", "", "-25", "x25"]))
    if syns["f"] or syns["clockf"]:
      out.append(("tt", "fps", "frameRate-zero", ["0"]))
  if tt["frm"] is not None:
    out.append(("tt", "frm", "frameRateMultiplier", ["1000", "1000/1001", "a b", ""]))
  # TTML2 ttp:tickRate: without a (valid) tick rate, the effective frame rate if ttp:frameRate is specified, else 1 (gen_ttml.eff_tick)
  if tt["tick"] is not None:
    out.append(("tt", "tick", "tickRate", ["abc", "", "-1", "x"]))
  if tt["space"] is not None:
    out.append(("tt", "space", "xml-space", ["bogus", "PRESERVE"]))
  return out


ADDITIONS = [("unknown-attribute", "tts|fooBar", "1"), ("unknown-attribute", "ttp|bogusParameter", "x"), ("unknown-attribute", "foo", "bar"),
             ("unknown-attribute", "tts|colour", "red"), ("foreign-attribute", "x|note", "anything"), ("foreign-attribute", "x|begin", "1s")]


def without(desc, owner, key):
  """copy of the description with that attribute absent"""
  d = copy.deepcopy(desc)
  if owner == "tt":
    d["tt"][key] = None
    if key in ("fps", "frm", "tick"):
      gen_ttml.reinterpret(d)
    return d
  if owner.startswith("initial"):
    i = int(owner[7:])
    d["initials"][i] = [a for a in d["initials"][i] if "style:" + a["p"] != key]
    return d
  for sty in d["styles"]:
    if sty["id"] == owner:
      sty["attrs"] = [a for a in sty["attrs"] if "style:" + a["p"] != key]
      return d
  base, _, sub = owner.partition("/")
  for n in gen_ttml.walk_desc(d):
    if n["id"] != base:
      continue
    if sub.startswith("set"):
      i = int(sub[3:])
      if key.startswith("style:"):
        n["sets"][i]["attr"] = None          # animates nothing, but still is a timed child of its parent
      else:
        n["sets"][i][key] = None
    elif sub.startswith("nested"):
      i = int(sub[6:])
      n["nested"][i] = [a for a in n["nested"][i] if "style:" + a["p"] != key]
    elif key.startswith("style:"):
      n["attrs"] = [a for a in n["attrs"] if "style:" + a["p"] != key]
    else:
      n[key] = None
    return d
  raise HarnessError("corruption target %r not found" % owner)


def has_sites(desc):
  info = {}
  gen_ttml.to_docspec(desc, info)
  return bool(info["r1_sites"] or info["r2_sites"] or info["ambiguous"])


@st.composite
def corrupt_cases(draw, prof):
  desc = draw(gen_ttml.descs(prof))
  # Hypothesis favours small draws; mixing in a checksum of the document spreads the choice of class and target evenly
  mix = zlib.crc32(gen_ttml.to_xml(desc).encode("utf-8"))
  if draw(st.integers(0, 9)) >= 9:
    kind, name, value = ADDITIONS[(mix + draw(st.integers(0, 5))) % len(ADDITIONS)]
    owners = ["tt"] + [n["id"] for n in gen_ttml.walk_desc(desc)] + [sty["id"] for sty in desc["styles"]]
    return {"desc": desc, "corrupt": {"owner": draw(st.sampled_from(owners)), "add": (name, value)}, "class": kind}
  cands = corruptions(desc)
  if not cands:
    return {"desc": desc, "corrupt": {"owner": "tt", "add": ("foo", "bar")}, "class": "unknown-attribute"}
  # classes first so that rare ones are not drowned by the many time / style attributes
  classes = sorted({c[2] for c in cands})
  # the parameters on tt decide how every time expression and length of the document is read: a quarter of the cases corrupt one of them
  # when there is one (seeded change C04-20: a malformed ttp:frameRate still setting the default tick rate)
  tt_classes = sorted({c[2] for c in cands if c[0] == "tt" and c[1] in ("fps", "frm", "tick")})
  if tt_classes and draw(st.integers(0, 3)) == 0:
    classes = tt_classes
  cls = classes[(mix + draw(st.integers(0, 63))) % len(classes)]
  pool = [c for c in cands if c[2] == cls]
  start = (mix // 64 + draw(st.integers(0, 15))) % len(pool)
  for j in range(len(pool)):
    owner, key, cls, values = pool[(start + j) % len(pool)]
    # the expectation (attribute absent) must stay clear of the triggers of findings R-1 / R-2
    if (key in ("begin", "dur", "end", "tc") or owner == "tt") and has_sites(without(desc, owner, key)):
      continue
    return {"desc": desc, "corrupt": {"owner": owner, "key": key, "value": draw(st.sampled_from(values))}, "class": cls}
  return {"desc": desc, "corrupt": {"owner": "tt", "add": ("foo", "bar")}, "class": "unknown-attribute"}


def check_corrupt(case, res):
  desc, cor, cls = case["desc"], case["corrupt"], case["class"]
  res.label("corrupt:" + cls)
  res.label("corrupt-on:" + ("tt" if cor["owner"] == "tt" else "set" if "/set" in cor["owner"] else "nested" if "/nested" in cor["owner"]
                             else "initial" if cor["owner"].startswith("initial") else
                             "style" if any(x["id"] == cor["owner"] for x in desc["styles"]) else "element"))
  expected = desc if "add" in cor else without(desc, cor["owner"], cor["key"])
  info = {}
  spec = gen_ttml.to_docspec(expected, info)
  if info["r1_sites"] or info["r2_sites"] or info["ambiguous"]:
    res.label("corrupt:skipped-known-site")
    return
  xml_text = gen_ttml.to_xml(desc, cor)
  if "value" in cor and xml_text == gen_ttml.to_xml(desc):
    raise HarnessError("corruption %r did not change the document" % (cor,))
  res.evals = 1
  try:
    doc, records = read(xml_text, capture=True)
  except Exception as e:  # pylint: disable=broad-except
    res.fail("corrupt:crash:%s:%s" % (type(e).__name__, cls), "%s: %s with %r" % (type(e).__name__, e, cor))
    return
  sub = Res()
  n, shown = compare_doc(doc, spec, expected, sub, cap=16)
  res.labels.update(sub.labels)
  res.evals += n
  if sub.fails:
    res.fail("corrupt:meaning:%s" % cls, "%r changes the document: %s %s" % (cor, sub.fails[0][0], sub.fails[0][1]))
  if cls != "foreign-attribute" and not records:
    res.fail("corrupt:no-log:%s" % cls, "%r read without any ttconv.imsc log record of level >= WARNING" % (cor,))
  if shown:
    res.nontrivial = True
    res.nt_key = codec.chash(xml_text)


# ---------------------------------------------------------------------------------------------- shrinking

def simplifications(case):
  """simpler variants of a description case (one edit each), most aggressive first"""
  desc = case["desc"]

  def variant(edit):
    d = copy.deepcopy(desc)
    if edit(d) is False:
      return None
    c = dict(case)
    c["desc"] = d
    return c

  def elems(d):
    return list(gen_ttml.walk_desc(d))

  out = []
  if desc["body"] is not None:
    out.append(lambda d: d.__setitem__("body", None))
  for i in range(len(desc["regions"])):
    def drop_region(d, i=i):
      rid = d["regions"].pop(i)["id"]
      for n in elems(d):
        if n["region"] == rid:
          n["region"] = None
    out.append(drop_region)
  for i in range(len(desc["styles"])):
    out.append(lambda d, i=i: d["styles"].pop(i))
  for i in range(len(desc["initials"])):
    out.append(lambda d, i=i: d["initials"].pop(i))
  syns = set()
  for n in elems(desc):
    for t in [n[k] for k in ("begin", "dur", "end")] + [stp[k] for stp in n["sets"] for k in ("begin", "dur", "end")]:
      if t is not None:
        syns.add(t["syn"])
  for key in ("cell", "active_area", "aspect", "frm", "space", "fps", "tick"):
    if desc["tt"][key] is None:
      continue
    if (key in ("fps", "frm") and syns & {"f", "clockf"}) or (key == "tick" and "t" in syns):
      continue        # would change the meaning of time expressions
    if key == "fps" and desc["tt"]["frm"] is not None:
      continue
    out.append(lambda d, key=key: d["tt"].__setitem__(key, None))
  if desc["ns"]["tt"] or desc["ns"]["pretty"]:
    out.append(lambda d: d["ns"].update(tt="", pretty=False, tts="tts", ttp="ttp"))
  n_el = len(elems(desc))
  for idx in range(n_el):
    n = elems(desc)[idx]
    for ki in range(len(n["kids"])):
      out.append(lambda d, idx=idx, ki=ki: elems(d)[idx]["kids"].pop(ki))
      if n["kids"][ki]["kind"] == n["kind"] and n["kids"][ki].get("kids") and n["kids"][ki].get("ruby") is None and n["ruby"] is None:
        def hoist(d, idx=idx, ki=ki):
          p = elems(d)[idx]
          p["kids"][ki:ki + 1] = p["kids"][ki]["kids"]
        out.append(hoist)
    for key in ("begin", "dur", "end", "tc", "region", "space", "lang"):
      if n[key] is not None:
        out.append(lambda d, idx=idx, key=key: elems(d)[idx].__setitem__(key, None))
    for key in ("refs", "attrs", "sets", "nested"):
      for i in range(len(n[key])):
        out.append(lambda d, idx=idx, key=key, i=i: elems(d)[idx][key].pop(i))
    for key in ("begin", "dur", "end"):
      if n[key] is not None and n[key]["x"] != gen_ttml.dec(n[key]["v"] or 0) and gen_ttml.dec(n[key]["v"]) is not None \
          and n[key]["x"] != gen_ttml.dec(n[key]["v"]) + "s":
        out.append(lambda d, idx=idx, key=key: elems(d)[idx][key].update(x=gen_ttml.dec(elems(d)[idx][key]["v"]) + "s", syn="s"))
    for ki, k in enumerate(n["kids"]):
      if k["kind"] == "text" and len(k["text"]) > 2:
        out.append(lambda d, idx=idx, ki=ki: elems(d)[idx]["kids"][ki].update(text="x%d" % ki))
  for sty_i, sty in enumerate(desc["styles"]):
    for key in ("refs", "attrs"):
      for i in range(len(sty[key])):
        out.append(lambda d, sty_i=sty_i, key=key, i=i: d["styles"][sty_i][key].pop(i))
  cor = case.get("corrupt")
  for edit in out:
    try:
      c = variant(edit)
    except (KeyError, IndexError):
      continue
    if c is None:
      continue
    if cor is not None and not target_exists(c["desc"], cor):
      continue
    yield c


def target_exists(desc, cor):
  owner = cor["owner"]
  if owner == "tt":
    return "add" in cor or desc["tt"].get(cor["key"]) is not None
  try:
    if "add" in cor:
      return owner in [n["id"] for n in gen_ttml.walk_desc(desc)] + [x["id"] for x in desc["styles"]]
    probe = gen_ttml.to_xml(desc, dict(cor, value="\u0001vt-probe"))
    return "vt-probe" in probe
  except (KeyError, IndexError):
    return False


# ---------------------------------------------------------------------------------------------- parts

def cases(prof):
  def strat(tier):
    return st.builds(lambda d: {"desc": d}, gen_ttml.descs(prof))
  return strat


def selftest():
  gen_ttml.selftest()


def finish(ctx):
  lab = ctx.acc.labels
  b, o = lab.get("probe:boundary", 0), lab.get("probe:between", 0)
  ctx.extra["boundary_probe_fraction"] = round(b / max(1, b + o), 3)
  ctx.extra["probe_times_total"] = b + o


PARTS = {
  "timing": Part("timing", check, strategy=cases(TIMING), n=(480, 48000), shrinker=simplifications,
                 required_labels=("feat:offset-container", "feat:seq>=2", "feat:dur", "feat:dur+end", "feat:implicit-end", "feat:syn:f",
                                  "feat:syn:t", "feat:syn:clockf", "feat:clockf-last-frame-fractional-rate", "feat:syn:clock", "feat:syn:ms", "feat:syn:h", "feat:syn:m",
                                  "feat:frameRateMultiplier", "feat:set", "feat:text-in-seq", "feat:anonymous-span", "feat:zero-duration",
                                  "feat:chain>=2", "depth:4", "ns:default", "ns:prefixed", "presents-content", "known:r1-site",
                                  "feat:inverted", "feat:comment-or-pi-in-text")),
  "styling": Part("styling", check, strategy=cases(STYLING), n=(320, 32000), shrinker=simplifications,
                  required_labels=("feat:chain>=2", "feat:chain>=3", "feat:chain-ref-order", "feat:later-ref-overrides", "feat:nested", "feat:nested-overrides-ref",
                                   "feat:inline-overrides", "feat:missing-ref", "feat:initial", "feat:ruby", "feat:set",
                                   "presents-content")),
  "r1": Part("r1", check, strategy=cases(R1), n=(96, 4800), shrinker=simplifications, required_labels=("known:r1-site",)),
  "r2": Part("r2", check, strategy=cases(R2), n=(96, 4800), shrinker=simplifications, required_labels=("known:r2-site",)),
  "values": Part("values", check, strategy=cases(VALUES), n=(160, 4800), shrinker=simplifications,
                 required_labels=tuple("exotic:" + f for f in gen_ttml.EXOTIC)),
  "corrupt": Part("corrupt", check_corrupt, strategy=lambda tier: corrupt_cases(CORRUPT), n=(400, 40000), shrinker=simplifications,
                  required_labels=("corrupt:time-syntax", "corrupt:enum-token", "corrupt:length", "corrupt:color",
                                   "corrupt:unknown-attribute", "corrupt:foreign-attribute")),
}
