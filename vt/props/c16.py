"""C16 - the LCD filter simplifies style and layout but keeps the text timeline."""
from collections import Counter

from hypothesis import strategies as st

import ttconv.style_properties as s
from ttconv.filters.doc.lcd import LCDDocFilter, LCDDocFilterConfig

from vt import gen_model, canon, codec
from vt.ref_isd import Ref, nonspace
from vt.run import Part

ID = "C16"
LEVEL = "exploration"
RULE = ("Hypothesis DocSpecs (regions with origin, position incl. right/bottom edges, extent in every unit, writing modes, timed regions, "
        "0-4 animation steps per element; sub-profile without display / visibility / opacity anywhere for the timeline clause; documents "
        "without body or regions) x configurations (safe_area {0,5,10,30} and random 0..30, preserve_text_align, color, bg_color in "
        "{none, named, #rrggbbaa, transparent}). evaluations = (document, configuration) pairs; non-trivial = document with >= 2 regions "
        "of which >= 2 are merged, >= 1 positioned region and >= 2 animation steps on one element; distinct by case hash.")
ASSUMPTIONS = [
  "text timeline and computed colours / alignment are judged by the reference interpreter (vt/ref_isd.py) on the document read back "
  "through public getters before and after the filter",
  "the timeline clause is asserted only for documents that contain no display, visibility or opacity styling (built without them)",
  "region timing equality for merging is taken literally (same begin and end values)",
]

ALLOWED_ALWAYS = {"DisplayAlign", "Extent", "Origin"}
PROF = gen_model.profile(style_density=(0, 4), max_nodes=22, anim_counts=(0, 0, 1, 2, 4), br_styles=True, edges=True, time_density=4,
                         ruby_full=True)
NO_HIDING = gen_model.profile(**dict(PROF, hiding=False, nested_region_refs=False,
                                     props=[p for p in gen_model.ALL_PROPS if p not in ("Display", "Visibility", "Opacity")]))
NO_HIDING_NESTED = gen_model.profile(**dict(PROF, hiding=False, max_nodes=14, max_regions=2,
                                            props=["Color", "FontWeight", "TextAlign", "Extent", "Origin", "DisplayAlign"]))
SHRINK = gen_model.case_simplifications("spec")


def conflicting_region_refs(spec):
  """an element references a region although an ancestor references another one (its content is never presented)"""
  def w(n, inherited):
    if n["kind"] == "text":
      return False
    r = n.get("region")
    if r is not None and inherited is not None and r != inherited:
      return True
    return any(w(k, r if r is not None else inherited) for k in n["kids"])
  return spec["body"] is not None and w(spec["body"], None)
COLORS = [None, s.NamedColors.yellow.value, s.ColorType((1, 2, 3, 128)), s.NamedColors.transparent.value]


def cfg_strategy():
  return st.builds(lambda sa, pta, c, bg: {"safe_area": sa, "preserve_text_align": pta, "color": c, "bg_color": bg},
                   st.one_of(st.sampled_from([0, 5, 10, 30]), st.integers(0, 30)), st.booleans(), st.sampled_from(COLORS),
                   st.sampled_from(COLORS))


def twin_regions(spec, k):
  """two or three regions that agree in everything (styles, timing) but, for k = 1, in tts:textAlign, and content below each:
  whether they are merged depends on the configuration only (k = 0: always; k = 1: not when text alignment is preserved)"""
  if k is None or spec["body"] is None or len(spec["regions"]) < 2:
    return spec
  r0 = spec["regions"][0]
  r0["anims"] = []
  aligns = [s.TextAlignType.start, s.TextAlignType.end, s.TextAlignType.center]
  for i, r in enumerate(spec["regions"][1:3], 1):
    r["styles"] = dict(r0["styles"])
    r["anims"] = []
    r["begin"], r["end"] = r0["begin"], r0["end"]
    if k == 1:
      r["styles"]["TextAlign"] = aligns[i]
  if k == 1:
    r0["styles"]["TextAlign"] = aligns[0]
  regs = [r["id"] for r in spec["regions"][:3]]
  for n in gen_model.walk(spec["body"]):
    n["region"] = None
    n["styles"].pop("TextAlign", None)
    n["anims"] = [a for a in n["anims"] if a[0] != "TextAlign"]
  for i, d in enumerate(spec["body"]["kids"]):
    d["region"] = regs[i % len(regs)]
  return spec


def cases(prof, twins=False):
  def strat(tier):
    k = st.sampled_from([None, 0, 1, 1]) if twins else st.none()
    return st.builds(lambda spec, cfg, kk: {"spec": twin_regions(spec, kk), "cfg": cfg}, gen_model.docspecs(prof), cfg_strategy(), k)
  return strat


def timeline(spec, times):
  ref = Ref(spec)
  out = []
  for t in times:
    toks = Counter()
    for sn in ref.snapshot(t):
      for l in sn.leaves:
        if l.kind == "br":
          toks["<br>"] += 1
        elif nonspace(l.text):
          toks[nonspace(l.text)] += 1
    out.append(toks)
  return out


def check(case, res):
  spec, cfg = case["spec"], case["cfg"]
  doc = gen_model.build(spec)
  config = LCDDocFilterConfig(safe_area=cfg["safe_area"], preserve_text_align=cfg["preserve_text_align"], color=cfg["color"],
                              bg_color=cfg["bg_color"])
  nodes = list(gen_model.all_nodes(spec))
  hiding = any(k in ("Display", "Visibility", "Opacity") for n in nodes if n["kind"] != "text"
               for k in list(n["styles"]) + [a[0] for a in n["anims"]]) or \
           any(k in spec["initials"] for k in ("Display", "Visibility", "Opacity"))
  positioned = any("Position" in r["styles"] for r in spec["regions"])
  res.label("hiding" if hiding else "no-hiding", "regions:%d" % min(3, len(spec["regions"])))
  if positioned:
    res.label("positioned-region")
  if spec["body"] is None:
    res.label("no-body")
  lcd = LCDDocFilter(config)
  try:
    lcd.process(doc)
  except Exception as e:  # pylint: disable=broad-except
    feature = "positioned-region:" if positioned else "no-body:" if spec["body"] is None else ""
    res.crash(e, "filter:" + feature)
    return
  after = gen_model.spec_of(doc)
  allowed = set(ALLOWED_ALWAYS)
  if cfg["preserve_text_align"]:
    allowed.add("TextAlign")
  else:
    allowed.add("TextAlign")     # the filter sets textAlign=center on body
  allowed.add("Color")
  allowed.add("BackgroundColor")
  for n in gen_model.all_nodes(after):
    if n["kind"] == "text":
      continue
    if n["anims"]:
      res.fail("animation-steps-remain:%s" % n["kind"], "%s keeps %d steps" % (n["id"], len(n["anims"])))
    extra = set(n["styles"]) - allowed
    if extra:
      res.fail("style-remains:%s" % sorted(extra)[0], "%s %s keeps %r" % (n["kind"], n["id"], sorted(extra)))
  extra = set(after["initials"]) - allowed
  if extra:
    res.fail("initial-value-remains:%s" % sorted(extra)[0], sorted(extra))
  # "as configured": a configured colour / background colour is the only one left in the document - the colour on the body, the
  # background colour on every p
  for name, key, holder in (("Color", "color", "body"), ("BackgroundColor", "bg_color", "p")):
    if cfg[key] is None:
      continue
    if name in after["initials"]:
      res.fail("initial-value-remains:%s:although-configured" % name, repr(after["initials"][name]))
    for n in gen_model.all_nodes(after):
      if n["kind"] == "text" or name not in n["styles"]:
        continue
      if n["kind"] != holder:
        res.fail("style-remains:%s:although-configured:on-%s" % (name, n["kind"]), "%s %s keeps %r" % (n["kind"], n["id"], n["styles"][name]))
      elif n["styles"][name] != cfg[key]:
        res.fail("style-remains:%s:not-the-configured-value" % name, "%s %s has %r" % (n["kind"], n["id"], n["styles"][name]))
  sa = cfg["safe_area"]
  seen = {}
  for r in after["regions"]:
    o, e = r["styles"].get("Origin"), r["styles"].get("Extent")
    if o is None or e is None or (o.x.value, o.x.units.value, o.y.value, o.y.units.value) != (sa, "%", sa, "%") or \
        (e.width.value, e.width.units.value, e.height.value, e.height.units.value) != (100 - 2 * sa, "%", 100 - 2 * sa, "%"):
      res.fail("region-not-at-safe-area", "%s origin %r extent %r" % (r["id"], o, e))
    if "Position" in r["styles"]:
      res.fail("style-remains:Position", r["id"])
    # regions that still differ in a style that content inherits from them (alignment, colors) are legitimately distinct
    key = (r["begin"] or 0, r["end"], r["styles"].get("WritingMode"), r["styles"].get("DisplayAlign"),
           repr(r["styles"].get("TextAlign")), repr(r["styles"].get("Color")), repr(r["styles"].get("BackgroundColor")))
    if key in seen:
      res.fail("regions-not-merged", "%s and %s share %r" % (seen[key], r["id"], key))
    seen[key] = r["id"]
  ids = {r["id"] for r in after["regions"]}
  if after["body"] is not None:
    for n in gen_model.walk(after["body"]):
      if n.get("region") is not None and n["region"] not in ids:
        res.fail("dangling-region-reference", "%s -> %s" % (n["id"], n["region"]))
  body = doc.get_body()
  if body is not None:
    for e in body.dfs_iterator():
      r = e.get_region()
      if r is not None and doc.get_region(r.get_id()) is not r:
        res.fail("region-reference-not-registered-object", r.get_id())
  merged = len(spec["regions"]) - len(after["regions"])
  if merged:
    res.label("regions-merged")
  # idempotence
  fp1 = canon.fingerprint(doc)
  # (half of the documents get the second application from the filter object that made the first one, the others from a new one)
  same = len(nodes) % 2 == 0
  res.label("second-application:" + ("same-filter-object" if same else "new-filter-object"))
  try:
    (lcd if same else LCDDocFilter(config)).process(doc)
    if canon.fingerprint(doc) != fp1:
      res.fail("not-idempotent", "second application changes the document")
  except Exception as e:  # pylint: disable=broad-except
    res.crash(e, "filter:second-application:")
  # text timeline and computed styles
  ref0 = Ref(spec)
  times, _b = ref0.probe_times()
  if len(times) > 20:
    times = times[::max(1, len(times) // 20)]
  if not hiding:
    t0 = timeline(spec, times)
    t1 = timeline(after, times)
    for t, a, b in zip(times, t0, t1):
      if a != b:
        lost = sorted((a - b).elements())[:3]
        gained = sorted((b - a).elements())[:3]
        feature = ":conflicting-region-references" if conflicting_region_refs(spec) and not lost else ""
        res.fail("timeline-changed:%s%s" % ("lost" if lost else "gained", feature), "t=%s lost %r gained %r" % (t, lost, gained))
        break
  ref1 = Ref(after)
  before_align = {}
  align_animated = any(a[0] == "TextAlign" for n in nodes if n["kind"] != "text" for a in n["anims"])
  for t in (times if not align_animated else []):    # an animated alignment cannot be preserved once animation is removed
    for sn in ref0.snapshot(t):
      for eid, (n, cc) in sn.elements.items():
        if n["kind"] == "p":
          # a paragraph presented in several regions (through descendants that reference them) may compute a different
          # alignment in each: every one of them counts
          before_align.setdefault((eid, t), []).append(cc["TextAlign"])
  for t in times:
    for sn in ref1.snapshot(t):
      used = set()
      for l in sn.leaves:
        used.update(l.chain)
      for eid in used:
        if eid not in sn.elements:
          continue
        n, cc = sn.elements[eid]
        if n["kind"] == "span" and cfg["color"] is not None and cc["Color"] != cfg["color"]:
          res.fail("computed-color", "span %s at %s computes %r" % (eid, t, cc["Color"]))
        if n["kind"] == "p":
          if cfg["bg_color"] is not None and cc["BackgroundColor"] != cfg["bg_color"]:
            res.fail("computed-background", "p %s at %s computes %r" % (eid, t, cc["BackgroundColor"]))
          if not cfg["preserve_text_align"] and cc["TextAlign"] is not s.TextAlignType.center:
            res.fail("computed-text-align:not-centered", "p %s at %s computes %r" % (eid, t, cc["TextAlign"]))
          if cfg["preserve_text_align"] and not hiding and (eid, t) in before_align and \
              not any(b is gen_model_unknown() for b in before_align[(eid, t)]) and cc["TextAlign"] not in before_align[(eid, t)]:
            res.fail("computed-text-align:not-preserved", "p %s at %s computes %r, before %r" % (eid, t, cc["TextAlign"], before_align[(eid, t)]))
  max_anims = max([len(n["anims"]) for n in nodes if n["kind"] != "text"] or [0])
  res.nontrivial = len(spec["regions"]) >= 2 and merged >= 1 and positioned and max_anims >= 2


def gen_model_unknown():
  from vt.ref_isd import UNKNOWN
  return UNKNOWN


PARTS = {
  "main": Part("main", check, strategy=cases(PROF), n=(800, 48000), shrinker=SHRINK,
               required_labels=("positioned-region", "regions-merged", "no-body", "regions:0")),
  "no_hiding": Part("no_hiding", check, strategy=cases(NO_HIDING, True), n=(800, 48000), shrinker=SHRINK, required_labels=("no-hiding",)),
  # nested conflicting region references: content that is never presented becomes visible when the regions are merged (known finding)
  "nested_refs": Part("nested_refs", check, strategy=cases(NO_HIDING_NESTED), n=(240, 8000), shrinker=SHRINK),
}
