"""C18 - readers and writers fail only in documented ways, on any input."""
import glob
import itertools
import io
import logging
import os
import re
import signal
import struct
import sys
import xml.etree.ElementTree as et
from fractions import Fraction

from hypothesis import strategies as st

from ttconv.isd import ISD
import ttconv.imsc.reader as imsc_reader
import ttconv.imsc.writer as imsc_writer
import ttconv.scc.reader as scc_reader
import ttconv.stl.reader as stl_reader
import ttconv.srt.reader as srt_reader
import ttconv.srt.writer as srt_writer
import ttconv.vtt.reader as vtt_reader
import ttconv.vtt.writer as vtt_writer
from ttconv.imsc.config import IMSCWriterConfiguration
from ttconv.imsc.attributes import TimeExpressionSyntaxEnum
from ttconv.srt.config import SRTWriterConfiguration
from ttconv.vtt.config import VTTWriterConfiguration
from ttconv.filters.doc.lcd import LCDDocFilter, LCDDocFilterConfig
import ttconv.style_properties as styles

from vt.run import Part, Acc, run_check, crash_bucket, HarnessError

ID = "C18"
LEVEL = "exploration"
RULE = ("per reader (imsc, scc, stl, srt, vtt): valid inputs (bundled corpus files <= 16 KB and files from the grammar generators "
        "vt/gen_{ttml,scc,stl,srt,vtt}.py) and structure-aware mutations of them drawn by Hypothesis (truncation, deletion / duplication "
        "/ swap of lines, tokens, attributes and 128-byte TTI blocks, boundary values in numeric fields, format-specific dictionary "
        "tokens, random characters / bytes); every returned document goes through generate_isd_sequence, snapshots at five times with "
        "and without cache, the LCD filter under two configurations and every writer under every configuration. evaluations = inputs; "
        "non-trivial = mutated input for which the reader returned a document holding at least one paragraph; distinct by input hash. "
        "thorough tier: additionally one atheris (libFuzzer) campaign per reader (VT_ATHERIS_SECONDS, default 300 s each) with the same "
        "classifier inside the target; its executions are counted as evaluations and the inputs for which the reader returned a document "
        "as non-trivial (libFuzzer inputs are distinct up to its own deduplication; not re-hashed).")
ASSUMPTIONS = [
  "allowed reader outcomes: a document; None after a CRITICAL log record; xml.etree.ElementTree.ParseError, ValueError (incl. "
  "UnicodeDecodeError), struct.error. Everything else is an internal error, bucketed by (exception type, innermost ttconv frame)",
  "downstream stages must not raise at all, except the IMSC writer's documented configuration ValueErrors",
  "a case that runs longer than 30 s is re-run once with 90 s before being bucketed as a hang",
  "inputs are <= 64 KB; memory exhaustion is not probed",
]

ALLOWED = (et.ParseError, ValueError, struct.error)
RES = os.path.join(os.environ.get("VT_CORPUS", "/repo"), "src", "test", "resources")
READERS = ("imsc", "scc", "stl", "srt", "vtt")


def corpus(reader):
  pats = {"imsc": ["ttml/*.ttml", "ttml/imsc-tests/*/ttml/*.ttml"], "scc": ["scc/*.scc"], "stl": ["stl/*/*.stl", "stl/*/*.STL"],
          "srt": [], "vtt": ["vtt/*.vtt", "vtt/wpt-tests/*/*.vtt"]}[reader]
  out = []
  for p in pats:
    for f in sorted(glob.glob(os.path.join(RES, p))):
      try:
        if os.path.getsize(f) <= 16384:
          with open(f, "rb") as fh:
            out.append(fh.read())
      except OSError:
        pass
  if reader == "srt":
    out = [b"1\n00:00:01,000 --> 00:00:02,000\n<b>Hello</b>\nworld\n\n2\n00:00:02,500 --> 00:00:03,000\n{i}x{/i} <font color=\"#ff0000\">y</font>\n",
           b"\xef\xbb\xbf1\r\n00:00:00,000 --> 100:00:00,000\r\n<i><u>a</u>\r\nb</i>\r\n\r\n"]
  return out[:60]


CORPUS = {r: corpus(r) for r in READERS}
DICT = {
  "srt": ["</b>", "<b>", "<font color=", "<font color=\"red\">", "</font>", "-->", "{\\an8}", "1\n", "\n\n", "00:00:00,000 --> 00:00:01,000\n",
          "<i", "{b}", "</i></i>", "&amp;", "\r", "﻿", "<!-- x -->", "<?x?>", "<font color=\"#f00\">", "<font color=\"orange\">",
          "<![foo]>", "<![", "]]>", "<![CDATA[", "<!DOCTYPE x [", "&#", "&#x110000;", "</", "<>", "<i>" * 1000],
  "vtt": ["<rt>", "</rt>", "<ruby>", "</ruby>", "<c.", "<c.red.bg_blue>", "&", "&amp;", "&#x;", "NOTE ", "STYLE\n", "REGION\n", "line:", "line:-1",
          "position:50%,line-left", "size:0%", "vertical:rl", "align:", "-->", "<00:00:01.000>", "<v ", "<lang en>", "</b>", "\n\n", "WEBVTT",
          "00:00.000 --> 00:01.000\n", "\r"],
  "scc": ["9420", "942f", "94ae", "9425", "94ad", "9429", "942c", "zzzz", "94", ";", "\t", "Scenarist_SCC V1.0", "00:00:00:00\t", "1c20", "9120",
          "91b0", "9220", "97a1", "8080", "\n\n", "99:99:99:99\t"],
  "imsc": [' timeContainer="seq"', ' tts:ruby="text"', ' tts:ruby="container"', ' begin="1f"', ' ttp:frameRate="0"', ' dur="1t"', ' end="-1s"',
           ' tts:extent="auto"', ' tts:fontSize="1x"', ' tts:textShadow="1px"', ' style="nope"', ' style="s0"', ' style="s1 s0"', ' region="nope"', "<br/>", "<set/>", "</p>",
           "<span>", ' xml:space="preserve"', ' tts:position="center"', ' tts:direction="AUTO"', ' ttp:cellResolution="0 0"',
           ' tts:lineHeight="125%"', ' ittp:activeArea="1% 2% 300% 4%"', ' ttp:tickRate="0"', ' ttp:frameRateMultiplier="1 0"', ' ttp:frameRateMultiplier="0 1"', "&#0;", "<!-- c -->", "<?pi?>",
           "<span>" * 400 + "x" + "</span>" * 400, ' begin="1.0001s" end="1.0004s"', ' begin="1.0006s" end="1.0012s"', ' dur="0.0007s"', '<set tts:color="red" dur="1s"/>', ' end="0.0003s"', ' tts:display="block"', ' tts:textAlign="justify"', ' tts:writingMode="x"',
           ' begin="1f" ttp:frameRate="0"', ' tts:textShadow="1px 1px"', ' tts:fontFamily="X"', ' tts:origin="1px"', ' tts:padding="1px 2px 3px 4px 5px"', ' tts:textEmphasis="auto"', ' tts:textEmphasis="before"',
           '<set tts:textEmphasis="auto red"/>'],
}
BOUNDARY = ["0", "-1", "99", "100000000000000000000", "100000000000000000001", "123456789012345678", "999", "00", "1e5", ""]


# ------------------------------------------------------------------------------------------------ mutation

def mutate_text(text, ops, fmt):
  for op in ops:
    kind, a, b = op[0], op[1], op[2]
    lines = text.split("\n")
    if kind == "truncate":
      text = text[:a % (len(text) + 1)]
    elif kind == "del-line" and lines:
      del lines[a % len(lines)]
      text = "\n".join(lines)
    elif kind == "dup-line" and lines:
      i = a % len(lines)
      lines.insert(i, lines[i])
      text = "\n".join(lines)
    elif kind == "swap-lines" and len(lines) > 1:
      i, j = a % len(lines), b % len(lines)
      lines[i], lines[j] = lines[j], lines[i]
      text = "\n".join(lines)
    elif kind == "number":
      nums = list(re.finditer(r"\d+", text))
      if nums:
        m = nums[a % len(nums)]
        text = text[:m.start()] + BOUNDARY[b % len(BOUNDARY)] + text[m.end():]
    elif kind == "token":
      tok = DICT[fmt][a % len(DICT[fmt])]
      i = b % (len(text) + 1)
      if fmt == "imsc" and tok.startswith(" "):
        # attribute tokens go right after the name of some start tag
        sites = [m.end() for m in re.finditer(r"<[A-Za-z][\w:]*", text)]
        if sites:
          i = sites[b % len(sites)]
      elif fmt in ("srt", "vtt") and "-->" in tok and tok.endswith("\n"):
        sites = [m.end() for m in re.finditer(r"\n", text)] + [0]
        i = sites[b % len(sites)]
      text = text[:i] + tok + text[i:]
    elif kind == "del-range" and text:
      i = a % len(text)
      text = text[:i] + text[i + 1 + b % 12:]
    elif kind == "del-attr":
      attrs = list(re.finditer(r' [\w:]+="[^"]*"', text))
      if attrs:
        m = attrs[a % len(attrs)]
        text = text[:m.start()] + text[m.end():]
    elif kind == "del-tag":
      tags = list(re.finditer(r"</?[\w:]+[^<>]*>", text))
      if tags:
        m = tags[a % len(tags)]
        text = text[:m.start()] + text[m.end():]
    elif kind == "chars":
      i = a % (len(text) + 1)
      text = text[:i] + op[3] + text[i:]
  return text


def mutate_stl(data, ops):
  data = bytearray(data)
  for op in ops:
    kind, a, b = op[0], op[1], op[2]
    nblocks = max(0, (len(data) - 1024) // 128)
    if kind == "truncate":
      del data[a % (len(data) + 1):]
    elif kind == "del-block" and nblocks:
      i = 1024 + 128 * (a % nblocks)
      del data[i:i + 128]
    elif kind == "dup-block" and nblocks:
      i = 1024 + 128 * (a % nblocks)
      data[i:i] = data[i:i + 128]
    elif kind == "swap-blocks" and nblocks > 1:
      i, j = 1024 + 128 * (a % nblocks), 1024 + 128 * (b % nblocks)
      data[i:i + 128], data[j:j + 128] = data[j:j + 128], data[i:i + 128]
    elif kind == "byte" and data:
      data[a % len(data)] = [0x00, 0xFF, 0x8F, 0x8A, 0x20, 0x01, 0x0D, 0xC1][b % 8]
    elif kind == "tti-field" and nblocks:
      off = [0, 1, 2, 3, 4, 5, 8, 12, 13, 14, 15][b % 11]          # SGN SN EBN CS TCI.. TCO.. VP JC CF TF[0]
      data[1024 + 128 * (a % nblocks) + off] = [0x00, 0x01, 0x02, 0x03, 0xFE, 0xFF, 0x63, 0x17][(a + b) % 8]
    elif kind == "gsi-field" and len(data) >= 1024:
      off, n = [(3, 8), (11, 1), (12, 2), (14, 2), (238, 5), (243, 5), (253, 2), (256, 8), (0, 3)][a % 9]   # DFC DSC CCT LC TNB TNS MNR TCP CPN
      val = [b"0" * n, b"9" * n, b" " * n, b"\xff" * n, b"STL99.01"[:n].ljust(n, b"1"), b"-1".ljust(n, b"0")][b % 6]
      data[off:off + n] = val
    elif kind == "bytes":
      i = a % (len(data) + 1)
      data[i:i] = op[3]
  return bytes(data)


TEXT_OPS = ["truncate", "del-line", "dup-line", "swap-lines", "number", "number", "token", "token", "token", "del-range", "del-attr", "del-tag", "chars"]
STL_OPS = ["truncate", "del-block", "dup-block", "swap-blocks", "byte", "byte", "tti-field", "tti-field", "gsi-field", "bytes"]


def ops_strategy(reader):
  big = st.integers(0, 10 ** 6)
  if reader == "stl":
    op = st.tuples(st.sampled_from(STL_OPS), big, big, st.binary(max_size=6))
  else:
    op = st.tuples(st.sampled_from(TEXT_OPS), big, big, st.text(alphabet=st.characters(codec="utf-8", exclude_categories=("Cs",)), max_size=4))
  return st.lists(op, min_size=0, max_size=4)


def generated(reader):
  """valid files from the grammar generators, rendered to bytes"""
  if reader == "srt":
    from vt import gen_srt
    return gen_srt.descs(4).map(lambda d: gen_srt.render(d).encode("utf-8"))
  if reader == "vtt":
    from vt import gen_vtt
    return gen_vtt.descs().map(lambda d: gen_vtt.render(d).encode("utf-8"))
  if reader == "scc":
    from vt import gen_scc
    return gen_scc.scripts(gen_scc.profile()).map(lambda d: gen_scc.render(d).encode("utf-8"))
  if reader == "stl":
    from vt import gen_stl
    return gen_stl.files(gen_stl.profile("main")).map(gen_stl.assemble)
  from vt import gen_ttml
  return gen_ttml.descs().map(lambda d: gen_ttml.to_xml(d).encode("utf-8"))


def make_case(reader, base, ops):
  origin, data = base
  if not ops:
    return {"reader": reader, "data": data, "origin": origin, "mutations": []}
  if reader == "stl":
    out = mutate_stl(data, ops)
  else:
    out = mutate_text(data.decode("utf-8", errors="replace"), ops, reader).encode("utf-8", errors="replace")
  return {"reader": reader, "data": out[:65536], "origin": origin, "mutations": [o[0] for o in ops]}


def cases(reader):
  def strat(tier):
    bases = [st.sampled_from([("corpus", d) for d in CORPUS[reader]])] if CORPUS[reader] else []
    bases.append(generated(reader).map(lambda d: ("generated", d)))
    bases.append(st.sampled_from([("empty", b""), ("empty", b"\n"), ("empty", b"\xef\xbb\xbf")]))
    base = st.one_of(*bases) if len(bases) < 3 else st.one_of(bases[0], bases[1], bases[1].map(lambda x: x), bases[2])
    ncfg = len(READER_CFGS.get(reader, [None]))
    rcfg = st.integers(0, max(0, 2 * ncfg - 1)).map(lambda i: i - ncfg if i >= ncfg else 0)    # half of the cases: default configuration
    return st.builds(lambda b, ops, rc: dict(make_case(reader, b, ops), rcfg=rc), base, ops_strategy(reader), rcfg)
  return strat


# ------------------------------------------------------------------------------------------------ execution

class Critical(logging.Handler):
  def __init__(self):
    super().__init__(level=logging.CRITICAL)
    self.n = 0

  def emit(self, record):
    self.n += 1


class Timeout(Exception):
  pass


class XmlRejected(ValueError):
  pass


def _alarm(_sig, _frm):
  raise Timeout()


def _reader_cfgs():
  from ttconv.stl.config import STLReaderConfiguration
  from ttconv.scc.config import SccReaderConfiguration
  stl = [None] + [STLReaderConfiguration.parse(d) for d in (
    {"max_row_count": "MNR"}, {"max_row_count": 11, "disable_fill_line_gap": True}, {"max_row_count": 1, "disable_line_padding": True},
    {"program_start_tc": "TCP"}, {"program_start_tc": "00:00:01:00", "font_stack": "Verdana, monospace"},
    {"program_start_tc": "10:00:00:00", "max_row_count": "MNR"}, {"max_row_count": 99})]
  scc = [None] + [SccReaderConfiguration.parse({"text_align": v}) for v in ("left", "center", "right", "auto")]
  return {"stl": stl, "scc": scc}


READER_CFGS = _reader_cfgs()


def read(reader, data, rcfg=0):
  """runs one reader the way tt.py does, under the rcfg-th reader configuration; returns (document or None, number of CRITICAL records)"""
  cfg = READER_CFGS.get(reader, [None])[rcfg % len(READER_CFGS.get(reader, [None]))]
  h = Critical()
  root = logging.getLogger("ttconv")
  root.addHandler(h)
  logging.disable(logging.ERROR)
  try:
    if reader == "imsc":
      try:
        tree = et.parse(io.BytesIO(data))
      except Timeout:
        raise
      except Exception as e:  # pylint: disable=broad-except
        raise XmlRejected(type(e).__name__) from e       # the XML parser, not ttconv, refuses the input
      doc = imsc_reader.to_model(tree)
    elif reader == "scc":
      doc = scc_reader.to_model(data.decode("utf-8"), cfg)
    elif reader == "stl":
      doc = stl_reader.to_model(io.BytesIO(data), cfg)
    elif reader == "srt":
      doc = srt_reader.to_model(io.TextIOWrapper(io.BytesIO(data), encoding="utf-8"))
    else:
      doc = vtt_reader.to_model(io.TextIOWrapper(io.BytesIO(data), encoding="utf-8"))
  finally:
    logging.disable(logging.CRITICAL)
    root.removeHandler(h)
  return doc, h.n


IMSC_CFGS = [None] + [IMSCWriterConfiguration(time_format=f, fps=r) for f in (TimeExpressionSyntaxEnum.clock_time, TimeExpressionSyntaxEnum.frames,
                                                                            TimeExpressionSyntaxEnum.clock_time_with_frames)
                      for r in (Fraction(24), Fraction(30000, 1001))]
SRT_CFGS = [None, SRTWriterConfiguration(text_formatting=False)]
VTT_CFGS = [VTTWriterConfiguration(line_position=a, text_align=b, cue_id=c) for a in (True, False) for b in (True, False) for c in (True, False)]
LCD_CFGS = [LCDDocFilterConfig(), LCDDocFilterConfig(safe_area=0, preserve_text_align=True, color=styles.NamedColors.yellow.value,
                                                     bg_color=styles.NamedColors.black.value)]


def downstream(reader, data, doc, res, prefix):
  """every document a reader returns can be snapshotted, filtered and written"""
  def stage(name, fn):
    try:
      return fn()
    except Timeout:
      raise
    except RecursionError:
      # (the innermost frame of a recursion error is wherever the limit happened to be reached: the bucket names the stage only)
      res.fail("%sdownstream:%s:crash:RecursionError" % (prefix, name), "maximum recursion depth exceeded")
      return None
    except Exception as e:  # pylint: disable=broad-except
      bucket, harness = crash_bucket(e)
      if harness:
        raise
      res.fail("%sdownstream:%s:%s" % (prefix, name, bucket), "%s: %s" % (type(e).__name__, str(e)[:200]))
      return None

  sig = stage("significant_times", lambda: ISD.significant_times(doc))
  if sig is not None:
    ts = list(sig)
    probes = sorted(set(([ts[0], ts[len(ts) // 2], ts[-1], ts[-1] + 1] if ts else []) + [Fraction(0)]))
    for t in probes:
      stage("from_model", lambda t=t: ISD.from_model(doc, t))
      stage("from_model-cached", lambda t=t: ISD.from_model(doc, t, sig))
    if len(ts) <= 300:
      stage("generate_isd_sequence", lambda: ISD.generate_isd_sequence(doc))
      for i, cfg in enumerate(SRT_CFGS):
        stage("srt-writer", lambda cfg=cfg: srt_writer.from_model(doc, cfg))
      for cfg in VTT_CFGS:
        stage("vtt-writer", lambda cfg=cfg: vtt_writer.from_model(doc, cfg))
  for cfg in IMSC_CFGS:
    def w(cfg=cfg):
      try:
        tree = imsc_writer.from_model(doc, cfg)
      except ValueError:
        if cfg is not None and cfg.time_format is TimeExpressionSyntaxEnum.clock_time_with_frames and cfg.fps.denominator != 1:
          return None                 # documented configuration error
        raise
      tree.write(io.BytesIO(), encoding="utf-8", xml_declaration=True)
      return tree
    stage("imsc-writer", w)
  for i, cfg in enumerate(LCD_CFGS):
    d2 = stage("reread", lambda: read(reader, data)[0])
    if d2 is None:
      continue
    if stage("lcd-filter", lambda d2=d2, cfg=cfg: LCDDocFilter(cfg).process(d2) or True) is None:
      continue
    stage("lcd+from_model", lambda d2=d2: ISD.from_model(d2, 0))
    if i == 0:
      stage("lcd+srt-writer", lambda d2=d2: srt_writer.from_model(d2))
    else:
      stage("lcd+vtt-writer", lambda d2=d2: vtt_writer.from_model(d2, VTT_CFGS[0]))


def run_case(case, res, limit, light=False):
  reader, data = case["reader"], case["data"]
  prefix = reader + ":"
  old = signal.signal(signal.SIGALRM, _alarm)
  signal.alarm(limit)
  try:
    try:
      doc, ncrit = read(reader, data, case.get("rcfg", 0))
      if case.get("rcfg", 0):
        res.label("%s:reader-configuration" % reader)
    except Timeout:
      raise
    except ALLOWED as e:
      bucket, harness = crash_bucket(e)
      res.label("%s:rejected:%s" % (reader, type(e).__name__))
      # an allowed exception type raised by an internal API misuse is still an internal error when it comes from the model layer
      return
    except UnicodeError:
      res.label("%s:rejected:UnicodeError" % reader)
      return
    except RecursionError as e:
      res.fail(prefix + "reader:crash:RecursionError", str(e)[:100])
      return
    except Exception as e:  # pylint: disable=broad-except
      bucket, harness = crash_bucket(e)
      if harness:
        if isinstance(e, (RecursionError,)):
          res.fail(prefix + "reader:crash:RecursionError", str(e)[:100])
          return
        raise
      res.fail(prefix + "reader:" + bucket, "%s: %s" % (type(e).__name__, str(e)[:200]))
      return
    if doc is None:
      res.label(reader + ":returned-none")
      if ncrit == 0:
        res.fail(prefix + "reader:returned-none-without-fatal-log", repr(data[:80]))
      return
    res.label(reader + ":document")
    body = doc.get_body()
    try:
      nel = sum(1 for _ in body.dfs_iterator()) if body is not None else 0
      has_p = body is not None and any(type(e).__name__ == "P" for e in body.dfs_iterator())
    except RecursionError:
      res.fail(prefix + "downstream:dfs_iterator:crash:RecursionError", "maximum recursion depth exceeded")
      return
    if case["mutations"] and has_p:
      res.nontrivial = True
    if nel > 2000:
      res.label(reader + ":large-document-not-processed")
      return
    if light:
      # fuzzing campaigns: snapshots only (the writers are exercised by the Hypothesis parts)
      try:
        sig = ISD.significant_times(doc)
        for t in list(sig)[:3]:
          ISD.from_model(doc, t, sig)
      except Timeout:
        raise
      except RecursionError:
        # (the innermost frame of a recursion error is wherever the limit happened to be reached: the bucket names the stage only)
        res.fail("%sdownstream:snapshot:crash:RecursionError" % prefix, "maximum recursion depth exceeded")
      except Exception as e:  # pylint: disable=broad-except
        bucket, harness = crash_bucket(e)
        if harness:
          raise
        res.fail("%sdownstream:snapshot:%s" % (prefix, bucket), "%s: %s" % (type(e).__name__, str(e)[:200]))
      return
    downstream(reader, data, doc, res, prefix)
  finally:
    signal.alarm(0)
    signal.signal(signal.SIGALRM, old)


def check(case, res):
  res.label("origin:" + case["origin"], "mutated" if case["mutations"] else "verbatim")
  for m in case["mutations"]:
    res.label("mutation:" + m)
  # the runner raises the interpreter's recursion limit for its own needs; ttconv is judged under the default one
  limit = sys.getrecursionlimit()
  sys.setrecursionlimit(1000)
  try:
    try:
      run_case(case, res, 30)
    except Timeout:
      res.fails[:] = []
      try:
        run_case(case, res, 90)
      except Timeout:
        res.fail("%s:hang" % case["reader"], "no result within 90 s for %d bytes" % len(case["data"]))
  finally:
    sys.setrecursionlimit(limit)


def shrinker(case):
  """byte-level ddmin-style candidates: halves, quarters, single lines removed"""
  data = case["data"]
  n = len(data)
  seen = set()
  for k in (2, 4, 8, 16):
    step = max(1, n // k)
    for i in range(0, n, step):
      cand = data[:i] + data[i + step:]
      if cand not in seen and len(cand) < n:
        seen.add(cand)
        yield dict(case, data=cand)
  if case["reader"] != "stl":
    lines = data.split(b"\n")
    if len(lines) <= 60:
      for i in range(len(lines)):
        cand = b"\n".join(lines[:i] + lines[i + 1:])
        if cand not in seen:
          seen.add(cand)
          yield dict(case, data=cand)


TT = '<tt xml:lang="en" xmlns="http://www.w3.org/ns/ttml" xmlns:tts="http://www.w3.org/ns/ttml#styling" xmlns:ttp="http://www.w3.org/ns/ttml#parameter" xmlns:ittp="http://www.w3.org/ns/ttml/profile/imsc1#parameter"%s>%s</tt>'


def _gsi(tnb=b"00001", dfc=b"STL25.01", cct=b"00", dsc=b"1", mnr=b"23", tcp=b"00000000"):
  g = bytearray(b" " * 1024)
  g[0:3] = b"850"
  g[3:11] = dfc
  g[11:12] = dsc
  g[12:14] = cct
  g[14:16] = b"00"
  g[238:243] = tnb
  g[243:248] = tnb
  g[248:251] = b"001"
  g[251:253] = b"40"
  g[253:255] = mnr
  g[255:256] = b"1"
  g[256:264] = tcp
  g[264:272] = b"00000000"
  g[272:273] = b"1"
  g[273:274] = b"1"
  g[274:277] = b"FRA"
  return bytes(g)


def _tti(sn=1, ebn=0xFF, cs=0, tci=(0, 0, 1, 0), tco=(0, 0, 2, 0), vp=20, jc=2, cf=0, tf=b"AB"):
  return struct.pack("<BHBBBBBBBBBBBBB112s", 0, sn, ebn, cs, *tci, *tco, vp, jc, cf, tf.ljust(112, b"\x8f"))


# the degenerate inputs the property names, and one input per robustness defect found so far: a seconds-long regression tier
CATALOG = [
  # two regions holding text in the last, unbounded, interval (each becomes a WebVTT cue of its own when line_position is on)
  ("imsc", (TT % ("", '<head><layout><region xml:id="r1" tts:origin="10% 10%" tts:extent="80% 20%"/><region xml:id="r2" tts:origin="10% 70%" '
                      'tts:extent="80% 20%"/></layout></head><body><div><p region="r1" begin="1s">top</p><p region="r2" begin="1s">bottom</p>'
                      '<p region="r2" begin="2s">more</p></div></body>')).encode()),
  ("imsc", (TT % ("", '<head><layout><region xml:id="r1" tts:textEmphasis="auto"/></layout></head><body region="r1"><div><p>x</p></div></body>')).encode()),
  ("imsc", (TT % ("", '<head><styling><initial tts:textEmphasis="before"/></styling></head><body><div><p>x</p></div></body>')).encode()),
  ("srt", b""), ("srt", b"\n\n"), ("srt", b"1\n"), ("srt", b"1\n00:00:01,000 --> 00:00:02,000\n"),
  ("srt", b"1\n00:00:01,000 --> 00:00:02,000\n\n2\n00:00:02,000 --> 00:00:03,000\nx\n"),
  ("srt", b"1\n00:00:01,000 --> 00:00:02,000\n</b>\nw\n"), ("srt", b"1\n00:00:01,000 --> 00:00:02,000\n<i>a</i></i></b>b\n"),
  ("srt", b"1\n00:00:01,000 --> 00:00:01,000\nx\n"), ("srt", b"1\n00:00:02,000 --> 00:00:01,000\nx\n"),
  ("srt", b"1\n00:00:01,000 --> 00:00:02,000\n<font color=\"orange\">x</font>\n"), ("srt", b"1\n00:00:01,000 --> 00:00:02,000\n<font>x</font>\n"),
  ("srt", b"x\n00:00:01,000 --> 00:00:02,000\ny\n"), ("srt", b"1\nnot a time\ny\n"), ("srt", b"\xff\xfe1\n"),
  ("vtt", b""), ("vtt", b"WEBVTT"), ("vtt", b"WEBVTT\n\n"), ("vtt", b"WEBVTT\n\n00:01.000 --> 00:02.000\n"),
  ("vtt", b"WEBVTT\n\n00:01.000 --> 00:02.000\n\n00:02.000 --> 00:03.000\nx\n"),
  ("vtt", b"WEBVTT\n\n00:01.000 --> 00:02.000\n</i>x</b>\n"), ("vtt", b"WEBVTT\n\n00:01.000 --> 00:02.000\n<rt>x</rt>\n"),
  ("vtt", b"WEBVTT\n\n00:01.000 --> 00:02.000\n<ruby>a<rt>b</rt><ruby>c</ruby></ruby>\n"),
  ("vtt", b"WEBVTT\n\n00:01.000 --> 00:02.000\n<ruby><rt>b</rt></ruby>\n"), ("vtt", b"WEBVTT\n\n00:01.000 --> 00:02.000\n<ruby>a</ruby>\n"),
  ("vtt", b"WEBVTT\n\n00:01.000 --> 00:02.000 line:-1 position:0% size:0%\nx\n"), ("vtt", b"WEBVTT\n\n00:01.000 --> 00:02.000 line:x size:200%\nx\n"),
  ("vtt", b"WEBVTT\n\n00:01.000 --> 00:01.000\nx\n"), ("vtt", b"WEBVTT\n\n00:01.0004 --> 00:01.0006\nx\n"),
  ("vtt", b"WEBVTT\n\n00:01.000 --> 00:02.000\n<v a &amp; b>x</v> &lrm; &\n"), ("vtt", b"WEBVTT\n\nNOTE 1\n00:01.000 --> 00:02.000\nx\n"),
  ("scc", b""), ("scc", b"Scenarist_SCC V1.0\n"), ("scc", b"Scenarist_SCC V1.0\n\n00:00:00:00\t9420 9420 94ae 94ae 9470 9470 c1c2 942f 942f\n"),
  ("scc", b"Scenarist_SCC V1.0\n\n00:00:00:00\t9420 zzzz\n"), ("scc", b"Scenarist_SCC V1.0\n\n00:00:00:00\t94\n"),
  ("scc", b"Scenarist_SCC V1.0\n\n00:00:00:00\t\t9420\n"), ("scc", b"Scenarist_SCC V1.0\n\n99:99:99:99\t9420 942f\n"),
  ("scc", b"Scenarist_SCC V1.0\n\n00:00:00:00\tc1c2 c3c4\n\n00:00:01:00\t942f\n"), ("scc", b"Scenarist_SCC V1.0\n\n00:00:00:00\t9425 94ad 9421 9421 9421 c1c2 94ad\n"),
  ("scc", b"Scenarist_SCC V1.0\n\n00:00:00;00\t9429 9429 97a1 c1c2 942c\n"),
  # paint-on text flipped out and back in by end-of-caption codes; mid-row codes with no caption being composed
  ("scc", b"Scenarist_SCC V1.0\n\n00:00:00:11\t9429 2080\n\n00:00:00:22\t942f 942f 942f\n"),
  ("scc", b"Scenarist_SCC V1.0\n\n00:00:01:00\t9429 9429 91ae 91ae 9120 9120\n\n00:00:02:00\t9425 9425 942c 942c 91ae 9120 91ae\n"),
  ("scc", b"Scenarist_SCC V1.0\n\n00:00:00:00\t9429 9429 9421 9421 c1c2\n"), ("scc", b"Scenarist_SCC V1.0\n\n00:00:00:00\t9420 9420 1220 1220\n"),
  ("srt", b"1\n00:00:01,000 --> 00:00:02,000\n<![foo]>x\n"), ("srt", b"1\n00:00:01,000 --> 00:00:02,000\na<![ b <!-- c --> <?d?> <!DOCTYPE e [\n"),
  ("srt", b"1\n00:00:01,000 --> 00:00:02,000\n<font color>x</font>\n"), ("srt", b"1\n00:00:01,000 --> 00:00:02,000\n<font color=>x</font><b =>y\n"),
  ("stl", b""), ("stl", b"x" * 100), ("stl", _gsi()), ("stl", _gsi() + _tti()), ("stl", _gsi(tnb=b"00000") + _tti()), ("stl", _gsi() + _tti()[:60]),
  # reader configurations (third item: index into READER_CFGS): row count taken from a GSI MNR field that is zero / not a number,
  # programme start taken from a TCP field that is not a time code
  ("stl", _gsi(dsc=b"0", mnr=b"00") + _tti(), 1), ("stl", _gsi(dsc=b"0", mnr=b"xx") + _tti(tci=(0, 1, 0, 0), tco=(0, 1, 2, 0)), 1),
  ("stl", _gsi(tcp=b"        ") + _tti(), 4), ("stl", _gsi(tcp=b"99999999") + _tti(), 4), ("stl", _gsi(tcp=b"1000000x") + _tti(), 6),
  ("stl", _gsi(dsc=b"0", mnr=b"  ") + _tti(), 6), ("stl", _gsi(dsc=b"0") + _tti(vp=23), 3), ("stl", _gsi() + _tti(), 4), ("stl", _gsi(dsc=b"0") + _tti(), 5),
  ("stl", _gsi(dfc=b"STL99.01") + _tti()), ("stl", _gsi(cct=b"99") + _tti()), ("stl", _gsi(dsc=b"9") + _tti()), ("stl", _gsi(tnb=b"     ") + _tti()),
  ("stl", _gsi() + _tti(cs=3)), ("stl", _gsi() + _tti(cs=2) + _tti(sn=2, cs=3)), ("stl", _gsi() + _tti(ebn=0x01)), ("stl", _gsi() + _tti(ebn=0xFE) + _tti(cf=1)),
  ("stl", _gsi() + _tti(tci=(0, 0, 1, 99))), ("stl", _gsi() + _tti(tci=(0, 0, 2, 0), tco=(0, 0, 1, 0))), ("stl", _gsi() + _tti(vp=0)), ("stl", _gsi() + _tti(vp=99, jc=9)),
  ("stl", _gsi() + _tti(tf=b"\x8a\x8a\x8a")), ("stl", _gsi() + _tti(tf=b"\xc1")), ("stl", _gsi() + _tti(tf=b"\x0d\x0bA\x8aB\x0a")),
  ("stl", _gsi() + _tti(sn=300) + _tti(sn=300, tci=(0, 0, 3, 0), tco=(0, 0, 4, 0))),
  ("imsc", b""), ("imsc", b"<tt/>"), ("imsc", b"<x/>"), ("imsc", (TT % ("", "")).encode()), ("imsc", (TT % ("", "<body/>")).encode()),
  ("imsc", (TT % ("", "<body><div><p>a<span tts:ruby=\"container\"><span tts:ruby=\"base\">b</span><span tts:ruby=\"text\" end=\"1s\">c</span></span></p></div></body>")).encode()),
  ("imsc", (TT % ("", "<body><div><p><span tts:ruby=\"container\"><span tts:ruby=\"base\"/><span tts:ruby=\"text\"> </span></span></p></div></body>")).encode()),
  ("imsc", (TT % ("", "<body><div><p><span tts:ruby=\"text\">c</span></p></div></body>")).encode()),
  ("imsc", (TT % ("", "<body><div timeContainer=\"seq\"><p>a</p><p>b</p></div></body>")).encode()),
  ("imsc", (TT % (' ttp:frameRate="0"', "<body><div><p begin=\"1f\" end=\"10f\">a</p></div></body>")).encode()),
  ("imsc", (TT % (' ttp:tickRate="0"', "<body><div><p begin=\"1t\">a</p></div></body>")).encode()),
  ("imsc", (TT % (' ttp:frameRateMultiplier="1 0"', "<body><div><p begin=\"10f\" end=\"20f\">a</p></div></body>")).encode()),
  ("imsc", (TT % (' ttp:frameRate="25" ttp:frameRateMultiplier="0 1"', "<body><div><p begin=\"00:00:01:10\" end=\"20f\">a</p></div></body>")).encode()),
  ("imsc", (TT % ("", "<body><div><p begin=\"1.0001s\" end=\"1.0004s\">a</p><p begin=\"1.0004s\" end=\"1.0006s\">b</p></div></body>")).encode()),
  ("imsc", (TT % ("", "<body><div><p>a<br tts:lineHeight=\"125%\" tts:padding=\"1em\" tts:position=\"center\"/>b</p></div></body>")).encode()),
  ("imsc", (TT % (' tts:extent="1920px"', "<body/>")).encode()), ("imsc", (TT % (' tts:extent="a b" ittp:activeArea="1 2 3 4" ttp:cellResolution="0 0"', "<body/>")).encode()),
  ("imsc", (TT % ("", "<head><styling><style xml:id=\"s\" tts:direction=\"AUTO\" tts:textShadow=\"1px\" tts:fontFamily=\"X\" tts:textAlign=\"justify\"/></styling></head><body style=\"s s2\"><div><p>a</p></div></body>")).encode()),
  ("imsc", (TT % ("", "<head><layout><region xml:id=\"r\" tts:extent=\"auto\" tts:origin=\"1px\" tts:position=\"right 10% bottom 10%\" tts:padding=\"1px 2px 3px 4px 5px\"/><region/></layout></head><body region=\"r\"><div region=\"nope\"><p>a</p></div></body>")).encode()),
  ("imsc", (TT % ("", "<body><div><p><set/><set tts:color=\"red\" begin=\"x\"/>a<span><span><span>b</span></span></span></p></div><div><div><div><p>c</p></div></div></div></body>")).encode()),
  ("imsc", (TT % ("", "<body begin=\"-1s\" end=\"99:99:99\" dur=\"1h\"><div begin=\"10s\"><p end=\"5s\">a</p></div></body>")).encode()),
  # intervals shorter than a millisecond whose ends round to different milliseconds (both rounding directions)
  ("imsc", (TT % ("", "<body><div><p begin=\"1.0006s\" end=\"1.0012s\">a</p><p begin=\"2.0004s\" end=\"2.0006s\">b</p><p begin=\"3.0009s\" end=\"3.0011s\">c</p><p begin=\"4s\">d</p></div></body>")).encode()),
  # offsets beyond 2^53 ms (float seconds no longer separate begin and end), bounded and unbounded cues
  ("imsc", (TT % ("", "<body begin=\"100000000000000000000:00:01\"><div><p dur=\"2s\">a</p><p begin=\"3s\">b</p></div></body>")).encode()),
  ("imsc", (TT % ("", "<body begin=\"100000000000000000001:00:01\"><div><p dur=\"2s\">a</p><p begin=\"3s\">b</p></div></body>")).encode()),
  ("imsc", (TT % ("", "<body begin=\"123456789012345678:00:01\"><div><p begin=\"1s\">b</p></div></body>")).encode()),
  # a region with both tts:extent and tts:position (the LCD filter resolves the position against the computed extent)
  ("imsc", (TT % (' tts:extent="640px 480px"', "<head><layout><region xml:id=\"r\" tts:extent=\"80% 20%\" tts:position=\"center bottom 10%\"/><region xml:id=\"q\" tts:extent=\"320px 10c\" tts:position=\"right 5px top 2c\"/></layout></head><body region=\"r\"><div><p>a</p><p region=\"q\">b</p></div></body>")).encode()),
  # deep nesting (the readers, the ISD generator, the LCD filter and the writers are recursive)
  ("imsc", (TT % ("", "<body><div><p>" + "<span>" * 400 + "a" + "</span>" * 400 + "</p></div></body>")).encode()),
  ("imsc", (TT % ("", "<body>" + "<div>" * 400 + "<p>a</p>" + "</div>" * 400 + "</body>")).encode()),
  ("srt", b"1\n00:00:01,000 --> 00:00:02,000\n" + b"<b>" * 1000 + b"x\n"),
  ("vtt", b"WEBVTT\n\n00:01.000 --> 00:02.000\n" + b"<b>" * 1000 + b"x\n"),
  # loops in chained style references: a style that lists itself, two that list each other, a loop of three entered from outside
  ("imsc", (TT % ("", "<head><styling><style xml:id=\"s0\" style=\"s0\" tts:color=\"red\"/></styling></head><body style=\"s0\"><div><p>a</p></div></body>")).encode()),
  ("imsc", (TT % ("", "<head><styling><style xml:id=\"s0\" style=\"s1\"/><style xml:id=\"s1\" style=\"s0 s1\" tts:color=\"red\"/></styling></head><body><div><p style=\"s1\">a</p></div></body>")).encode()),
  ("imsc", (TT % ("", "<head><styling><style xml:id=\"a\" style=\"b\"/><style xml:id=\"b\" style=\"c\"/><style xml:id=\"c\" style=\"d a\"/><style xml:id=\"d\" style=\"b\"/><style xml:id=\"e\" style=\"a\"/></styling><layout><region xml:id=\"r\" style=\"e\"/></layout></head><body region=\"r\"><div><p>a</p></div></body>")).encode()),
  # timeContainer on the elements whose implicit duration is indefinite (region, br, set), with children
  ("imsc", (TT % ("", "<head><layout><region xml:id=\"r\" timeContainer=\"seq\"><set tts:backgroundColor=\"red\" dur=\"1s\"/><set tts:backgroundColor=\"blue\" dur=\"1s\"/></region></layout></head><body region=\"r\"><div><p end=\"3s\">a<br timeContainer=\"seq\"><set tts:color=\"red\" dur=\"1s\"/></br>b<set timeContainer=\"seq\" tts:color=\"red\"><metadata/></set></p></div></body>")).encode()),
  ("imsc", (TT % ("", "<head><layout><region xml:id=\"r\" timeContainer=\"seq\" begin=\"1s\"><style tts:color=\"red\"/><set tts:opacity=\"0\" end=\"1s\"/></region></layout></head><body timeContainer=\"seq\"><div region=\"r\" timeContainer=\"seq\"><p>a<br/>b</p><p dur=\"1s\">c</p></div></body>")).encode()),
]


def catalog_chunks(tier, seed):
  return [(i, min(i + 8, len(CATALOG))) for i in range(0, len(CATALOG), 8)]


def catalog_cases(chunk):
  for i in range(*chunk):
    reader, data, *rest = CATALOG[i]
    yield {"reader": reader, "data": data, "origin": "catalog", "mutations": ["catalog"], "rcfg": rest[0] if rest else 0}


PARTS = {
  r: Part(r, check, strategy=cases(r), n=(800 if r != "imsc" else 640, 64000), shrinker=shrinker, budget=(150, 2400),
          required_labels=(r + ":document", "mutated", "verbatim"))
  for r in READERS
}
def atheris_chunks(tier, seed):
  """one coverage-guided campaign per reader, thorough tier only (atheris is installed into .deps by tools/setup.sh)"""
  if tier != "thorough":
    return []
  secs = int(os.environ.get("VT_ATHERIS_SECONDS", "300"))
  return [(r, seed, secs) for r in READERS]


def atheris_campaign(chunk):
  import base64
  import json
  import shutil
  import subprocess
  import sys
  import tempfile
  from vt.run import Acc, Res
  reader, seed, secs = chunk
  acc = Acc()
  home = os.environ.get("VT_HOME") or os.path.dirname(os.path.dirname(os.path.dirname(os.path.abspath(__file__))))
  try:
    sys.path.insert(0, os.path.join(home, ".deps"))
    import atheris  # noqa: F401  pylint: disable=unused-import
  except Exception:  # pylint: disable=broad-except
    acc.labels["atheris:not-installed"] += 1
    return acc
  tmp = tempfile.mkdtemp(prefix="vt-atheris-")
  try:
    corpus = os.path.join(tmp, "corpus")
    os.makedirs(corpus)
    seeds = list(CORPUS[reader][:20]) + [c[1] for c in CATALOG if c[0] == reader]
    for i, d in enumerate(seeds):
      with open(os.path.join(corpus, "seed%03d" % i), "wb") as f:
        f.write(d)
    out = os.path.join(tmp, "out.json")
    # libFuzzer dictionary: the mutation tokens of the reader and the short-payload alphabet (multi-byte magic such as "<![" or
    # "-->" is out of reach of byte-level mutation, and coverage feedback does not see through the C regular-expression engine)
    dict_path = os.path.join(tmp, "tokens.dict")
    with open(dict_path, "w") as f:
      for tok in sorted(set(DICT.get(reader, [])) | (set(SHORT_ALPHABET) if reader in ("srt", "vtt") else set())):
        b = tok.encode("utf-8")
        if b:
          f.write('"%s"\n' % "".join("\\x%02x" % c for c in b))
    cmd = [sys.executable, "-m", "vt.fuzz.atheris_target", reader, out, corpus, "-dict=" + dict_path, "-max_total_time=%d" % secs, "-max_len=8192",
           "-seed=%d" % (seed + 1), "-timeout=60", "-rss_limit_mb=4096", "-verbosity=0", "-print_final_stats=0"]
    subprocess.run(cmd, cwd=home, stdout=subprocess.DEVNULL, stderr=subprocess.DEVNULL, timeout=secs + 300, check=False)
    try:
      with open(out) as f:
        result = json.load(f)
    except Exception:  # pylint: disable=broad-except
      acc.labels["atheris:no-result:" + reader] += 1
      return acc
    acc.evaluations += result["executions"]
    acc.labels["atheris:executions:" + reader] += result["executions"]
    acc.nt_counted += result.get("documents", 0)      # inputs for which the reader returned a document
    acc.labels["atheris:documents:" + reader] += result.get("documents", 0)
    for bucket, v in result["buckets"].items():
      res = Res()
      res.fail(bucket, v["detail"])
      acc.add({"reader": reader, "data": base64.b64decode(v["data"]), "origin": "atheris", "mutations": ["atheris"]}, res)
      acc.evaluations -= 1
    return acc
  finally:
    shutil.rmtree(tmp, ignore_errors=True)


# every short cue payload (up to 3 / 4 tokens) over the characters and a few tokens that steer the text parsers (html.parser for SubRip, the WebVTT tokenizer): a finite
# domain, enumerated; reader plus snapshots only (light mode), the writers see these documents through the Hypothesis parts
SHORT_ALPHABET = list("<![]>-?/a &;#x=\"'\n{}.") + ["<![", "]>", "--", "foo", "<i>", "</", "00:01.500"]
SHORT_HEAD = {"srt": "1\n00:00:01,000 --> 00:00:02,000\n", "vtt": "WEBVTT\n\n00:01.000 --> 00:02.000\n"}


def short_chunks(tier, seed):
  return [(r, c, 2 if tier == "quick" else 3) for r in ("srt", "vtt") for c in SHORT_ALPHABET]


def short_campaign(chunk):
  reader, first, depth = chunk
  acc = Acc()
  k = 0
  for n in range(depth + 1):
    for tail in itertools.product(SHORT_ALPHABET, repeat=n):
      payload = first + "".join(tail)
      case = {"reader": reader, "data": (SHORT_HEAD[reader] + payload + "\n").encode(), "origin": "short-payload", "mutations": ["short-payload"]}
      res = run_check(lambda c, r: run_case(c, r, 30, light=True), case)
      acc.evaluations += 1
      if res.fails:
        acc.evaluations -= 1
        acc.add(case, res)
      elif res.nontrivial:
        acc.nt_counted += 1
        if k < 1 and n == depth:
          acc.samples.append({"reader": reader, "payload": payload})
          k += 1
  acc.labels["short-payload:" + reader] += acc.evaluations
  return acc


PARTS["short_payloads"] = Part("short_payloads", check, chunks=short_chunks, fast_check=short_campaign, exhaustive=(True, True))
PARTS["atheris"] = Part("atheris", check, chunks=atheris_chunks, fast_check=atheris_campaign)
PARTS["catalog"] = Part("catalog", check, chunks=catalog_chunks, cases=catalog_cases, exhaustive=(True, True))
