"""C17 - every 16-bit CEA-608 word is decoded totally, unambiguously and per the standard."""
from hypothesis import strategies as st

from ttconv.scc.word import SccWord
from ttconv.scc.codes.attribute_codes import SccAttributeCode
from ttconv.scc.codes.control_codes import SccControlCode
from ttconv.scc.codes.extended_characters import SccExtendedCharacter
from ttconv.scc.codes.mid_row_codes import SccMidRowCode
from ttconv.scc.codes.preambles_address_codes import SccPreambleAddressCode
from ttconv.scc.codes.special_characters import SccSpecialCharacter
from ttconv.scc.disassembly import get_scc_word_disassembly
from ttconv.scc.line import SccLine
import ttconv.style_properties as styles

from vt import ref_608 as ref
from vt.run import Part

ID = "C17"
LEVEL = "exploration"
RULE = ("words part: all 65,536 two-byte values enumerated (exhaustive in both tiers); a case is distinct by construction and "
        "non-trivial when its parity-stripped value is itself (16,384 such) - the other three parity variants of each are checked for "
        "invariance. lines part: Hypothesis SCC lines of 1-4 words (class-stratified) with DF/NDF time codes; non-trivial = line with "
        ">= 2 words of different classes, distinct by line hash.")
ASSUMPTIONS = [
  "reference table vt/ref_608.py written from CEA-608-E / 47 CFR 15.119 bit patterns",
  "seven extended-character cells and the solid block whose Unicode rendering is conventional accept a small set of alternatives",
  "printable pairs whose second byte is a C0 control (01-1F) are not asserted for text (not valid 608 data)",
]

CLASS_OF = [(SccPreambleAddressCode, "pac"), (SccMidRowCode, "midrow"), (SccControlCode, "control"), (SccAttributeCode, "attr"),
            (SccSpecialCharacter, "special"), (SccExtendedCharacter, "extended")]


def color_class(c):
  if c is None:
    return None
  rgb = tuple(c.components[:3])
  for name, v in ref.RGB.items():
    if rgb in v:
      return name
  return "rgb%r" % (rgb,)


def got_class(w):
  s = w.value
  code = w.get_code()
  if s == 0:
    return "null"
  if w.byte_1 >= 0x20:
    return "text"
  if code is None:
    return "unknown"
  for cls, name in CLASS_OF:
    if isinstance(code, cls):
      return name
  return "other:" + type(code).__name__


def char_ok(got, exp):
  return got == exp or got in ref.ALTERNATIVES.get(exp, "") or (exp == " " and got in (" ", " "))


def describe(w):
  """observable decoding of a word, for the parity-invariance comparison"""
  code = w.get_code()
  ch = w.get_channel()
  d = [got_class(w), w.value, None if ch is None else ch.value, w.to_text() if w.byte_1 >= 0x20 else None,
       get_scc_word_disassembly(w), get_scc_word_disassembly(w, True)]
  if isinstance(code, SccPreambleAddressCode):
    d.append((code.get_row(), code.get_indent(), code.get_color(), code.get_font_style(), code.get_text_decoration()))
  else:
    d.append(code)
  return d


def check_word(case, res):
  v = case["v"]
  s = v & 0x7F7F
  w = SccWord.from_value(v)
  cls, chan, info = ref.classify(s)
  res.nontrivial = v == s
  res.label("class:" + cls)
  if w.value != s:
    res.fail("parity-not-stripped", "word %04x decoded value %04x" % (v, w.value))
  if v != s and describe(w) != describe(SccWord.from_value(s)):
    res.fail("parity-variant-differs:" + cls, "%04x vs %04x: %r / %r" % (v, s, describe(w), describe(SccWord.from_value(s))))
  hexs = "%04x" % v
  ws = SccWord.from_str(hexs)
  if (ws.value, ws.get_code()) != (w.value, w.get_code()) and not isinstance(w.get_code(), SccPreambleAddressCode):
    res.fail("from_str-differs", hexs)
  wb = SccWord.from_bytes(v >> 8, v & 0xFF)
  if wb.value != w.value:
    res.fail("from_bytes-differs", hexs)
  got = got_class(w)
  # exactly one class: evaluate all six finders
  if 0x10 <= (s >> 8) <= 0x1F:
    finders = [SccControlCode.find(s), SccAttributeCode.find(s), SccMidRowCode.find(s),
               SccPreambleAddressCode.find(s >> 8, s & 0xFF), SccSpecialCharacter.find(s), SccExtendedCharacter.find(s)]
    n = sum(x is not None for x in finders)
    if n > 1:
      res.fail("ambiguous-class", "%04x matches %d code tables" % (s, n))
    if (n == 0) != (cls == "unknown"):
      res.fail("class:%s-as-%s" % (cls, "unknown" if n == 0 else "code"), "%04x" % s)
  else:
    for f in (SccControlCode.find, SccAttributeCode.find, SccMidRowCode.find, SccSpecialCharacter.find, SccExtendedCharacter.find):
      if f(s) is not None:
        res.fail("code-outside-10-1F", "%04x found by %s" % (s, f.__qualname__))
    if w.get_code() is not None:
      res.fail("code-outside-10-1F", "%04x get_code() = %r" % (s, w.get_code()))
  if got != cls:
    res.fail("class:%s-as-%s" % (cls, got), "%04x" % s)
    return
  gch = w.get_channel()
  gch = None if gch is None else gch.value
  if cls in ("pac", "midrow", "special", "extended", "control", "attr"):
    if gch != chan:
      res.fail("channel:%s" % cls, "%04x channel %r expected %r" % (s, gch, chan))
  elif gch is not None:
    res.fail("channel:%s" % cls, "%04x channel %r expected none" % (s, gch))
  code = w.get_code()
  dis = get_scc_word_disassembly(w)
  disc = get_scc_word_disassembly(w, True)
  if not dis or not disc:
    res.fail("disassembly-empty:" + cls, "%04x" % s)
  if cls == "pac":
    if code.get_row() != info["row"]:
      res.fail("pac-row", "%04x row %r expected %d" % (s, code.get_row(), info["row"]))
    if (code.get_indent() or 0) != info["indent"]:
      res.fail("pac-indent", "%04x indent %r expected %d" % (s, code.get_indent(), info["indent"]))
    if (code.get_font_style() is styles.FontStyleType.italic) != info["italic"]:
      res.fail("pac-italic", "%04x" % s)
    td = code.get_text_decoration()
    if bool(td is not None and td.underline) != info["underline"]:
      res.fail("pac-underline", "%04x" % s)
    cc = color_class(code.get_color())
    if (s & 0x10) == 0:
      if cc != info["color"]:
        res.fail("pac-color", "%04x color %r expected %s" % (s, cc, info["color"]))
    elif cc not in (None, "white"):
      res.fail("pac-color", "%04x indent PAC color %r expected white" % (s, cc))
    if not (dis.startswith("{%02d" % info["row"]) and dis.endswith("}")):
      res.fail("disassembly-shape:pac", "%04x -> %r" % (s, dis))
    if info["indent"] > 0 and dis != "{%02d%02d}" % (info["row"], info["indent"]):
      res.fail("disassembly-shape:pac", "%04x -> %r" % (s, dis))
  elif cls == "midrow":
    it = code.get_font_style() is styles.FontStyleType.italic
    td = code.get_text_decoration()
    if it != info["italic"]:
      res.fail("midrow-italic", "%04x" % s)
    if bool(td is not None and td.underline) != info["underline"]:
      res.fail("midrow-underline", "%04x" % s)
    if color_class(code.get_color()) != info["color"]:
      res.fail("midrow-color", "%04x color %r expected %r" % (s, color_class(code.get_color()), info["color"]))
  elif cls == "attr":
    if code.is_background() != info["background"]:
      res.fail("attr-background", "%04x" % s)
    col = code.get_color()
    alpha = {255: "opaque", 0: "transparent"}.get(col.components[3], "semi")
    if alpha != info["alpha"]:
      res.fail("attr-alpha", "%04x alpha %r expected %s" % (s, col.components[3], info["alpha"]))
    if info["color"] is not None and color_class(col) != info["color"]:
      res.fail("attr-color", "%04x color %r expected %s" % (s, color_class(col), info["color"]))
    td = code.get_text_decoration()
    if bool(td is not None and td.underline) != info["underline"]:
      res.fail("attr-underline", "%04x" % s)
    # the rendering of a background attribute names its colour with the token the mid-row code of that colour is rendered with
    if info["background"] and info["color"] in MIDROW_WORD and info["alpha"] != "transparent":
      tok = get_scc_word_disassembly(SccWord.from_value(MIDROW_WORD[info["color"]]))[1:-1]
      if dis != "{B%s%s}" % (tok, "S" if info["alpha"] == "semi" else ""):
        res.fail("disassembly-shape:attr-colour", "%04x -> %r, expected the colour token %r of the mid-row code" % (s, dis, tok))
  elif cls == "control":
    if code.get_name() != info:
      res.fail("control-name", "%04x name %r expected %s" % (s, code.get_name(), info))
    if dis != "{%s}" % info:
      res.fail("disassembly-shape:control", "%04x -> %r" % (s, dis))
  elif cls in ("special", "extended"):
    u = code.get_unicode_value()
    if not char_ok(u, info):
      res.fail("char:" + cls, "%04x -> %r expected %r" % (s, u, info))
    if dis != u:
      res.fail("disassembly-shape:" + cls, "%04x -> %r" % (s, dis))
  elif cls == "text":
    b1, b2 = s >> 8, s & 0xFF
    if b2 == 0 or b2 >= 0x20:
      exp = "".join(ref.std_char(b) for b in (b1, b2) if b)
      t = w.to_text()
      if len(t) != len(exp) or not all(char_ok(a, b) for a, b in zip(t, exp)):
        res.fail("char:standard", "%04x -> %r expected %r" % (s, t, exp))
      if dis != t:
        res.fail("disassembly-shape:text", "%04x -> %r" % (s, dis))
  elif cls == "null":
    if dis != "{}":
      res.fail("disassembly-shape:null", "%04x -> %r" % (s, dis))
  elif cls == "unknown":
    if not (dis.startswith("{") and dis.endswith("}")):
      res.fail("disassembly-shape:unknown", "%04x -> %r" % (s, dis))
  if cls in ("pac", "midrow", "attr", "control") and not (dis.startswith("{") and dis.endswith("}") and disc.startswith("{") and disc.endswith("}")):
    res.fail("disassembly-shape:" + cls, "%04x -> %r / %r" % (s, dis, disc))
  if chan is not None and cls in ("pac", "midrow", "attr", "control", "special", "extended") and ("CC%d" % chan) not in disc:
    res.fail("disassembly-channel:" + cls, "%04x -> %r" % (s, disc))


MIDROW_WORD = {"white": 0x1120, "green": 0x1122, "blue": 0x1124, "cyan": 0x1126, "red": 0x1128, "yellow": 0x112A, "magenta": 0x112C}


def word_chunks(tier, seed):
  return [(a, a + 4096) for a in range(0, 65536, 4096)]


def word_cases(chunk):
  for v in range(*chunk):
    yield {"v": v}


# ---- lines

def with_parity(b):
  return b | 0x80 if bin(b).count("1") % 2 == 0 else b


def word_strategy():
  ctrl_b1 = st.integers(0x10, 0x1F)
  classes = st.one_of(
    st.tuples(st.integers(0x20, 0x7F), st.integers(0x20, 0x7F)),           # text
    st.tuples(ctrl_b1, st.integers(0x40, 0x7F)),                            # PAC space
    st.tuples(st.sampled_from([0x11, 0x19]), st.integers(0x20, 0x3F)),      # mid-row / special
    st.tuples(st.sampled_from([0x12, 0x13, 0x1A, 0x1B]), st.integers(0x20, 0x3F)),
    st.tuples(st.sampled_from([0x14, 0x15, 0x1C, 0x1D, 0x17, 0x1F, 0x10, 0x18]), st.integers(0x20, 0x2F)),
    st.just((0, 0)),
    st.tuples(st.integers(0, 0x7F), st.integers(0, 0x7F)),
  )
  return st.tuples(classes, st.sampled_from(["odd", "none", "raw"]), st.integers(0, 3)).map(
    lambda t: ((with_parity(t[0][0]) << 8 | with_parity(t[0][1])) if t[1] == "odd" else
               (t[0][0] << 8 | t[0][1]) if t[1] == "none" else
               ((t[0][0] | (0x80 if t[2] & 1 else 0)) << 8 | (t[0][1] | (0x80 if t[2] & 2 else 0)))))


def line_strategy(tier):
  tc = st.tuples(st.integers(0, 23), st.integers(0, 59), st.integers(0, 59), st.integers(0, 29), st.sampled_from([":", ";"]))
  return st.builds(lambda t, ws, upper, sep: {"tc": "%02d:%02d:%02d%s%02d" % (t[0], t[1], t[2], t[4], t[3]), "words": ws, "upper": upper, "sep": sep},
                   tc, st.lists(word_strategy(), min_size=1, max_size=4), st.booleans(), st.sampled_from([" ", "  "]))


def check_line(case, res):
  fmt = "%04X" if case["upper"] else "%04x"
  text = case["tc"] + "\t" + case["sep"].join(fmt % w for w in case["words"])
  line = SccLine.from_str(text)
  if line is None:
    res.fail("line-not-parsed", text)
    return
  if [w.value for w in line.scc_words] != [w & 0x7F7F for w in case["words"]]:
    res.fail("line-words", "%r -> %r" % (text, [hex(w.value) for w in line.scc_words]))
    return
  classes = [ref.classify(w & 0x7F7F)[0] for w in case["words"]]
  res.nontrivial = len(set(classes)) >= 2
  res.label("line-words:%d" % len(classes))
  for show in (False, True):
    d = line.to_disassembly(show)
    head, sep, body = d.partition("\t")
    if head != case["tc"] or not sep:
      res.fail("line-disassembly-timecode", "%r -> %r" % (text, d))
    toks = [get_scc_word_disassembly(SccWord.from_value(w), show) for w in case["words"]]
    if any(not t for t in toks):
      res.fail("line-disassembly-empty-token", "%r -> %r" % (text, toks))
    if body != "".join(toks):
      res.fail("line-disassembly-not-word-local", "%r -> %r expected %r" % (text, body, "".join(toks)))


def one_word_line_chunks(tier, seed):
  return [(a, a + 8192) for a in range(0, 65536, 8192)]


def one_word_line_cases(chunk):
  for v in range(*chunk):
    yield {"tc": "01:02:03:04" if v % 2 else "01:02:03;04", "words": [v], "upper": bool(v & 4), "sep": " "}


# ---- words that are not channel-1 field-1 data, inside a channel-1 caption ("only channel-1 field-1 data is ever decoded")

def foreign_chunks(tier, seed):
  return [(a, a + 2048) for a in range(0, 32768, 2048)]


def foreign_cases(chunk):
  for v in range(*chunk):
    s7 = (v >> 7) << 8 | (v & 0x7F)        # the 2^14 seven-bit words, parity stripped
    if s7 == 0:
      continue
    c = ref.classify(s7)
    if c[0] == "unknown" or (c[0] in ("pac", "midrow", "attr", "control", "special", "extended") and c[1] != 1):
      yield {"w": s7, "parity": bool(v & 1)}


def check_foreign(case, res):
  """a pop-on caption 'AB' <w> 'CD': whatever the reader makes of the words that follow w, nothing of w itself reaches the caption -
  the text shown is made of the characters A B C D, in that order"""
  from ttconv.scc.reader import to_model
  w = case["w"]
  cls = ref.classify(w)
  res.label("foreign:" + (cls[0] if cls[0] == "unknown" else "channel-2" if cls[1] == 2 else "field-2"))
  word = "%04x" % ((with_parity(w >> 8) << 8 | with_parity(w & 0xFF)) if case["parity"] else w)
  text = "Scenarist_SCC V1.0\n\n00:00:00:00\t9420 9420 9470 9470 c1c2 %s 43c4 942f 942f\n\n00:00:02:00\t942c 942c\n" % word
  try:
    doc = to_model(text)
  except Exception as e:  # pylint: disable=broad-except
    res.crash(e, "reader:")
    return
  shown = ""
  body = doc.get_body() if doc is not None else None
  from ttconv import model as _m
  if body is not None:
    shown = "".join(e.get_text() for e in body.dfs_iterator() if isinstance(e, _m.Text))
  it = iter("ABCD")
  if not all(ch in it for ch in shown.replace(" ", "")):
    res.fail("foreign-word-decoded:" + cls[0], "%s inside a channel-1 caption: the document shows %r" % (word, shown))
  res.nontrivial = True
  # a channel-2 / field-2 code sent right after its channel-1 twin (sent once) is not the twin's second transmission: the text after
  # it belongs to the other channel
  if cls[0] in ("pac", "midrow", "attr", "control") and cls[1] != 1:
    twin = w & ~0x0800 if cls[1] == 2 else (w & ~0x0900)
    if ref.classify(twin)[0] == cls[0] and ref.classify(twin)[1] == 1:
      res.label("foreign:after-its-channel-1-twin")
      tw = "%04x" % ((with_parity(twin >> 8) << 8 | with_parity(twin & 0xFF)) if case["parity"] else twin)
      text = "Scenarist_SCC V1.0\n\n00:00:00:00\t9420 9420 9470 9470 %s %s c1c2 942f 942f\n\n00:00:02:00\t942c 942c\n" % (tw, word)
      try:
        doc = to_model(text)
      except Exception as e:  # pylint: disable=broad-except
        res.crash(e, "reader:")
        return
      body = doc.get_body() if doc is not None else None
      shown = "" if body is None else "".join(e.get_text() for e in body.dfs_iterator() if isinstance(e, _m.Text))
      if shown.strip(" ") != "":
        res.fail("foreign-code-taken-for-retransmission:" + cls[0], "%s %s AB: the document shows %r" % (tw, word, shown))


PARTS = {
  "foreign": Part("foreign", check_foreign, chunks=foreign_chunks, cases=foreign_cases, exhaustive=(True, True)),
  "words": Part("words", check_word, chunks=word_chunks, cases=word_cases, exhaustive=(True, True)),
  "lines1": Part("lines1", check_line, chunks=one_word_line_chunks, cases=one_word_line_cases, exhaustive=(True, True)),
  "lines": Part("lines", check_line, strategy=line_strategy, n=(6000, 1000000)),
}
