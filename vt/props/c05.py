"""C05 - writing a document as IMSC and reading it back presents identically."""
import io
import logging
import re
import xml.etree.ElementTree as et
from fractions import Fraction

from hypothesis import strategies as st

from ttconv.isd import ISD
import ttconv.imsc.writer as imsc_writer
import ttconv.imsc.reader as imsc_reader
from ttconv.imsc.config import IMSCWriterConfiguration
from ttconv.imsc.attributes import TimeExpressionSyntaxEnum

from vt.ref_isd import INHERITED
from vt import gen_model, codec, canon
from vt.ref_isd import Ref
from vt.run import Part

ID = "C05"
LEVEL = "exploration"
RULE = ("Hypothesis DocSpecs (every element kind incl. ruby delimiters, all 36 style properties in every value form incl. none / normal / "
        "transparent, animation steps, regions, initial values, xml:space / xml:lang variations, adjacent text nodes - labelled) x "
        "{no config, clock_time, frames, clock_time_with_frames} x fps {24,25,30,50,60,24000/1001,30000/1001}; two time profiles: exact "
        "(every time a multiple of the syntax's unit) and rounding (arbitrary rationals). evaluations = (document, configuration) round "
        "trips; non-trivial = document with >= 1 ruby, >= 1 animation step, >= 1 special style value and >= 3 distinct non-zero times "
        "under a non-default configuration; distinct by case hash.")
ASSUMPTIONS = [
  "equality is observed through snapshots (ttconv ISDs of both documents at the reference's probe times, numbers to 6 significant "
  "digits) and static structure, not byte-level XML; adjacent text nodes are compared concatenated",
  "text restricted to XML 1.0 Chars other than CR (CR cannot survive a conformant XML parser)",
  "documented configuration errors (frames / clock_time_with_frames without fps, clock_time_with_frames with non-integer fps) are "
  "classified 'configuration rejected', not failures",
  "numeric style values outside [1e-4, 1e5] (where %g switches to exponent notation) are not generated",
]

FPS = [Fraction(24), Fraction(25), Fraction(30), Fraction(50), Fraction(60), Fraction(24000, 1001), Fraction(30000, 1001)]
FORMATS = [None, "clock_time", "frames", "clock_time_with_frames"]
PROF = gen_model.profile(style_density=(0, 4), max_nodes=24, br_styles=True, arbitrary_times=False, anim_on_offset=True,
                         xml_safe=True, text_unicode=False, anim_counts=(0, 0, 1, 2), time_density=3, edges=True, ruby_full=True, extreme_numbers=True,
                         time_shifts=[Fraction(0), Fraction(0), Fraction(59), Fraction(3599), Fraction(86399), Fraction(359990)])
# times just below a minute / an hour that are not millisecond multiples: rounding to the written unit carries into the next field
PROF_ROUND = gen_model.profile(**dict(PROF, arbitrary_times=True, max_nodes=16,
                                      time_shifts=[Fraction(0), Fraction(0), Fraction(599996, 10000), Fraction(35999996, 10000),
                                                   Fraction(1199995, 10000), Fraction(59), Fraction(3599), Fraction(8639999, 100)]))
SHRINK = gen_model.case_simplifications("spec")


def unit_of(cfg):
  fmt, fps = cfg
  if fmt in ("frames", "clock_time_with_frames") and fps is not None:
    return 1 / fps
  if fmt is None and fps is not None:
    return 1 / fps          # fps alone selects the frames syntax
  return Fraction(1, 1000)


def scale_times(spec, unit):
  """maps the lattice times k/6 to k * unit * m: every time becomes an exact multiple of the syntax's unit"""
  m = 125 if unit == Fraction(1, 1000) else 1

  def f(t):
    return None if t is None else (t * 6) * unit * m if (t * 6).denominator == 1 else None

  for n in gen_model.all_nodes(spec):
    if n["kind"] == "text":
      continue
    if n["kind"] != "br":
      n["begin"], n["end"] = f(n["begin"]), f(n["end"])
    n["anims"] = [(k, f(b), f(e), v) for (k, b, e, v) in n["anims"]]
  return spec


import ttconv.style_properties as styles

RED = styles.ColorType((255, 0, 0, 255))
TRANSPARENT = styles.NamedColors.transparent.value
SPECIAL_OVERRIDES = [
  ("BackgroundColor", RED, TRANSPARENT),
  ("TextOutline", styles.TextOutlineType(styles.LengthType(10, styles.LengthType.Units.pct), RED), styles.SpecialValues.none),
  ("TextShadow", styles.TextShadowType((styles.TextShadowType.Shadow(styles.LengthType(1, styles.LengthType.Units.px),
                                                                       styles.LengthType(1, styles.LengthType.Units.px)),)),
   styles.SpecialValues.none),
  ("LineHeight", styles.LengthType(150, styles.LengthType.Units.pct), styles.SpecialValues.normal),
  ("TextEmphasis", styles.TextEmphasisType(styles.TextEmphasisType.Style.open_dot, None, styles.TextEmphasisType.Position.before),
   styles.SpecialValues.none),
  ("RubyReserve", styles.RubyReserveType(styles.RubyReserveType.Position.both, None), styles.SpecialValues.none),
]


def steer_special(spec, choice):
  """built on purpose: a special value (transparent / none / normal) that overrides a visible one, through specification over an
  initial value (variant 0) or through an animation step over a specified value (variant 1)"""
  if choice is None or spec["body"] is None:
    return spec
  k, variant = choice
  name, visible, special = SPECIAL_OVERRIDES[k]
  targets = [n for n in gen_model.walk(spec["body"]) if n["kind"] in ("p", "span") and n["kids"]]
  if not targets:
    return spec
  n = targets[0]
  n["anims"] = [a for a in n["anims"] if a[0] != name]
  if variant == 0:
    spec["initials"][name] = visible
    n["styles"][name] = special
  else:
    n["styles"][name] = visible
    n["anims"].append((name, None, None, special))
  return spec


_REL_SIZES = [styles.LengthType(50, styles.LengthType.Units.pct), styles.LengthType(2, styles.LengthType.Units.em),
              styles.LengthType(150, styles.LengthType.Units.pct)]


def repeat_parent_styles(spec, n):
  """up to n elements specify again, with the same value, a style property their parent specifies: redundant for absolute values, not
  for values relative to the parent (fontSize 50% inside 50%) or when the parent's property is animated"""
  if spec["body"] is None or not n:
    return spec
  done = 0

  def w(node):
    nonlocal done
    for kid in node["kids"]:
      if kid["kind"] != "text":
        if done < n and kid["kind"] != "br":
          if done % 2 == 0:
            # a font size relative to the parent's, the same on parent and child
            v = _REL_SIZES[done // 2 % len(_REL_SIZES)]
            node["styles"]["FontSize"] = v
            kid["styles"]["FontSize"] = v
            done += 1
          else:
            for name in sorted(node["styles"], key=lambda x: (x not in INHERITED, x)):
              if name not in kid["styles"]:
                kid["styles"][name] = node["styles"][name]
                done += 1
                break
        w(kid)

  w(spec["body"])
  return spec


def anonymous_animated_span(spec, on):
  """a paragraph whose only child is a span without xml:id, timing, region, styles or xml:space / xml:lang of its own - the span the
  reader creates for the text of <p>text</p> - but carrying an animation step, which the writer must still write"""
  if not on or spec["body"] is None:
    return spec
  ps = [n for n in gen_model.walk(spec["body"]) if n["kind"] == "p"]
  if not ps:
    return spec
  p = ps[(on - 1) % len(ps)]
  p["kids"] = [dict(kind="span", id="anon%d" % on, anon=True, begin=None, end=None, region=None, styles={},
                    anims=[("Color", None, None, styles.ColorType((255, 0, 0, 255)))], space=p["space"], lang=p["lang"],
                    kids=[dict(kind="text", id=None, begin=None, end=None, region=None, styles={}, anims=[], kids=[], space="default", lang="",
                               text="w%d" % (900 + on))])]
  return spec


def cases(prof, exact):
  def strat(tier):
    cfgs = st.tuples(st.sampled_from(FORMATS), st.one_of(st.none(), st.sampled_from(FPS)))
    choice = st.one_of(st.none(), st.tuples(st.integers(0, len(SPECIAL_OVERRIDES) - 1), st.integers(0, 1)))
    return st.builds(lambda spec, cfg, ch, rep, anon: {"spec": anonymous_animated_span(repeat_parent_styles(steer_special(
      scale_times(spec, unit_of(cfg)) if exact else spec, ch), rep), anon), "cfg": cfg, "exact": exact},
                     gen_model.docspecs(prof), cfgs, choice, st.sampled_from([0, 0, 1, 2, 4]), st.sampled_from([0, 0, 0, 0, 0, 1, 2]))
  return strat


def make_config(cfg):
  fmt, fps = cfg
  if fmt is None and fps is None:
    return None
  return IMSCWriterConfiguration(time_format=None if fmt is None else TimeExpressionSyntaxEnum[fmt], fps=fps)


class Capture(logging.Handler):
  def __init__(self):
    super().__init__(level=logging.WARNING)
    self.records = []

  def emit(self, record):
    self.records.append(record)


def read_back(data):
  """parses the bytes with the IMSC reader, capturing ttconv log records of level >= WARNING"""
  cap = Capture()
  root = logging.getLogger("ttconv")
  old_level = root.level
  root.addHandler(cap)
  root.setLevel(logging.WARNING)
  logging.disable(logging.NOTSET)
  try:
    doc = imsc_reader.to_model(et.ElementTree(et.fromstring(data)))
  finally:
    logging.disable(logging.CRITICAL)
    root.removeHandler(cap)
    root.setLevel(old_level)
  return doc, cap.records


def merge_text(c):
  """canonical element with adjacent text nodes concatenated and element ids dropped (the reader does not keep xml:id of content
  elements, and ids do not affect presentation); region ids are kept"""
  if c[0] == "text":
    return c
  if c[0] == "br":
    return ("br", None, c[2])
  if c[0] != "region":
    c = (c[0], None) + c[2:]
  kids = []
  for k in c[5]:
    k = merge_text(k)
    if k[0] == "text" and kids and kids[-1][0] == "text":
      kids[-1] = ("text", kids[-1][1] + k[1])
    else:
      kids.append(k)
  return c[:5] + (tuple(kids),)


IMSC_DEFAULT_FAMILY = {"GenericFontFamilyType.default": "GenericFontFamilyType.monospaceSerif"}   # IMSC 1.1: default == monospaceSerif


def approx(a, b, path, out):
  """structural comparison with numbers agreeing to 6 significant digits; appends the first difference path to out"""
  if out:
    return
  if isinstance(a, tuple) and isinstance(b, tuple):
    if len(a) != len(b):
      out.append(path + ":length")
      return
    for i, (x, y) in enumerate(zip(a, b)):
      approx(x, y, path + "/" + (str(x[0]) if isinstance(x, tuple) and x and isinstance(x[0], str) else str(i)), out)
    return
  if isinstance(a, float) and isinstance(b, float):
    tol = 1e-5 * max(abs(a), abs(b), 1e-3)
    if re.search(r"/(Origin|Position|Extent)/", path + "/"):
      # computed geometry combines several written lengths (origin = 100 - extent - offset for right / bottom edges): each is written
      # with 6 significant digits, i.e. an absolute error of up to 5e-6 x its own magnitude (a few hundred rw at most), which
      # cancellation can make large relative to the result
      tol += 2e-3
    if abs(a - b) > tol:
      out.append(path + ":%r!=%r" % (a, b))
    return
  if a != b and IMSC_DEFAULT_FAMILY.get(a, a) != IMSC_DEFAULT_FAMILY.get(b, b):
    out.append(path + ":%r!=%r" % (a, b))


def diff_bucket(path):
  """stable bucket feature from a difference path: the style property or structural aspect that differs"""
  m = re.findall(r"/([A-Z][A-Za-z]+)(?=[/:])", path)
  if m:
    return "style:" + m[-1]
  if "text" in path:
    return "text"
  return "structure"


TIME_ATTR = re.compile(r'^(?:(\d+):(\d\d):(\d\d)(?:\.(\d+)|:(\d+))?|(\d+)f)$')


def eval_time(s, fps):
  m = TIME_ATTR.match(s)
  if not m:
    return None
  if m.group(6) is not None:
    return Fraction(int(m.group(6))) / fps
  t = Fraction(int(m.group(1)) * 3600 + int(m.group(2)) * 60 + int(m.group(3)))
  if m.group(4):
    t += Fraction(int(m.group(4)), 10 ** len(m.group(4)))
  if m.group(5):
    t += Fraction(int(m.group(5))) / fps
  return t


def static_structure(spec):
  out = []
  for n in gen_model.all_nodes(spec):
    if n["kind"] != "text":
      out.append((n["kind"], n["id"]))
  return out


def check(case, res):
  spec, cfg, exact = case["spec"], tuple(case["cfg"]), case["exact"]
  fmt, fps = cfg
  res.label("format:%s" % fmt, "fps:%s" % fps, "profile:" + ("exact" if exact else "rounding"))
  doc = gen_model.build(spec)
  nodes = list(gen_model.all_nodes(spec))
  kinds = {n["kind"] for n in nodes}
  adjacent = any(a["kind"] == "text" and b["kind"] == "text" for n in nodes for a, b in zip(n["kids"], n["kids"][1:]))
  if adjacent:
    res.label("adjacent-text-nodes")
  if "rp" in kinds:
    res.label("ruby-delimiters")
  try:
    tree = imsc_writer.from_model(doc, make_config(cfg))
    buf = io.BytesIO()
    tree.write(buf, encoding="utf-8", xml_declaration=True)
    data = buf.getvalue()
  except ValueError as e:
    documented = (fmt in ("frames", "clock_time_with_frames") and fps is None) or \
                 (fmt == "clock_time_with_frames" and fps is not None and fps.denominator != 1)
    if documented:
      res.label("configuration-rejected")
      return
    res.crash(e, "write:")
    return
  except Exception as e:  # pylint: disable=broad-except
    res.crash(e, "write:")
    return
  try:
    doc2, records = read_back(data)
  except et.ParseError as e:
    res.fail("written-xml-not-well-formed", "%s in %r" % (e, data[:300]))
    return
  except Exception as e:  # pylint: disable=broad-except
    res.crash(e, "reread:")
    return
  if doc2 is None:
    res.fail("reread:returned-none", data[:300])
    return
  for r in records:
    msg = r.getMessage()
    if "xml:lang not specified" in msg:
      continue
    res.fail("reread:logged:%s:%s" % (r.levelname, re.sub(r"[^A-Za-z ]+", "", msg)[:40].strip().replace(" ", "-")), msg[:200])
  # document parameters
  if doc2.get_lang() != doc.get_lang():
    res.fail("params:lang", "%r -> %r" % (doc.get_lang(), doc2.get_lang()))
  if doc2.get_cell_resolution() != doc.get_cell_resolution():
    res.fail("params:cell-resolution", "%r -> %r" % (doc.get_cell_resolution(), doc2.get_cell_resolution()))
  if doc2.get_active_area() != doc.get_active_area():
    res.fail("params:active-area", "%r -> %r" % (doc.get_active_area(), doc2.get_active_area()))
  if doc2.get_display_aspect_ratio() != doc.get_display_aspect_ratio():
    res.fail("params:display-aspect-ratio", "%r -> %r" % (doc.get_display_aspect_ratio(), doc2.get_display_aspect_ratio()))
  uses_px = b'px' in data and any(l.units.value == "px" for n in nodes if n["kind"] != "text"
                                  for v in list(n["styles"].values()) + [a[3] for a in n["anims"]] for l in _lengths(v))
  if uses_px and doc2.get_px_resolution() != doc.get_px_resolution():
    res.fail("params:pixel-resolution", "%r -> %r" % (doc.get_px_resolution(), doc2.get_px_resolution()))
  # no model element dropped by the writer: every element (all generated elements carry an xml:id) is in the XML
  try:
    root = et.fromstring(data)
    by_id = {e.get("{http://www.w3.org/XML/1998/namespace}id"): e for e in root.iter()}
  except Exception:  # pylint: disable=broad-except
    by_id = {}
  for n in nodes:
    if n.get("anon"):
      res.label("span-without-id-carrying-animation")
      continue
    if n["kind"] != "text" and n["id"] not in by_id:
      res.fail("writer-dropped-element:" + n["kind"], "%s %s is not in the written XML" % (n["kind"], n["id"]))
  # times written in the XML
  unit = unit_of(cfg)
  written = []
  try:
    for n in nodes:
      if n["kind"] in ("text", "br") or n["id"] not in by_id:
        continue
      e = by_id[n["id"]]
      for attr, val in (("begin", n["begin"]), ("end", n["end"])):
        if val is not None:
          written.append((val, e.get(attr), "%s/@%s" % (n["id"], attr)))
  except Exception:  # pylint: disable=broad-except
    written = []
  evals = []
  for val, s, where in written:
    tv = None if s is None else eval_time(s, fps or Fraction(30))
    if tv is None:
      res.fail("times:attribute-missing-or-unreadable", "%s = %r for %s" % (where, s, val))
      continue
    evals.append((val, tv))
    if (val / unit).denominator == 1:
      if tv != val:
        res.fail("times:representable-time-changed:%s" % (fmt or ("frames" if fps else "clock_time")), "%s: %s written as %r = %s" % (where, val, s, tv))
    elif abs(tv - val) >= unit:
      res.fail("times:moved-by-a-unit-or-more:%s" % (fmt or ("frames" if fps else "clock_time")), "%s: %s written as %r = %s (unit %s)" % (where, val, s, tv, unit))
  evals.sort()
  for (a, ta), (b, tb) in zip(evals, evals[1:]):
    if a <= b and ta > tb:
      res.fail("times:order-changed", "%s <= %s but written %s > %s" % (a, b, ta, tb))
  # snapshots (exact profile)
  if exact:
    ref = Ref(spec)
    times, _b = ref.probe_times()
    if len(times) > 16:
      times = times[::max(1, len(times) // 16)]
    for t in times:
      try:
        a = ISD.from_model(doc, t)
      except Exception:  # pylint: disable=broad-except
        continue                 # snapshot failures of the source are C01/C18's business
      try:
        b = ISD.from_model(doc2, t)
      except Exception as e:  # pylint: disable=broad-except
        res.crash(e, "snapshot-after-roundtrip:")
        continue
      ca = tuple(merge_text(r) for r in canon.canon_isd(a, 12))
      cb = tuple(merge_text(r) for r in canon.canon_isd(b, 12))
      out = []
      approx(ca, cb, "", out)
      if out:
        res.fail("snapshot-differs:" + diff_bucket(out[0]), "t=%s first difference %s" % (t, out[0][:300]))
        break
  times_nz = {v for v, _s, _w in written if v}
  special = any(repr(v) in ("<SpecialValues.none: 'none'>", "<SpecialValues.normal: 'normal'>") or
                getattr(v, "components", None) == (0, 0, 0, 0) for n in nodes if n["kind"] != "text" for v in n["styles"].values())
  res.nontrivial = bool("ruby" in kinds and any(n["anims"] for n in nodes if n["kind"] != "text") and special and
                        len(times_nz) >= 3 and cfg != (None, None))


def _lengths(v):
  from vt.props.c13 import lengths_in
  return lengths_in(v)


PARTS = {
  "exact": Part("exact", check, strategy=cases(PROF, True), n=(800, 48000), shrinker=SHRINK,
                required_labels=("format:frames", "format:clock_time_with_frames", "format:None", "ruby-delimiters", "adjacent-text-nodes",
                                 "configuration-rejected")),
  "rounding": Part("rounding", check, strategy=cases(PROF_ROUND, False), n=(400, 24000), shrinker=SHRINK),
}
