"""C09 - the EBU STL reader reproduces every subtitle's time, text and attributes."""
import io
from fractions import Fraction

import ttconv.model as model
import ttconv.style_properties as styles
import ttconv.stl.reader as stl_reader
from ttconv.stl.config import STLReaderConfiguration
from ttconv.isd import ISD

from vt import gen_stl as G
from vt.run import Part, HarnessError

ID = "C09"
LEVEL = "exploration"
RULE = ("cases are structured STL descriptions (vt/gen_stl.py: GSI with all five DFC values, DSC teletext/open/undefined, CCT 00-04, "
        "MNR, TCP; subtitles with SGN, SN, 1-4 TTI blocks per subtitle, cumulative sets, user-data blocks, TCI<=TCO, VP, JC, text "
        "fields from the TF grammar) x reader configurations, serialised to bytes; parts: main (separators between words are one "
        "space or one control code), tables (every asserted cell of the five character tables, enumerated), spacing (runs of "
        "spaces/control codes), comments (CF=1 blocks), cumdrop (programme start inside a cumulative set), filler (bytes after the "
        "first 8Fh). non-trivial = file with >= 2 shown subtitles of which one has >= 2 lines, >= 1 control code and >= 1 "
        "non-ASCII character; distinct by file hash.")
ASSUMPTIONS = [
  "the expectation is computed from the structured description together with the bytes (vt/gen_stl.py), never by parsing the bytes",
  "STL30.01 time codes are counted as SMPTE drop-frame at 30000/1001 and STL23.01 as 24 labels per second at 24000/1001, the "
  "interpretation ttconv documents (time_code.py); labels that do not exist in drop-frame counting are not generated",
  "text is compared word-level: non-space characters equal and in order, a space or a teletext spacing attribute (00-1F in a teletext "
  "file) between two characters requires >= 1 space in the result, adjacency requires none; codes 80-85 and 00-1F in open files may "
  "or may not produce a space; leading/trailing blanks and the style of blanks are free",
  "character tables are independent: NFC(letter + combining mark) for ISO 6937 diacritics C1-CF, a hand-written table for the "
  "uncontested single-byte cells, range formulas for the ISO 8859-5/6/7/8 letter blocks; contested cells (23 24 5E 60 7E A0 A4 A6 "
  "A8 C0 C9 CC D8-DB E5 FF, diacritic + space) are not generated",
  "region geometry: containment in the 5 %/10 % safe area and the anchored edge (top of row VP for displayAlign before, bottom of "
  "row VP+rows-1 for after, rows spread evenly over the safe area) - asserted only when VP+rows-1 <= the configured row count; "
  "which of before/after is chosen is free; cumulative sets: containment only",
  "JC=0 (unchanged presentation) and the background after 84h (boxing on) and in DSC-undefined files are not asserted",
  "teletext box codes 0A/0B are generated only at the ends of a row (text outside a box is not shown by a teletext decoder); "
  "double-height subtitles carry 0Dh on every row and doubled newlines",
  "font size, line height, language, div structure beyond one div per SGN are not asserted",
]

COLOR_OF = {rgb + (255,): i for i, rgb in enumerate(G.RGB)}


def selftest():
  G.selftest()
  # comparator self-test: the word-level rule
  exp = [[["A", 7, 0, False, False, "start", "none"], ["B", 7, 0, False, False, "sep", "single-space"], ["C", 1, 0, False, False, "joined", "none"]]]
  good = [[("A", 7, 0, False, False), (" ", 7, 0, False, False), (" ", 7, 0, False, False), ("B", 7, 0, False, False), ("C", 1, 0, False, False)]]
  assert compare_lines(exp, good, "x", {"tt": "teletext", "cct": "00", "feature": ""}) == []
  bad = [[("A", 7, 0, False, False), ("B", 7, 0, False, False), (" ", 1, 0, False, False), ("C", 1, 0, True, False)]]
  got = [b for b, _ in compare_lines(exp, bad, "x", {"tt": "teletext", "cct": "00", "feature": ""})]
  assert got == ["x-text:words-joined:single-space", "x-text:words-split", "x-style:italic:teletext"], got


# ------------------------------------------------------------------------------------------------ observation

def color_index(c):
  if c is None:
    return None
  comps = tuple(c.components)
  if len(comps) == 4 and comps[3] == 0:
    return G.TRANSPARENT
  return COLOR_OF.get(comps, "rgba%r" % (comps,))


def walk(elem, st, lines, depth, timed):
  """appends (char, fg, bg, italic, underline) cells to lines[-1], starts a new line at Br; st = inherited (fg, bg, it, ul).
  `timed` collects descendants (depth >= 1) that carry begin/end"""
  for child in elem:
    if isinstance(child, model.Br):
      lines.append([])
      continue
    if isinstance(child, model.Text):
      for ch in child.get_text():
        lines[-1].append((ch,) + st)
      continue
    if isinstance(child, model.Span):
      if timed is not None and (child.get_begin() is not None or child.get_end() is not None):
        timed.append(depth)
      fg, bg, it, ul = st
      c = child.get_style(styles.StyleProperties.Color)
      if c is not None:
        fg = color_index(c)
      b = child.get_style(styles.StyleProperties.BackgroundColor)
      if b is not None and color_index(b) != G.TRANSPARENT:
        bg = color_index(b)
      elif b is not None and st[1] is None:
        bg = G.TRANSPARENT
      f = child.get_style(styles.StyleProperties.FontStyle)
      if f is not None:
        it = f in (styles.FontStyleType.italic, styles.FontStyleType.oblique)
      d = child.get_style(styles.StyleProperties.TextDecoration)
      if d is not None and not isinstance(d, styles.SpecialValues) and d.underline is not None:
        ul = bool(d.underline)
      elif isinstance(d, styles.SpecialValues):
        ul = False
      walk(child, (fg, bg, it, ul), lines, depth + 1, timed)
      continue
    lines[-1].append(("<%s>" % type(child).__name__, None, None, None, None))


def inherited_state(p):
  """(fg, bg, it, ul) that the children of p inherit, from explicit styles on p/div/body, else the TTML initial values"""
  fg, it, ul = G.WHITE, False, False
  e = p
  chain = []
  while e is not None:
    chain.append(e)
    e = e.parent()
  for e in reversed(chain):
    c = e.get_style(styles.StyleProperties.Color)
    if c is not None:
      fg = color_index(c)
    f = e.get_style(styles.StyleProperties.FontStyle)
    if f is not None:
      it = f in (styles.FontStyleType.italic, styles.FontStyleType.oblique)
    d = e.get_style(styles.StyleProperties.TextDecoration)
    if d is not None and not isinstance(d, styles.SpecialValues) and d.underline is not None:
      ul = bool(d.underline)
  bg = None
  for e in chain:
    b = e.get_style(styles.StyleProperties.BackgroundColor)
    if b is not None and color_index(b) != G.TRANSPARENT:
      bg = color_index(b)
      break
  return (fg, G.TRANSPARENT if bg is None else bg, it, ul)


def strip_lines(lines):
  lines = [l for l in lines]
  while lines and not any(c[0] != " " for c in lines[-1]):
    lines.pop()
  return lines


def observe_members(p):
  """[(begin, end, lines)] : children of p grouped into untimed runs (begin/end None) and timed top-level spans; plus nested-timing flags"""
  st = inherited_state(p)
  groups = []
  nested = []
  cur = None
  for child in p:
    is_timed = isinstance(child, model.Span) and (child.get_begin() is not None or child.get_end() is not None)
    if is_timed:
      cur = None
      holder = _Holder([child])
      lines = [[]]
      walk(holder, st, lines, 0, None)
      deep = []
      walk(child, st, [[]], 1, deep)
      nested += deep
      groups.append((child.get_begin(), child.get_end(), strip_lines(lines)))
    else:
      if cur is None:
        cur = [None, None, [[]]]
        groups.append(cur)
      deep = []
      walk(_Holder([child]), st, cur[2], 1, deep)
      nested += deep
  return [(g[0], g[1], strip_lines(g[2])) for g in groups], nested


class _Holder:
  def __init__(self, children):
    self.children = children

  def __iter__(self):
    return iter(self.children)


def observe_flat(p, st):
  lines = [[]]
  walk(p, st, lines, 0, None)
  return strip_lines(lines)


# ------------------------------------------------------------------------------------------------ comparison

def obs_cells(line):
  """non-space cells of an observed line with the 'space before' flag"""
  out = []
  gap = False
  for c in line:
    if c[0] == " ":       # (U+00A0 is a character, not a gap)
      gap = True
    else:
      out.append((c, gap and bool(out)))
      gap = False
  return out


def compare_lines(exp_lines, obs_lines, prefix, ctx):
  """word-level comparison, returns [(bucket, detail)]"""
  fails = []

  def fail(b, d):
    b = prefix + "-" + b
    if not any(x == b for x, _ in fails):
      fails.append((b, d))

  etxt = ["".join(c[0][0] for c in l) for l in exp_lines]
  otxt = ["".join(c[0] for c in l) for l in obs_lines]
  if len(exp_lines) != len(obs_lines):
    fail("text:line-count", "expected %d lines %r, got %d lines %r" % (len(exp_lines), etxt, len(obs_lines), otxt))
    return fails
  for li, (el, ol) in enumerate(zip(exp_lines, obs_lines)):
    oc = obs_cells(ol)
    if len(oc) != len(el) or any(o[0][0] not in e[0] for o, e in zip(oc, el)):
      k = next((i for i, (o, e) in enumerate(zip(oc, el)) if o[0][0] not in e[0]), min(len(oc), len(el)))
      fail("text:chars:cct=%s" % ctx["cct"], "line %d: expected %r got %r (first difference at character %d: expected %s got %s)" % (
        li, etxt[li], otxt[li], k, " / ".join("U+%04X" % ord(x) for x in el[k][0]) if k < len(el) else "end",
        "U+%04X" % ord(oc[k][0][0]) if k < len(oc) else "end"))
      continue
    for k, ((o, gap), e) in enumerate(zip(oc, el)):
      where = "line %d %r -> %r, before character %d %r" % (li, etxt[li], otxt[li], k, o[0])
      if e[5] == "sep" and not gap:
        fail("text:words-joined:" + e[6], "source separates (%s), result joins: %s" % (e[6], where))
      elif e[5] == "joined" and gap:
        fail("text:words-split", "source adjacent, result has a space: " + where)
      if o[1] != e[1]:
        fail("style:fg:" + ctx["tt"], "%s: expected %s got %s" % (where, G.COLOR_NAMES[e[1]], name(o[1])))
      if e[2] is not None and o[2] != e[2]:
        fail("style:bg:" + ctx["tt"], "%s: expected %s got %s" % (where, G.COLOR_NAMES[e[2]], name(o[2])))
      if o[3] != e[3]:
        fail("style:italic:" + ctx["tt"], "%s: expected %s got %s" % (where, e[3], o[3]))
      if o[4] != e[4]:
        fail("style:underline:" + ctx["tt"], "%s: expected %s got %s" % (where, e[4], o[4]))
  return fails


def name(i):
  return G.COLOR_NAMES[i] if isinstance(i, int) and 0 <= i < 9 else repr(i)


def family_repr(ff):
  if ff is None:
    return None
  return tuple(("generic:" + f.value) if isinstance(f, styles.GenericFontFamilyType) else f for f in ff)


def pct(length):
  """value of a length in percent of the root container, None when in another unit"""
  if length.units in (styles.LengthType.Units.pct, styles.LengthType.Units.rh, styles.LengthType.Units.rw):
    return length.value
  return None


def file_feature(desc, exp):
  if any(e["k"] == "comment" for e in desc["entries"]):
    return "comment-blocks"
  if any(s["first_dropped"] for _sgn, subs in exp["groups"] for s in subs):
    return "cum-first-dropped"
  if any(m.get("junk") for e in desc["entries"] if e["k"] != "user" for m in e["members"]):
    return "junk-after-filler"
  return ""


# pairing key of a subtitle: its non-space characters, alternative renderings of one cell mapped to the first one
CANON = {alt: v[0] for v in G.LATIN_UPPER.values() for alt in v[1:]}


def text_key(lines):
  return "\n".join("".join(CANON.get(c[0], c[0]) for c in l if c[0] != " ") for l in lines)


def exp_key(lines):
  return "\n".join("".join(CANON.get(c[0][0], c[0][0]) for c in l) for l in lines)


# ------------------------------------------------------------------------------------------------ the check

class _Tagged:
  """result proxy: every failure of a file that carries a known-defect trigger (comment blocks, programme start inside a cumulative
  set, bytes after the filler) gets that trigger as the last component of its bucket"""

  def __init__(self, res, feature):
    self.res = res
    self.sfx = (":" + feature) if feature else ""

  @property
  def fails(self):
    return self.res.fails

  def fail(self, bucket, detail=""):
    self.res.fail(bucket + self.sfx, detail)

  def label(self, *names):
    self.res.label(*names)

  def crash(self, exc, prefix=""):
    n = len(self.res.fails)
    self.res.crash(exc, prefix)
    if self.sfx and len(self.res.fails) > n:
      b, d = self.res.fails[-1]
      self.res.fails[-1] = (b + self.sfx, d)


def check(case, res):
  desc = case
  g = desc["gsi"]
  data = G.assemble(desc)
  exp = G.expected(desc)
  tt = "teletext" if G.is_teletext(g["dsc"]) else "open"
  feature = file_feature(desc, exp)
  ctx = {"tt": tt, "cct": g["cct"], "feature": feature}
  classify(desc, exp, res)
  res = _Tagged(res, feature)

  cfg = STLReaderConfiguration.parse({k: v for k, v in desc["config"].items() if v is not None})
  try:
    doc = stl_reader.to_model(io.BytesIO(data), cfg)
  except Exception as e:  # pylint: disable=broad-except
    res.crash(e)
    return
  if doc is None or doc.get_body() is None:
    res.fail("structure:no-body", "to_model returned %r" % (doc,))
    return
  body = doc.get_body()

  # ---- configuration switches (README: stl_reader)
  eb = exp["body"]
  flg = body.get_style(styles.StyleProperties.FillLineGap)
  if bool(flg) != eb["fill_line_gap"]:
    res.fail("body:fill-line-gap", "disable_fill_line_gap=%r -> tts:fillLineGap %r" % (desc["config"]["disable_fill_line_gap"], flg))
  lp = body.get_style(styles.StyleProperties.LinePadding)
  if (lp is not None and lp.value != 0) != eb["line_padding"]:
    res.fail("body:line-padding", "disable_line_padding=%r -> ebutts:linePadding %r" % (desc["config"]["disable_line_padding"], lp))
  ff = family_repr(body.get_style(styles.StyleProperties.FontFamily))
  if ff != eb["font_family"]:
    res.fail("body:font-family", "font_stack=%r -> %r expected %r" % (desc["config"]["font_stack"], ff, eb["font_family"]))

  # ---- model level: one div per subtitle group, one p per shown subtitle
  divs = list(body)
  groups = exp["groups"]
  shown = "%d entries, config %r" % (len(desc["entries"]), desc["config"]["program_start_tc"])
  if len(divs) != len(groups):
    res.fail("structure:div-count", "expected %d subtitle groups %r, got %d divs (%s)" % (len(groups), [s for s, _ in groups], len(divs), shown))
  else:
    for (sgn, subs), div in zip(groups, divs):
      ps = [c for c in div]
      if len(ps) != len(subs) or not all(isinstance(p, model.P) for p in ps):
        res.fail("structure:p-count", "group %d: expected %d subtitles, got %d paragraphs (%s)" % (sgn, len(subs), len(ps), shown))
        continue
      for sub, p in zip(subs, ps):
        check_p(desc, exp, sub, p, ctx, res)

  # ---- presentation level: what is visible when
  check_isd(desc, exp, doc, ctx, res)


def check_p(desc, exp, sub, p, ctx, res):
  g = desc["gsi"]
  dfc = g["dfc"]
  start_kind = "none" if desc["config"]["program_start_tc"] is None else "tcp" if desc["config"]["program_start_tc"] == "TCP" else "explicit"
  members, nested = observe_members(p)
  if nested:
    res.fail("time:nested-timing", "begin/end on a span below the subtitle level (depths %r)" % (nested,))
  where = "SN %d TCI %r TCO %r %s" % (sub["members"][0]["sn"], desc["entries"][sub["ei"]]["members"][sub["members"][0]["mi"]]["tci"],
                                      desc["entries"][sub["ei"]]["members"][sub["members"][0]["mi"]]["tco"], dfc)
  pb, pe = p.get_begin(), p.get_end()
  if any(isinstance(x, float) for x in (pb, pe)):
    res.fail("time:float", "begin/end %r %r" % (pb, pe))
  if sub["kind"] == "sub":
    m = sub["members"][0]
    if pb != m["begin"]:
      res.fail("time:begin:%s:start-%s" % (dfc, start_kind), "%s: begin %r expected %r (programme start %r)" % (where, pb, m["begin"], exp["start"]))
    if pe != m["end"]:
      res.fail("time:end:%s:start-%s" % (dfc, start_kind), "%s: end %r expected %r (programme start %r)" % (where, pe, m["end"], exp["start"]))
    if len(members) != 1 or members[0][0] is not None or members[0][1] is not None:
      if not members:
        res.fail("text:empty-paragraph", "%s: paragraph without text" % where)
      else:
        res.fail("time:nested-timing", "%s: timed spans inside a non-cumulative subtitle" % where)
    else:
      for b, d in compare_lines(m["lines"], members[0][2], "model", ctx):
        res.fail(b, where + ": " + d)
  else:
    off_b = pb or 0
    if pe is not None and any(off_b + (m["end"]) > pe for m in sub["members"]):
      res.fail("time:cumulative-clipped", "%s: paragraph end %r clips a member" % (where, pe))
    timed = [m for m in members if m[0] is not None or m[1] is not None]
    if len(timed) != len(sub["members"]) or len(timed) != len(members):
      res.fail("structure:cumulative-members",
               "%s: expected %d timed members, got %d timed / %d in all" % (where, len(sub["members"]), len(timed), len(members)))
    else:
      for m, (b, e, lines) in zip(sub["members"], timed):
        if (b or 0) + off_b != m["begin"]:
          res.fail("time:begin:%s:cumulative" % dfc, "%s member SN %d: begin %r expected %r" % (where, m["sn"], b, m["begin"]))
        if e is None or e + off_b != m["end"]:
          res.fail("time:end:%s:cumulative" % dfc, "%s member SN %d: end %r expected %r" % (where, m["sn"], e, m["end"]))
        for bk, d in compare_lines(m["lines"], lines, "model", ctx):
          res.fail(bk, "%s member SN %d: %s" % (where, m["sn"], d))

  if sub["first_dropped"]:
    return
  # ---- justification
  ta = p.get_style(styles.StyleProperties.TextAlign)
  want = {1: "start", 2: "center", 3: "end"}.get(sub["jc"])
  if want is not None and (ta is None or ta.name != want):
    res.fail("align:jc=%d" % sub["jc"], "%s: JC %d -> textAlign %r expected %s" % (where, sub["jc"], ta, want))
  # ---- region
  r = p.get_region()
  if r is None:
    res.fail("region:missing", "%s: paragraph without region" % where)
    return
  o = r.get_style(styles.StyleProperties.Origin)
  x = r.get_style(styles.StyleProperties.Extent)
  da = r.get_style(styles.StyleProperties.DisplayAlign)
  rows, vp, mx = sub["rows"], sub["vp"], exp["max_rows"]
  if vp < 1 or vp + rows - 1 > mx:
    res.label("geometry:not-asserted(vp-beyond-configured-rows)")
    return
  if o is None or x is None or None in (pct(o.x), pct(o.y), pct(x.width), pct(x.height)):
    res.fail("region:units", "%s: origin %r extent %r" % (where, o, x))
    return
  ox, oy, w, h = pct(o.x), pct(o.y), pct(x.width), pct(x.height)
  tol = 1e-6
  tnl = ":trailing-newline" if desc["entries"][sub["ei"]]["members"][0].get("trail_nl") else ""
  geo = "VP %d rows %d of %d -> origin (%.4f, %.4f) extent (%.4f, %.4f) %s" % (vp, rows, mx, ox, oy, w, h, da)
  if not (ox >= 5 - tol and ox + w <= 95 + tol and oy >= 10 - tol and oy + h <= 90 + tol and w > 0 and h > 0):
    res.fail("region:outside-safe-area:" + ("cumulative" if sub["kind"] == "cum" else ctx["tt"]) + tnl, where + ": " + geo)
  if sub["kind"] == "cum":
    return
  top = 10 + 80.0 * (vp - 1) / mx
  bottom = 10 + 80.0 * (vp + rows - 1) / mx
  if da == styles.DisplayAlignType.before:
    if abs(oy - top) > tol:
      res.fail("region:anchored-edge:before", "%s: %s, top edge expected at %.4f" % (where, geo, top))
  elif da == styles.DisplayAlignType.after:
    if abs(oy + h - bottom) > tol:
      res.fail("region:anchored-edge:after:" + ("double-height" if rows != len(sub["members"][0]["lines"]) else "single-height") + tnl,
               "%s: %s, bottom edge expected at %.4f" % (where, geo, bottom))
  else:
    res.fail("region:display-align", "%s: %s" % (where, geo))


MAX_PROBES = 6


def probe_times(exp):
  eps = Fraction(1, 2) / exp["fps"]
  mids, edges = [], []
  for _sgn, subs in exp["groups"]:
    for s in subs:
      for m in s["members"]:
        b, e = m["begin"], m["end"]
        if e > b:
          mids.append(((b + e) / 2, "mid"))
          edges.append((b, "at-begin"))
          edges.append((e, "at-end"))
          if b - eps >= 0:
            edges.append((b - eps, "before-begin"))
        else:
          edges.append((b, "zero-duration"))
  out, seen = [], set()
  for t, tag in mids + edges:
    if t not in seen:
      seen.add(t)
      out.append((t, tag))
  # deterministic thinning: keep the first probes of each kind
  if len(out) > MAX_PROBES:
    nm = sum(1 for _t, tag in out if tag == "mid")
    keep_m = min(nm, MAX_PROBES // 2)
    ms = [x for x in out if x[1] == "mid"][:keep_m]
    es = [x for x in out if x[1] != "mid"]
    room = MAX_PROBES - len(ms)
    step = max(1, len(es) // room)
    off = (len(es) + nm) % step     # which edges are kept varies with the file, deterministically
    out = ms + es[off::step][:room]
  return out


def check_isd(desc, exp, doc, ctx, res):
  for t, tag in probe_times(exp):
    want = []
    for _sgn, subs in exp["groups"]:
      for s in subs:
        lines = []
        for m in s["members"]:
          if m["begin"] <= t < m["end"]:
            lines += m["lines"]
        if lines:
          want.append(lines)
    try:
      isd = ISD.from_model(doc, t)
    except Exception as e:  # pylint: disable=broad-except
      res.crash(e, prefix="isd:")
      return
    got = []
    for region in (isd.iter_regions() if isd is not None else []):
      for b in region:
        for div in b:
          for p in div:
            if isinstance(p, model.P):
              lines = observe_flat(p, (G.WHITE, G.TRANSPARENT, False, False))
              if any(c[0] != " " for l in lines for c in l):
                got.append(lines)
    want.sort(key=exp_key)
    got.sort(key=text_key)
    wk, gk = [exp_key(w) for w in want], [text_key(x) for x in got]
    if len(want) != len(got):
      res.fail("isd:visible-set:%s" % tag, "t=%s (%s): expected %d visible subtitles %r, got %d %r" % (t, tag, len(wk), wk, len(gk), gk))
      continue
    if tag == "mid":
      for w, x in zip(want, got):
        for b, d in compare_lines(w, x, "isd", ctx):
          res.fail(b, "t=%s: %s" % (t, d))
    elif wk != gk and not any(b.startswith("isd-text") or b.startswith("model-text") for b, _ in res.fails):
      # same count but other text: only reported when no text difference was reported already
      res.fail("isd:visible-set:%s" % tag, "t=%s (%s): expected %r got %r" % (t, tag, wk, gk))


def classify(desc, exp, res):
  g = desc["gsi"]
  cfg = desc["config"]
  res.label("dfc:" + g["dfc"], "dsc:" + ("blank" if g["dsc"] == " " else g["dsc"]), "cct:" + g["cct"])
  res.label("start:" + ("none" if cfg["program_start_tc"] is None else "tcp" if cfg["program_start_tc"] == "TCP" else
                        "explicit-df" if ";" in cfg["program_start_tc"] else "explicit"))
  res.label("max_row_count:" + ("none" if cfg["max_row_count"] is None else "MNR" if cfg["max_row_count"] == "MNR" else "int"))
  if cfg["font_stack"] is not None:
    res.label("cfg:font_stack")
  if g["tnb_delta"]:
    res.label("gsi:tnb-inconsistent")
  subs = [s for _sgn, ss in exp["groups"] for s in ss]
  nsub_file = sum(1 for e in desc["entries"] if e["k"] in ("sub", "cum"))
  if not nsub_file:
    res.label("file:no-subtitles")
  elif not subs:
    res.label("file:all-dropped")
  elif len(subs) < nsub_file or any(len(s["members"]) < len(desc["entries"][s["ei"]]["members"]) for s in subs):
    res.label("file:some-dropped")
  if len(exp["groups"]) > 1:
    res.label("file:several-sgn")
  nontrivial = False
  intervals = []
  for e in desc["entries"]:
    if e["k"] == "user":
      res.label("block:user-data")
      continue
    if e["k"] == "comment":
      res.label("block:comment")
      continue
    if e["k"] == "cum":
      res.label("sub:cumulative")
    for m in e["members"]:
      if m["cuts"]:
        res.label("sub:extension-blocks=%d" % min(3, len(m["cuts"])))
      if m.get("ud"):
        res.label("block:user-data-inside-chain")
      if m.get("dh"):
        res.label("sub:double-height")
      if m.get("junk"):
        res.label("sub:junk-after-filler")
      if m["sn"] >= 257:
        res.label("sub:sn>=257")
      if m["tci"] == m["tco"]:
        res.label("sub:zero-duration")
      if m["jc"] == 0:
        res.label("sub:jc0")
      toks = [t for l in m["lines"] for t in l]
      if any(G.is_pair(t) for t in toks):
        res.label("text:diacritic-pair")
      if any(not G.is_pair(t) and t >= 0xA0 for t in toks):
        res.label("text:upper-half")
      codes = [t for t in toks if G.is_code(t)]
      if any(t <= 7 for t in codes):
        res.label("code:foreground")
      if any(t in (0x1C, 0x1D, 0x84, 0x85) for t in codes):
        res.label("code:background")
      if any(0x80 <= t <= 0x83 for t in codes):
        res.label("code:italic-underline")
      if any(t in (0x0A, 0x0B) for t in codes):
        res.label("code:box")
      if any(t in (0x08, 0x09, 0x0C) for t in codes):
        res.label("code:other-teletext")
  for s in subs:
    for m in s["members"]:
      for l in m["lines"]:
        for c in l:
          if c[5] != "start" and c[6] != "none":
            res.label("gap:" + c[6])
      intervals.append((m["begin"], m["end"]))
    src = desc["entries"][s["ei"]]["members"]
    if any(len(m["lines"]) >= 2 and any(G.is_code(t) for l in m["lines"] for t in l) and
           any(G.is_pair(t) or t >= 0xA0 for l in m["lines"] for t in l) for m in src):
      nontrivial = True
  intervals.sort()
  if any(a[1] > b[0] and a[0] < b[0] for a, b in zip(intervals, intervals[1:])):
    res.label("file:overlapping-subtitles")
  res.nontrivial = nontrivial and len(subs) >= 2


# ------------------------------------------------------------------------------------------------ parts

def strategy_for(name):
  return lambda tier: G.files(G.profile(name))


def table_chunks(tier, seed):
  return [(dsc, cct) for dsc in ("1", "0") for cct in ("00", "01", "02", "03", "04")]


def table_cases(chunk):
  """every asserted cell of the table, packed 5 to a word, 4 words to a line, 2 lines to a subtitle; three rotations so that
  every cell is seen at the start, inside and at the end of a word"""
  dsc, cct = chunk
  asc, upper, pairs = G.printable_tokens(cct)
  toks = asc + upper + pairs
  for rot in range(3):
    seq = toks[rot:] + toks[:rot]
    lines = []
    for i in range(0, len(seq), 20):
      part = seq[i:i + 20]
      line = []
      for j in range(0, len(part), 5):
        if line:
          line.append(G.SPACE)
        line += part[j:j + 5]
      lines.append(line)
    entries = []
    for k in range(0, len(lines), 2):
      n = len(entries)
      mem = {"sn": n + 1, "tci": [0, 0, 2 * n, 0], "tco": [0, 0, 2 * n + 1, 12], "vp": 20, "jc": 2, "dh": False, "lines": lines[k:k + 2],
             "cuts": [], "trail_nl": False, "ud": False, "junk": None}
      mem["cuts"] = G.even_cuts(mem, 2) if rot == 1 else []
      entries.append({"k": "sub", "sgn": 0, "members": [mem]})
    yield {"gsi": dict(G.GSI_DEFAULT, dsc=dsc, cct=cct), "entries": entries, "config": dict(G.CONFIG_DEFAULT)}


def check_table(case, res):
  check(case, res)
  n = sum(1 for e in case["entries"] for m in e["members"] for l in m["lines"] for t in l if G.is_printable(t))
  res.evals = 1
  res.label("table-cells:cct=" + case["gsi"]["cct"], )
  res.stats = None
  res.labels["table-cells-checked"] += n
  res.nontrivial = True


def finish(ctx):
  lab = ctx.acc.labels
  need = ["dfc:" + d for d in G.DFCS] + ["cct:0%d" % i for i in range(5)] + ["dsc:0", "dsc:1", "dsc:2", "dsc:blank"]
  missing = [l for l in need if not lab.get(l)]
  if missing and "main" in ctx.parts:
    raise HarnessError("classes never generated: %r" % missing)


PARTS = {
  "main": Part("main", check, strategy=strategy_for("main"), n=(3000, 120000), shrinker=G.simplifications,
               required_labels=("sub:cumulative", "sub:extension-blocks=1", "sub:extension-blocks=3", "block:user-data", "sub:double-height",
                                "text:diacritic-pair", "text:upper-half", "code:foreground", "code:background", "code:italic-underline",
                                "file:some-dropped", "start:tcp", "start:explicit", "sub:sn>=257", "gap:single-code", "gap:single-space")),
  "tables": Part("tables", check_table, chunks=table_chunks, cases=table_cases, exhaustive=(True, True)),
  "spacing": Part("spacing", check, strategy=strategy_for("spacing"), n=(600, 12000), shrinker=G.simplifications,
                  required_labels=("gap:double-space", "gap:code-run", "gap:space+code")),
  "comments": Part("comments", check, strategy=strategy_for("comments"), n=(300, 6000), shrinker=G.simplifications,
                   required_labels=("block:comment",)),
  "cumdrop": Part("cumdrop", check, strategy=strategy_for("cumdrop"), n=(300, 6000), shrinker=G.simplifications,
                  required_labels=("sub:cumulative",)),
  "filler": Part("filler", check, strategy=strategy_for("filler"), n=(300, 6000), shrinker=G.simplifications,
                 required_labels=("sub:junk-after-filler",)),
}
