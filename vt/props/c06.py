"""C06 - SRT/WebVTT cues carry exactly the visible text over exactly its intervals."""
from fractions import Fraction

from hypothesis import strategies as st

import ttconv.srt.writer as srt_writer
import ttconv.vtt.writer as vtt_writer
from ttconv.srt.config import SRTWriterConfiguration
from ttconv.vtt.config import VTTWriterConfiguration

from vt import gen_model, cueparse, cuecheck, codec
from vt.run import Part

ID = "C06"
LEVEL = "exploration"
RULE = ("Hypothesis text-profile DocSpecs (1-3 regions, shaped so that several regions hold content in the same snapshot and several "
        "div/p sit under one region; nested spans, br, ruby, white space in default mode and - labelled - preserve mode; lattice times, and - part subms - intervals shorter than a millisecond on and off the millisecond grid; "
        "unbounded final intervals) x writer configurations (SRT text_formatting on/off; VTT line_position, text_align, cue_id on/off). "
        "evaluations = (document, configuration) outputs; non-trivial = output with >= 2 cues one of which has >= 2 lines; distinct by "
        "(document, configuration) hash.")
ASSUMPTIONS = [
  "expected cues: for consecutive significant times reported by ttconv (their completeness is C02's business) the reference "
  "interpreter's visible text at the interval's begin, as lines (vt/cuecheck.py); output parsed by the strict parsers of vt/cueparse.py",
  "paragraphs containing xml:space=preserve text are compared by their non-white-space characters only (labelled class)",
  "ruby annotation (rt, rtc) and delimiter (rp) text is excluded, ruby base text included, as the statement says",
  "payload lines that hold no visible character (only tags and/or white space) inside a cue that also holds text are ignored on both sides; a cue without any non-blank character is a failure (blank-cue)",
  "part subms: an interval whose begin and end round to the same millisecond has no cue (begin < end is required by both formats, "
  "C07); a shorter-than-a-millisecond interval that crosses a rounding boundary must be written as a 1 ms cue; cases where an end point "
  "sits exactly on a half millisecond and one rounding would empty the cue are skipped (labelled ambiguous-rounding)",
]

STYLE_PROPS = ["FontWeight", "FontStyle", "TextDecoration", "Color", "BackgroundColor", "TextAlign", "Direction", "DisplayAlign",
               "Display"]
TEXT = gen_model.profile(style_density=(0, 2), max_nodes=36, fanout=3, br_styles=False, arbitrary_times=False, anim_on_offset=False,
                         props=STYLE_PROPS, hiding=True, text_ws=True, xml_safe=True, doc_params=False, anim_counts=(0, 0, 0, 1),
                         exotic_numbers=False, edges=False, preserve=False, timed_regions=False, body_divs=(1, 5), time_density=8,
                         time_shifts=[Fraction(0), Fraction(0), Fraction(0), Fraction(59), Fraction(3599), Fraction(86399), Fraction(359990)])
TEXT_PRESERVE = gen_model.profile(**dict(TEXT, preserve=True, max_nodes=24))
# (body begins just below a minute / an hour in some documents: rounding to the millisecond carries into the minute / hour field)
SUBMS = gen_model.profile(**dict(TEXT, arbitrary_times=True, max_nodes=14, time_density=3,
                                 time_shifts=[Fraction(0), Fraction(0), Fraction(0), 60 - Fraction(1, 3000), 3600 - Fraction(1, 4000),
                                              120 - Fraction(9, 20000)]))
# text containing the characters that WebVTT must escape (SubRip has no escaping: WebVTT configurations only)
MARKUP = gen_model.profile(**dict(TEXT, text_markup=True, max_nodes=16, ruby=False, time_shifts=None))
# text with characters outside ASCII, among them the ones Unicode calls line boundaries (U+2028, U+0085 ...) but TTML / SubRip / WebVTT do not
UNICODE = gen_model.profile(**dict(TEXT, text_unicode=True, max_nodes=16, time_shifts=None))
# preserved text holding carriage returns (e.g. read from &#13; in TTML): CR is a line terminator for SRT / WebVTT readers
CR = gen_model.profile(**dict(TEXT, preserve=True, xml_safe=False, max_nodes=16, time_shifts=None))
# text hidden by tts:visibility (specified, inherited from an ancestor or the region, or animated)
HIDDEN = gen_model.profile(**dict(TEXT, props=STYLE_PROPS + ["Visibility", "Visibility"], style_density=(1, 3), max_nodes=20, time_shifts=None))
SHRINK = gen_model.case_simplifications("spec")

SRT_CFGS = {"srt": None, "srt-noformat": SRTWriterConfiguration(text_formatting=False)}


def vtt_cfg(name):
  _, lp, ta, ci = name.split("-")
  return VTTWriterConfiguration(line_position=lp == "L", text_align=ta == "A", cue_id=ci == "I")


VTT_NAMES = ["vtt-%s-%s-%s" % (a, b, c) for a in "Ll" for b in "Aa" for c in "Ii"]


def shape(spec, mode):
  """mode 1: top-level divs are dealt round-robin to the regions (several regions hold content at once);
  mode 2: everything under the first region (several div / p under one region);
  mode 3: at least three regions, divs dealt to every other one (idle regions listed between regions that hold text)"""
  if spec["body"] is None or mode == 0:
    return spec
  if mode in (1, 3):
    while len(spec["regions"]) < (2 if mode == 1 else 3):
      spec["regions"].append(dict(kind="region", id="rx%d" % len(spec["regions"]), begin=None, end=None, region=None, styles={},
                                  anims=[], kids=[], space="default", lang=""))
  regs = [r["id"] for r in spec["regions"]]
  if not regs:
    return spec
  for n in gen_model.walk(spec["body"]):
    n["region"] = None
  if mode == 2:
    spec["body"]["region"] = regs[0]
  elif mode == 3:
    # every other region stays idle (no content) between regions that hold text
    used = regs[::2]
    for i, d in enumerate(spec["body"]["kids"]):
      d["region"] = used[i % len(used)]
  else:
    for i, d in enumerate(spec["body"]["kids"]):
      d["region"] = regs[i % len(regs)]
  return spec


def tiny_times(spec, eps, offset):
  """makes the intervals of some p / span shorter than a millisecond; with a non-zero offset their begin leaves the millisecond grid so
  that begin and end may round to different milliseconds"""
  if spec["body"] is None or eps is None:
    return spec
  for k, n in enumerate(gen_model.walk(spec["body"])):
    if n["kind"] in ("p", "span") and n["begin"] is not None and (n["end"] is None or k % 2 == 0):
      n["begin"] = n["begin"] + offset
      n["end"] = n["begin"] + eps
  return spec


EPS = [Fraction(1, 3000), Fraction(1, 1001), Fraction(1, 2000), Fraction(3, 5000), Fraction(9, 10000)]
OFFSETS = [Fraction(0), Fraction(0), Fraction(3, 5000), Fraction(1, 3000), Fraction(4, 10000), Fraction(7, 10000)]


def cases(prof, sub_ms=False, cfgs=None):
  def strat(tier):
    eps = st.sampled_from(EPS) if sub_ms else st.none()
    if cfgs is not None:
      return st.builds(lambda spec, mode, cfg: {"spec": shape(spec, mode), "cfg": cfg}, gen_model.docspecs(prof),
                       st.sampled_from([0, 1, 1, 2]), st.sampled_from(cfgs))
    return st.builds(lambda spec, mode, cfg, e, o: {"spec": tiny_times(shape(spec, mode), e, o), "cfg": cfg}, gen_model.docspecs(prof),
                     st.sampled_from([0, 1, 1, 1, 2, 3]), st.sampled_from(list(SRT_CFGS) + VTT_NAMES + ["srt", "vtt-l-a-I"]), eps,
                     st.sampled_from(OFFSETS))
  return strat


def run_writer(doc, cfg):
  if cfg.startswith("srt"):
    return srt_writer.from_model(doc, SRT_CFGS[cfg])
  return vtt_writer.from_model(doc, vtt_cfg(cfg))


def parse_output(cfg, out):
  if cfg.startswith("srt"):
    return cueparse.parse_srt(out, strict_text=False), None
  return cueparse.parse_vtt(out)


def check(case, res):
  spec, cfg = case["spec"], case["cfg"]
  fmt = "srt" if cfg.startswith("srt") else "vtt"
  per_region = fmt == "vtt" and cfg.split("-")[1] == "L"
  res.label("cfg:" + cfg)
  doc = gen_model.build(spec)
  exp, sig = cuecheck.expected_cues(doc, spec, per_region)
  n_all = len(exp)
  short = [c for c in exp if not c.unbounded and c.end - c.begin < Fraction(1, 1000)]
  exp, dropped, ambiguous = cuecheck.resolve_sub_ms(exp)
  if ambiguous:
    res.label("ambiguous-rounding")
    return
  if dropped:
    res.label("sub-millisecond-interval-without-cue")
    if dropped < n_all:
      res.label("sub-millisecond-interval-without-cue-among-others")
  if len(short) > dropped:
    res.label("sub-millisecond-interval-crossing-a-millisecond")
  if any("second-region" in ch.leaf[2] for c in exp for l in c.lines for ch in l[:1]):
    res.label("two-regions-with-content-at-once")
  if any("second-div" in ch.leaf[2] for c in exp for l in c.lines for ch in l[:1]):
    res.label("second-div-with-content")
  if any(ch.leaf[1] for c in exp for l in c.lines for ch in l[:1]):
    res.label("ruby-base-visible")
  if exp and exp[-1].unbounded:
    res.label("unbounded-final-interval")
  if any(ch.c in "&<>" for c in exp for l in c.lines for ch in l):
    res.label("text-with-markup-characters")
  if any(not c.exact for c in exp):
    res.label("preserve-text-visible")
  if any("cr" in ch.leaf[2] for c in exp for l in c.lines for ch in l[:1]):
    res.label("carriage-return-in-visible-preserved-text")
  if cuecheck.HIDDEN_TOKENS:
    res.label("visibility-hidden-text")
  try:
    out = run_writer(doc, cfg)
  except Exception as e:  # pylint: disable=broad-except
    res.crash(e, fmt + ":")
    return
  try:
    cues, _css = parse_output(cfg, out)
  except cueparse.GrammarError as e:
    res.fail("%s:grammar:%s" % (fmt, e.clause), "%s in %r" % (e, out[:300]))   # detailed in C07
    return
  cuecheck.compare_text(exp, cues, res, fmt, per_region)
  res.nontrivial = len(cues) >= 2 and any(len(c.lines) >= 2 for c in cues)


def selftest():
  cueparse.selftest()


PARTS = {
  "main": Part("main", check, strategy=cases(TEXT), n=(960, 64000), shrinker=SHRINK,
               required_labels=("two-regions-with-content-at-once", "second-div-with-content", "ruby-base-visible",
                                "unbounded-final-interval", "cfg:srt", "cfg:vtt-L-A-I")),
  "preserve": Part("preserve", check, strategy=cases(TEXT_PRESERVE), n=(320, 16000), shrinker=SHRINK,
                   required_labels=("preserve-text-visible",)),
  "markup": Part("markup", check, strategy=cases(MARKUP, cfgs=VTT_NAMES), n=(320, 16000), shrinker=SHRINK,
                 required_labels=("text-with-markup-characters",)),
  "unicode": Part("unicode", check, strategy=cases(UNICODE), n=(240, 12000), shrinker=SHRINK),
  "hidden": Part("hidden", check, strategy=cases(HIDDEN), n=(320, 16000), shrinker=SHRINK, required_labels=("visibility-hidden-text",)),
  "cr": Part("cr", check, strategy=cases(CR), n=(240, 12000), shrinker=SHRINK, required_labels=("carriage-return-in-visible-preserved-text",)),
  "subms": Part("subms", check, strategy=cases(SUBMS, True), n=(480, 24000), shrinker=SHRINK,
                required_labels=("sub-millisecond-interval-without-cue-among-others", "sub-millisecond-interval-crossing-a-millisecond")),
}
