"""C13 - every snapshot satisfies the documented ISD shape."""
from hypothesis import strategies as st

import ttconv.model as m
import ttconv.style_properties as s
from ttconv.isd import ISD

from vt import gen_model, obs, codec, ref_lwsp
from vt.gen_model import PROP, KIND_OF
from vt.ref_isd import Ref, APPLICABLE, nonspace
from vt.run import Part, HarnessError

ID = "C13"
LEVEL = "exploration"
RULE = ("Hypothesis DocSpecs (all 36 style properties in every accepted unit on every element kind, regions, animation, ruby, xml:space) "
        "x reference-derived probe times, plus every entry of generate_isd_sequence; each snapshot is walked node by node through the "
        "shape predicate. evaluations = snapshots checked; non-trivial = snapshot with >= 1 region holding content and >= 1 length that "
        "needed unit resolution (a %, em, c or px length specified or animated on a presented element); distinct by (document hash, t).")
ASSUMPTIONS = [
  "white-space expectations are the four rules of DESIGN 2.3 (vt/ref_lwsp.py); each rt and each rp is a white-space context of its own",
  "rb / rbc may survive without children (ttconv design, accepted)",
]

CONTENT_MODEL = {
  "region": {"body"}, "body": {"div"}, "div": {"div", "p"}, "p": {"span", "br", "ruby"}, "span": {"span", "br", "text"},
  "rb": {"span"}, "rt": {"span"}, "rp": {"span"}, "rbc": {"rb"}, "br": set(), "text": set(),
}
RUBY_PATTERNS = [["rb", "rt"], ["rb", "rp", "rt", "rp"], ["rbc", "rtc"], ["rbc", "rtc", "rtc"]]

MAIN = gen_model.profile(style_density=(0, 5), max_nodes=30, br_styles=True, text_unicode=True)
SHRINK = gen_model.case_simplifications("spec")


def lengths_in(v):
  """all LengthType instances reachable inside a style value"""
  if isinstance(v, s.LengthType):
    yield v
  elif isinstance(v, tuple):
    for x in v:
      yield from lengths_in(x)
  elif hasattr(v, "__dataclass_fields__"):
    for f in v.__dataclass_fields__:
      yield from lengths_in(getattr(v, f))


def needs_resolution(node):
  for v in list(node["styles"].values()) + [a[3] for a in node["anims"]]:
    for l in lengths_in(v):
      if l.units.value in ("%", "em", "c", "px"):
        return True
  return False


def check_shape(isd, doc, res, source_ids, seen_objects):
  """the shape predicate, one bucket per clause"""
  kind = obs.kind_of
  if isd.get_lang() != doc.get_lang() or isd.get_cell_resolution() != doc.get_cell_resolution() or \
      isd.get_px_resolution() != doc.get_px_resolution() or isd.get_active_area() != doc.get_active_area() or \
      isd.get_display_aspect_ratio() != doc.get_display_aspect_ratio():
    res.fail("shape:document-parameters", "")
  for region in isd.iter_regions():
    if not isinstance(region, ISD.Region):
      res.fail("shape:region-class", type(region).__name__)
    if len(region) > 1:
      res.fail("shape:region-more-than-one-body", region.get_id())
    # "without content": no text and no line break anywhere below the region (a region holding only childless containers has none)
    has_leaf = any(obs.kind_of(e) in ("text", "br") for e in region.dfs_iterator())
    if not has_leaf and region.get_style(PROP["ShowBackground"]) is not s.ShowBackgroundType.always:
      res.fail("shape:empty-region-without-showBackground-always" + ("" if len(region) == 0 else ":childless-containers"), region.get_id())
    if isd.get_region(region.get_id()) is not region:
      res.fail("shape:region-registration", region.get_id())
    stack = [(region, None)]
    while stack:
      e, parent = stack.pop()
      k = kind(e)
      eid = "%s %s" % (k, e.get_id())
      if id(e) in source_ids:
        res.fail("shape:node-shared-with-source", eid)
      if id(e) in seen_objects:
        res.fail("shape:node-shared-between-snapshots", eid)
      seen_objects.add(id(e))
      if e.get_doc() is not isd:
        res.fail("shape:node-not-owned-by-snapshot", eid)
      if e.parent() is not parent:
        res.fail("shape:parent-link", eid)
      if e.get_begin() is not None or e.get_end() is not None:
        res.fail("shape:has-timing", eid)
      if list(e.iter_animation_steps()):
        res.fail("shape:has-animation", eid)
      if e.get_region() is not None:
        res.fail("shape:has-region-reference", eid)
      children = list(e)
      prev = None
      for c in children:
        if c.previous_sibling() is not prev:
          res.fail("shape:sibling-link", eid)
        prev = c
      if children and (e.first_child() is not children[0] or e.last_child() is not children[-1]):
        res.fail("shape:first-last-link", eid)
      ck = [kind(c) for c in children]
      if k == "ruby":
        if ck not in RUBY_PATTERNS:
          res.fail("shape:content-model:ruby", "%s has %r" % (eid, ck))
      elif k == "rtc":
        inner = ck[1:-1] if len(ck) >= 2 and ck[0] == "rp" and ck[-1] == "rp" else ck
        if any(x != "rt" for x in inner) or not ck:
          res.fail("shape:content-model:rtc", "%s has %r" % (eid, ck))
      elif k in CONTENT_MODEL:
        bad = [x for x in ck if x not in CONTENT_MODEL[k]]
        if bad:
          res.fail("shape:content-model:" + k, "%s has %r" % (eid, bad))
      else:
        res.fail("shape:unknown-element-kind", eid)
      present = {p.__name__ for p in e.iter_styles()}
      want = APPLICABLE.get(k, set())
      if present - want:
        res.fail("shape:inapplicable-style:%s:%s" % (k, sorted(present - want)[0]), "%s carries %r" % (eid, sorted(present - want)))
      if want - present:
        res.fail("shape:missing-style:%s:%s" % (k, sorted(want - present)[0]), "%s lacks %r" % (eid, sorted(want - present)))
      for name in present:
        v = e.get_style(PROP[name])
        for l in lengths_in(v):
          if l.units not in (s.LengthType.Units.rh, s.LengthType.Units.rw):
            res.fail("shape:length-not-root-relative:%s:%s" % (name, l.units.name), "%s %s = %r" % (eid, name, v))
      if "Display" in present and e.get_style(PROP["Display"]) is s.DisplayType.none:
        res.fail("shape:display-none", eid)
      if k == "region":
        o, p = e.get_style(PROP["Origin"]), e.get_style(PROP["Position"])
        if o is not None and p is not None:
          if p.h_edge is not s.PositionType.HEdge.left or p.v_edge is not s.PositionType.VEdge.top or \
              not obs.close(obs.tl(o.x), obs.tl(p.h_offset)) or not obs.close(obs.tl(o.y), obs.tl(p.v_offset)):
            res.fail("shape:origin-position-differ", "%s origin %r position %r" % (eid, o, p))
      if k == "text" and e.get_text() == "":
        res.fail("shape:empty-text", "under %s" % kind(parent))
      if k == "span" and not children:
        res.fail("shape:childless-span", eid)
      for c in children:
        stack.append((c, e))


def check_lwsp(sn, g, res):
  """white-space rules of one region: reference leaves (source text) vs ISD leaves"""
  kinds = {eid: n["kind"] for eid, (n, _c) in sn.elements.items()}
  # a ruby that does not keep all its parts in the snapshot may be presented as spans without the rb / rbc levels (vt/obs.py)
  strip, _rubies, _optional = obs.ruby_flags(sn)
  def chain(c):
    return tuple(i for i in c if i not in strip)
  src = ref_lwsp.split_contexts([(l.kind, l.text, chain(l.chain), l.preserve) for l in sn.leaves], kinds)
  gkinds = {eid: obs.kind_of(e) for eid, e in g.elements.items()}
  out = ref_lwsp.split_contexts([(k, x, chain(c), None) for (k, x, c) in g.leaves], gkinds)
  for ctx, leaves in src.items():
    if ctx is None:
      continue
    got = out.get(ctx, [])
    if not got:
      continue        # the whole paragraph / annotation is absent from the snapshot: presence is C01's business, not a white-space matter
    texts = [l for l in leaves if l[0] == "text"]
    if all(not l[3] for l in texts):
      want = [ref_lwsp.collapse(x) for x in ref_lwsp.segments(leaves)]
      have = ref_lwsp.segments(got)
      if len(want) == len(have) and want != have:
        res.fail("lwsp:collapse:%s" % ctx[0], "%s: got %r expected %r (source %r)" % (ctx[1], have, want, [l[1] for l in texts]))
    # per-node rules: non-blank leaves carry unique tokens, so they are matched by content; blank preserved leaves by count
    gt = [l for l in got if l[0] == "text"]
    by_content = {}
    for l in gt:
      by_content.setdefault((l[2], nonspace(l[1])), []).append(l[1])
    for l in texts:
      key = (l[2], nonspace(l[1]))
      if not key[1]:
        continue
      found = by_content.get(key)
      if not found:
        continue      # a lost leaf is C01's business
      t = found[0]
      if l[3]:
        if t != l[1]:
          res.fail("lwsp:preserve-changed", "%r -> %r" % (l[1], t))
      elif any(ch in t for ch in "\t\r\n") or "  " in t:
        res.fail("lwsp:default-not-collapsed", "%r -> %r" % (l[1], t))
    # (e) a default-mode node that follows, on the same line, preserved text ending in XML white space does not begin with a space:
    # TTML2 maps xml:space=default to XSL-FO white-space-collapse=true / white-space-treatment=ignore-if-surrounding-linefeed, under
    # which a space that follows any white-space character (collapsing or not), or a preserved linefeed, is discarded
    prev = None
    for l in leaves:
      if l[0] != "text":
        prev = None
        continue
      if prev is not None and prev[3] and not l[3] and prev[1][-1:] in (" ", "\t", "\r", "\n") and nonspace(l[1]):
        if l[1][:1] in (" ", "\t", "\r", "\n"):
          res.label("lwsp:default-text-with-leading-space-after-preserved-white-space")
        found = by_content.get((l[2], nonspace(l[1])))
        if found and found[0].startswith(" "):
          res.fail("lwsp:space-kept-after-preserved-white-space", "%r after preserved %r -> %r" % (l[1], prev[1], found[0]))
      if l[1] != "":
        prev = l
    from collections import Counter
    want_blank = Counter((l[2], l[1]) for l in texts if l[3] and l[1] != "" and not nonspace(l[1]))
    have_blank = Counter((l[2], l[1]) for l in gt if not nonspace(l[1]))
    for key, n in want_blank.items():
      if have_blank.get(key, 0) < n:
        res.fail("lwsp:preserved-node-lost", "white-space-only preserved text %r under %s" % (key[1], "/".join(key[0])))


def check(case, res):
  spec = case["spec"]
  doc = gen_model.build(spec)
  ref = Ref(spec)
  times, _boundary = ref.probe_times(case["extra"])
  source_ids = {id(e) for e in doc.get_body().dfs_iterator()} if doc.get_body() is not None else set()
  source_ids |= {id(r) for r in doc.iter_regions()}
  seen = set()
  keep = []
  h = codec.chash(spec)
  res.evals = 0
  resolvable = {n["id"] for n in gen_model.all_nodes(spec) if n["kind"] != "text" and needs_resolution(n)}
  try:
    seq = ISD.generate_isd_sequence(doc)
  except Exception as e:  # pylint: disable=broad-except
    res.crash(e, "sequence:")
    seq = []
  snaps_to_check = [(t, None) for t in times] + [(t, isd) for t, isd in seq]
  for t, isd in snaps_to_check:
    res.evals += 1
    if isd is None:
      try:
        isd = ISD.from_model(doc, t)
      except Exception as e:  # pylint: disable=broad-except
        res.crash(e)
        continue
      res.labels["snapshot:from_model"] += 1
    else:
      res.labels["snapshot:sequence"] += 1
    keep.append(isd)
    check_shape(isd, doc, res, source_ids, seen)
    snaps = ref.snapshot(t)
    regions = {r.id: r for r in obs.observe(isd)}
    content = False
    resolved = False
    for sn in snaps:
      g = regions.get(sn.id)
      if g is None:
        continue
      check_lwsp(sn, g, res)
      if g.leaves:
        content = True
      if sn.id in resolvable or any(eid in resolvable for eid in g.elements):
        resolved = True
    if content and resolved:
      res.nt_keys.append("%s@%s" % (h, t))
  kinds = set(n["kind"] for n in gen_model.all_nodes(spec))
  res.label(*["kind:" + k for k in kinds if k in ("ruby", "br", "rtc", "rp")])
  if any(n["space"] == "preserve" for n in gen_model.all_nodes(spec)):
    res.label("has-preserve")


def cases(tier):
  return st.builds(lambda spec, extra: {"spec": spec, "extra": extra}, gen_model.docspecs(MAIN),
                   st.lists(st.fractions(0, 12, max_denominator=997), max_size=1))


def mix_space(spec, picks):
  """appends to some paragraphs a preserved text node ending in white space followed by a default-mode node beginning with white
  space (and the reverse order): the boundary between the two white-space modes on one line, rare in unbiased documents"""
  if spec["body"] is None:
    return spec
  k = 0
  for n in gen_model.walk(spec["body"]):
    if n["kind"] != "p" or k >= len(picks):
      continue
    tail, head, order = picks[k]
    k += 1
    def span(space, text, i):
      return dict(kind="span", id="%s_mx%d" % (n["id"], i), begin=None, end=None, region=None, styles={}, anims=[], space=space, lang="",
                  kids=[dict(kind="text", id=None, begin=None, end=None, region=None, styles={}, anims=[], kids=[], space=space, lang="", text=text)])
    a = span("preserve", "w9%d1" % k + tail, 1)
    b = span("default", head + "w9%d2  w9%d3 " % (k, k), 2)
    n["kids"].extend([a, b] if order else [b, a])
  return spec


def cases_mixed(tier):
  pick = st.tuples(st.sampled_from([" ", "\t", "\n", "\r", " \n", "  ", ""]), st.sampled_from([" ", "  ", "\n ", "\t", ""]), st.booleans())
  small = gen_model.profile(style_density=(0, 2), max_nodes=14, br_styles=False)
  return st.builds(lambda spec, extra, picks: {"spec": mix_space(spec, picks), "extra": extra}, gen_model.docspecs(small),
                   st.lists(st.fractions(0, 12, max_denominator=997), max_size=1), st.lists(pick, min_size=1, max_size=3))


RUBY_TIMED = gen_model.profile(style_density=(0, 3), max_nodes=24, br_styles=False, ruby_timed=True, ruby_full=True)


def cases_ruby(tier):
  return st.builds(lambda spec, extra: {"spec": spec, "extra": extra}, gen_model.docspecs(RUBY_TIMED),
                   st.lists(st.fractions(0, 12, max_denominator=997), max_size=1))


def blank_out(spec, picks):
  """every region shows its background only when active and some paragraphs hold nothing but collapsible white space: a region
  whose only active content is such a paragraph has no content at all and must be absent"""
  for r in spec["regions"]:
    r["styles"]["ShowBackground"] = s.ShowBackgroundType.whenActive
    r["anims"] = [a for a in r["anims"] if a[0] != "ShowBackground"]
  spec["initials"].pop("ShowBackground", None)
  if spec["body"] is None:
    return spec
  k = 0
  for n in gen_model.walk(spec["body"]):
    if n["kind"] == "p":
      if k < len(picks) and picks[k] is not None:
        for m in gen_model.walk(n):
          if m["kind"] == "text":
            m["text"] = picks[k]
          elif m is not n:
            m["space"] = "default"
        n["space"] = "default"
        n["kids"] = [x for x in n["kids"] if x["kind"] != "br"]
      k += 1
  return spec


def cases_blank(tier):
  small = gen_model.profile(style_density=(0, 2), max_nodes=14, br_styles=False, ruby=False, preserve=False, time_density=3)
  pick = st.sampled_from([None, " ", "  ", "\n\t", " \n "])
  return st.builds(lambda spec, extra, picks: {"spec": blank_out(spec, picks), "extra": extra}, gen_model.docspecs(small),
                   st.lists(st.fractions(0, 12, max_denominator=997), max_size=1), st.lists(pick, min_size=2, max_size=4))


PARTS = {
  "blank": Part("blank", check, strategy=cases_blank, n=(240, 16000), shrinker=SHRINK),
  # ruby parts with their own timing / display / region: snapshots in which a ruby keeps only some of its parts
  "ruby_timed": Part("ruby_timed", check, strategy=cases_ruby, n=(240, 16000), shrinker=SHRINK, required_labels=("kind:ruby", "kind:rtc")),
  "mixed_space": Part("mixed_space", check, strategy=cases_mixed, n=(240, 16000), shrinker=SHRINK,
                      required_labels=("lwsp:default-text-with-leading-space-after-preserved-white-space",)),
  "main": Part("main", check, strategy=cases, n=(400, 64000), shrinker=SHRINK,
               required_labels=("kind:ruby", "kind:br", "kind:rtc", "has-preserve", "snapshot:sequence")),
}
