"""C19 - `tt convert` equals the library pipeline, honours options, is deterministic."""
import copy
import os
import random
import subprocess
import tempfile

from hypothesis import strategies as st

from ttconv.filters.document_filter import DocumentFilter

from vt import gen_cli as g
from vt.run import Part, HarnessError

ID = "C19"
LEVEL = "exploration"
RULE = ("pipeline/precedence: Hypothesis command lines = (one of 19 small valid documents of the five input formats [13 repository "
        "fixtures, 6 hand-written]; reader type given by extension or --itype in any letter case, with matching / contradicting / "
        "missing extension, dotted directories and stems; writer ttml|srt|vtt likewise; --filter lists over lcd and two harness-defined "
        "DocumentFilter subclasses that do not commute; configuration JSON over every README key with documented values, passed "
        "inline / by file / both; option order shuffled).  errors / config_values: enumerations (every error scenario; every documented "
        "key x every listed valid and invalid value x 2 contexts).  determinism: seeded (target command biased to documents with several regions/colours, 2-4 other commands, hash seed 1|12345, log settings). "
        "evaluations = CLI runs judged.  non-trivial = the command converts, names >= 1 filter and sets >= 1 documented key of an active "
        "module to a non-default value (pipeline, config_values); the two configurations give different library output (precedence); "
        "the target converts after >= 2 other successful conversions (determinism); distinct by case hash (argv, config, input bytes).")
ASSUMPTIONS = [
  "the library API (readers, ModuleConfiguration.parse of each module, DocumentFilter registry, writers) is the reference; only tt.py's "
  "dispatch, configuration plumbing, option handling and process-global state are judged (what the readers/writers/filters compute is "
  "C05-C11/C16's business); the composition runs in the same interpreter as the in-process CLI run (alternating which runs first), "
  "fresh interpreters are used by the determinism part",
  "documented values = README.md sections 'General configuration', 'IMSC Writer configuration', 'STL Reader configuration', 'SRT "
  "Writer configuration', 'VTT Writer configuration', 'SCC Reader configuration', 'LCD filter configuration' transcribed into "
  "vt/gen_cli.py DOC: JSON true/false for boolean keys, the enumerated strings, \"<num>/<denom>\" for fps, \"TCP\" or HH:MM:SS:FF, "
  "\"MNR\" or an integer, integers 0-30 for safe_area, TTML named/#hex colours (and null for lcd.color); the README does not print the "
  "property name of the SCC reader section: \"scc_reader\" (SccReaderConfiguration.name()) is used",
  "invalid values asserted to be rejected are only: non-booleans for boolean keys, strings outside an enumeration, wrong JSON types, "
  "safe_area outside 0-30, malformed fps/timecode/colour strings, time_format frames|clock_time_with_frames without fps (README: fps "
  "'Required'); NOT asserted: booleans/floats for integer keys, numeric strings for safe_area, letter-case variants of enumerations, "
  "'DEBUG' as log level, RFC 5646 well-formedness of document_lang, unknown keys or modules, configuration of modules the command does "
  "not use, malformed JSON",
  "general.document_lang may be applied before or after the filters (the README does not order them): both compositions are accepted",
  "an input the selected reader rejects (exception or None) must end in an error without output; no particular message or exception "
  "type is asserted",
  "a missing sub-command (`tt` alone prints the help and exits 0) is only required not to create files: neither the README nor the "
  "property demands a non-zero status for it",
  "an unknown --filter name (tt.py logs 'Unknown filter' and skips it) is exercised and labelled but not asserted: the property names "
  "unsupported types and unknown sub-commands as errors, not unknown filters",
  "file-takes-precedence: the file replaces the inline dictionary as a whole (tt convert --help: '--config ... Overridden by "
  "--config_file', '--config_file ... Overrides --config'), so sections and keys present only inline must have no effect (labelled "
  "shapes inline-only-section / inline-only-key next to same-keys)",
]

CANON_ORDER = ["input", "output", "itype", "otype", "filters", "config", "config_file"]


# ------------------------------------------------------------------------------------------------ shared judging

def _read(path):
  if os.path.exists(path):
    with open(path, "rb") as f:
      return f.read()
  return None


def _rm(path):
  if os.path.exists(path):
    os.remove(path)


def _exc_name(outcome):
  if outcome.exc is not None:
    return type(outcome.exc).__name__
  return outcome.detail.split("(")[0].split(":")[0] or "error"


def nondefault_active(expect):
  """does the configuration set a documented key of a module this command uses to a non-default value (log settings do not count)"""
  for module, m in (expect["config"] or {}).items():
    if module in g.HARNESS_FILTERS and module in expect["filters"] and m:
      return True
    for key, v in m.items():
      d = g.DOC.get(module, {}).get(key)
      if d is None or key in ("log_level", "progress_bar"):
        continue
      if g.stage_active(d["used"], expect["reader"], expect["writer"], expect["filters"]) and v != d["default"]:
        return True
  return False


def label_command(cmd, res):
  e, spec = cmd["expect"], cmd.get("spec") or {}
  res.label("reader:" + e["reader"], "writer:" + e["writer"], "filters:" + (",".join(e["filters"]) or "none"),
            "config-mode:" + spec.get("config_mode", "?"))
  how = spec.get("how")
  if how:
    res.label("in:" + how[0], "out:" + how[1])
  if spec and spec["input"]["format"] != e["reader"]:
    res.label("content-of-another-format")
  for module, m in (e["config"] or {}).items():
    for key in m:
      res.label("cfgkey:%s.%s" % (module, key))


def diagnose(expect, root, got, inline=None):
  """names the simplest deviation from the contract that reproduces the CLI's bytes (bucket suffix)"""
  trials = []
  cfg, fl = expect["config"], expect["filters"]
  if inline is not None:
    trials.append(("inline-wins", dict(expect, config=inline)))
  if fl != fl[::-1]:
    trials.append(("filters-reversed", dict(expect, filters=fl[::-1])))
  once = list(dict.fromkeys(fl))
  if once != fl:
    trials.append(("filters-applied-once", dict(expect, filters=once)))
  if fl:
    trials.append(("filters-skipped", dict(expect, filters=[])))
    for i in range(len(fl)):
      trials.append(("one-filter-skipped", dict(expect, filters=fl[:i] + fl[i + 1:])))
  if cfg:
    if (cfg.get("general") or {}).get("document_lang") is not None:
      c2 = copy.deepcopy(cfg)
      del c2["general"]["document_lang"]
      trials.append(("document_lang-ignored", dict(expect, config=c2)))
    for module in cfg:
      if module != "general" and cfg[module]:
        trials.append(("config-ignored:" + module, dict(expect, config={k: v for k, v in cfg.items() if k != module})))
    trials.append(("config-ignored", dict(expect, config=None)))
  for name, e2 in trials:
    if g.try_compose(e2, root) == ("ok", got):
      return name
  return "%s-to-%s" % (expect["reader"], expect["writer"])


def judge_conversion(cmd, res, root, clause, oracle_first=False, inline=None):
  """runs the command in-process and the library composition; records failures; returns (converted?, expected bytes or None)"""
  argv = g.materialise(cmd, root)
  before = g.listing(root)
  expect = cmd["expect"]
  kind = exp = None
  if oracle_first:
    kind, exp = g.try_compose(expect, root)
  cli = g.run_inprocess(argv)
  got = _read(os.path.join(root, cmd["out"]))
  extra = g.listing(root) - before - {os.path.normpath(cmd["out"])}
  if not oracle_first:
    kind, exp = g.try_compose(expect, root)
  if kind == "ok":
    if cli.status != "ok":
      res.fail("%s:cli-error-library-converts:%s" % (clause, _exc_name(cli)), "%s | argv %r" % (cli.detail, cmd["argv"]))
    elif got is None:
      res.fail("%s:no-output-file" % clause, "argv %r" % (cmd["argv"],))
    elif got != exp:
      if g.try_compose(expect, root, lang="after") == ("ok", got):
        res.label("document_lang-applied-after-filters")
      else:
        res.fail("%s:bytes-differ:%s" % (clause, diagnose(expect, root, got, inline)),
                 "argv %r | cli wrote %d bytes, library composition %d bytes; first difference at byte %d" % (
                   cmd["argv"], len(got), len(exp), next((i for i, (a, b) in enumerate(zip(got, exp)) if a != b), min(len(got), len(exp)))))
    res.label("outcome:converted")
    return cli.status == "ok" and got == exp, exp
  res.label("outcome:library-rejects", "library-rejects:" + exp.split(":")[0][:40])
  if cli.status == "ok":
    res.fail("%s:cli-converts-library-rejects:%s-to-%s" % (clause, expect["reader"], expect["writer"]), "library: %s | argv %r" % (exp, cmd["argv"]))
  elif got is not None or extra:
    res.fail("%s:output-left-after-error" % clause, "%s | files %r" % (cli.detail, sorted(extra) or cmd["out"]))
  return False, None


# ------------------------------------------------------------------------------------------------ (1) pipeline

def check_pipeline(case, res):
  with tempfile.TemporaryDirectory(prefix="vt-c19-") as root:
    label_command(case, res)
    ok, _ = judge_conversion(case, res, root, "pipeline", case.get("oracle_first", False))
    res.nontrivial = bool(ok and case["expect"]["filters"] and nondefault_active(case["expect"]))
    if res.nontrivial:
      res.label("nontrivial")


@st.composite
def _pipeline_cases(draw):
  ch = g.HypChooser(draw)
  spec = g.gen_spec(ch)
  return dict(g.build_command(spec), clause="pipeline", oracle_first=ch.boolean())


def pipeline_strategy(_tier):
  return _pipeline_cases()


def shrink_command(case):
  for s in g.spec_simplifications(case["spec"]):
    yield dict(g.build_command(s), clause=case.get("clause"), oracle_first=case.get("oracle_first", False))


# ------------------------------------------------------------------------------------------------ (2) precedence

def check_precedence(case, res):
  with tempfile.TemporaryDirectory(prefix="vt-c19-") as root:
    label_command(case, res)
    res.label("precedence:" + case.get("shape", "same-keys"))
    inline = case["spec"]["inline_config"]
    ok, exp = judge_conversion(case, res, root, "precedence", case.get("oracle_first", False), inline=inline)
    if exp is not None:
      other = g.try_compose(dict(case["expect"], config=inline), root)
      observable = other[0] == "ok" and other[1] != exp
      res.label("precedence:observable" if observable else "precedence:same-output-either-way")
      res.nontrivial = bool(ok and observable)


@st.composite
def _precedence_cases(draw):
  ch = g.HypChooser(draw)
  spec = g.gen_spec(ch, p_mismatch=0)
  cfg = g.gen_config(ch, spec["reader"], spec["writer"], spec["filters"], 0.9, 0.7)
  cfg = {m: v for m, v in (cfg or {}).items() if v}
  if not cfg:
    cfg = {"general": {"document_lang": ch.choice(g.DOC["general"]["document_lang"]["valid"])}}
  inline = g.vary_config(ch, cfg)
  # "--config_file ... Overrides --config" (tt convert --help): the inline dictionary is not consulted at all when a file is given,
  # so a module section or a key that only the inline configuration holds must have no effect
  shape = ch.choice(["same-keys", "same-keys", "inline-only-section", "inline-only-key"])
  if shape == "inline-only-section" and len(cfg) >= 2:
    cfg = dict(cfg)
    del cfg[ch.choice(sorted(cfg))]
  elif shape == "inline-only-key":
    multi = sorted(m for m in cfg if len(cfg[m]) >= 2)
    if multi:
      m = ch.choice(multi)
      cfg = dict(cfg, **{m: dict(cfg[m])})
      del cfg[m][ch.choice(sorted(cfg[m]))]
      if m == "imsc_writer" and cfg[m].get("time_format") in ("frames", "clock_time_with_frames") and "fps" not in cfg[m]:
        cfg[m]["time_format"] = "clock_time"
    else:
      shape = "same-keys"
  else:
    shape = "same-keys"
  spec.update(config=cfg, inline_config=inline, config_mode="both")
  return dict(g.build_command(spec), clause="precedence", oracle_first=ch.boolean(), shape=shape)


def precedence_strategy(_tier):
  return _precedence_cases()


# ------------------------------------------------------------------------------------------------ (3) errors

def base_spec(inp, writer, **kw):
  fmt = kw.get("reader", inp["format"])
  s = {"input": inp, "reader": fmt, "writer": writer, "in_path": "in." + fmt, "itype": None, "out_path": "out." + writer, "otype": None,
       "filters": [], "config": None, "config_mode": "none", "inline_config": None, "long_opts": False, "order": list(CANON_ORDER),
       "how": ["by-ext", "by-ext"], "pretty_file": False}
  s.update(kw)
  return s


ERROR_SCENARIOS = (
  [("unsupported-itype", {"itype": v}) for v in ("xyz", "ttm", "sccc", "doc")] +
  [("unsupported-input-extension", {"in_path": v}) for v in ("in.txt", "in.xml", "in", "in.sc", "in.ttml.bak", "a.ttml/in")] +
  [("unsupported-otype", {"otype": v}) for v in ("scc", "stl", "SCC", "xyz", "pdf")] +
  [("unsupported-output-extension", {"out_path": v}) for v in ("out.scc", "out.STL", "out.txt", "out", "out.ttml.bak", "a.srt/out")] +
  [("unknown-subcommand", {"_sub": v}) for v in ("covert", "transcode", "CONVERT")] +
  [("missing-subcommand", {"_sub": None}), ("missing-subcommand", {"_sub": ""})] +
  [("unknown-filter", {"filters": v}) for v in (["nope"], ["lcd", "nope"], ["nope", "lcd"], ["lcdd"])]
)

def error_cases(seed):
  out = []
  k = seed
  via_subprocess = set()
  for scenario, kw in ERROR_SCENARIOS:
    for rep in range(2):
      k += 1
      inp = g.INPUTS[(k * 7) % len(g.INPUTS)]
      writer = g.OUT_FORMATS[k % 3]
      kw2 = {a: b for a, b in kw.items() if not a.startswith("_")}
      if rep and "filters" not in kw2:
        kw2["filters"] = ["lcd"]
      if rep:
        kw2.update(config={"general": {"progress_bar": False, "log_level": "WARN"}}, config_mode="inline")
      cmd = g.build_command(base_spec(inp, writer, **kw2))
      if "_sub" in kw:
        sub = kw["_sub"]
        if sub is None:
          cmd["argv"] = []                          # `tt`
        elif sub == "":
          cmd["argv"] = cmd["argv"][1:]             # `tt -i ... -o ...`
        else:
          cmd["argv"] = [sub] + cmd["argv"][1:]
      cmd["expect"] = {"outcome": "error", "why": scenario}
      via = "inprocess"
      if scenario not in via_subprocess:            # the first variant of every scenario also runs as a real process
        via_subprocess.add(scenario)
        via = "subprocess"
      out.append(dict(cmd, clause="errors", scenario=scenario, via=via, assert_status=scenario not in ("missing-subcommand", "unknown-filter")))
  return out


def errors_chunks(_tier, seed):
  return [(seed, i, 8) for i in range(8)]


def errors_iter(chunk):
  seed, i, n = chunk
  return iter(error_cases(seed)[i::n])


def check_errors(case, res):
  with tempfile.TemporaryDirectory(prefix="vt-c19-") as root:
    argv = g.materialise(case, root)
    before = g.listing(root)
    cli = g.run_subprocess(argv) if case.get("via") == "subprocess" else g.run_inprocess(argv)
    new = g.listing(root) - before
    scenario = case["scenario"]
    res.label("errors:" + scenario, "errors:via-" + case.get("via", "inprocess"),
              "errors:%s:%s" % (scenario, "terminates-normally" if cli.status == "ok" else "error-status"))
    if case.get("assert_status", True) and cli.status != "error":
      res.fail("errors:%s:terminates-normally" % scenario, "argv %r ended with status 0" % (case["argv"],))
    if new and scenario != "unknown-filter":
      res.fail("errors:%s:file-created" % scenario, "argv %r created %r" % (case["argv"], sorted(new)))
    res.nontrivial = True


# ------------------------------------------------------------------------------------------------ (4) configuration values

def config_class(module):
  if module in g.CONFIG_CLASSES:
    return g.CONFIG_CLASSES[module]
  f = DocumentFilter.get_filter_by_name(module)
  if f is None:
    raise HarnessError("no configuration class for %r" % module)
  return f.get_config_class()


def config_value_cases(seed):
  out = []
  k = seed

  def add(module, key, used, kind, cls, cfg):
    nonlocal k
    for rep in range(2):
      k += 1
      what = used.split(":")
      pool = g.inputs_of(what[1]) if what[0] == "reader" else g.INPUTS
      inp = pool[(k * 5) % len(pool)]
      writer = what[1] if what[0] == "writer" else g.OUT_FORMATS[k % 3]
      filters = ["lcd"] if what[0] == "filter" or (used == "any" and k % 4 == 0) else []
      spec = base_spec(inp, writer, filters=filters, config=copy.deepcopy(cfg), config_mode="inline" if rep == 0 else "file",
                       pretty_file=bool(k % 2))
      out.append(dict(g.build_command(spec), clause="config_values", key="%s.%s" % (module, key), value_kind=kind, value_class=cls))

  for module, keys in g.DOC.items():
    for key, d in keys.items():
      for v in d["valid"]:
        m = {key: v}
        if (module, key) == ("imsc_writer", "time_format") and v != "clock_time":
          m["fps"] = "25/1"
        add(module, key, d["used"], "valid", None, {module: m})
      for cls, v in d["invalid"]:
        m = {key: v}
        if (module, key) == ("imsc_writer", "time_format"):
          m["fps"] = "25/1"
        add(module, key, d["used"], "invalid", cls, {module: m})
  # README, fps: "Required when time_format is frames or clock_time_with_frames"
  for v in ("frames", "clock_time_with_frames"):
    add("imsc_writer", "time_format", "writer:ttml", "invalid", "fps-missing", {"imsc_writer": {"time_format": v}})
  return out


def config_chunks(_tier, seed):
  return [(seed, i, 16) for i in range(16)]


def config_iter(chunk):
  seed, i, n = chunk
  return iter(config_value_cases(seed)[i::n])


def check_config_value(case, res):
  module, key = case["key"].split(".")
  value = case["expect"]["config"][module].get(key)
  res.label("config:%s:%s" % (case["value_kind"], case["key"]))
  with tempfile.TemporaryDirectory(prefix="vt-c19-") as root:
    if case["value_kind"] == "valid":
      try:
        parsed = config_class(module).parse({key: value})
      except Exception as e:  # pylint: disable=broad-except
        res.fail("config_values:valid-rejected-by-parser:" + case["key"], "%r: %s: %s" % (value, type(e).__name__, e))
        parsed = None
      if parsed is not None and isinstance(value, bool) and getattr(parsed, key) is not value:
        res.fail("config_values:parsed-value:bool:" + case["key"], "%r parsed as %r" % (value, getattr(parsed, key)))
      ok, _ = judge_conversion(case, res, root, "config_values")
      res.label("config:valid:converted" if ok else "config:valid:not-converted")
      res.nontrivial = bool(ok and nondefault_active(case["expect"]))
      return
    argv = g.materialise(case, root)
    before = g.listing(root)
    cli = g.run_inprocess(argv)
    new = g.listing(root) - before
    res.label("config:invalid:" + ("accepted" if cli.status == "ok" else "rejected"))
    if cli.status == "ok":
      res.fail("config_values:invalid-accepted:%s:%s" % (case["value_class"], case["key"]),
               "%s = %s accepted, %s; argv %r" % (case["key"], g.json.dumps(value), "output written" if new else "no output", case["argv"]))
    elif new:
      res.fail("config_values:invalid-output-left:" + case["key"], "%s = %s: %s but created %r" % (case["key"], g.json.dumps(value), cli.detail, sorted(new)))
    res.nontrivial = True


# ------------------------------------------------------------------------------------------------ (5) determinism

LOG_SETTINGS = (["ERROR", False], ["WARN", True], ["INFO", False], ["INFO", True], ["WARN", False])


# documents with several regions / colours / styles: where an iteration-order or state dependence would have something to reorder
RICH = ("repo:scc/mix-rows-roll-up.scc", "repo:scc/pop-on.scc", "repo:stl/sandflow/br_new_colors.stl", "repo:stl/sandflow/multi_tti_subtitle.stl",
        "repo:stl/irt/requirement-0091-001.stl", "repo:vtt/style.vtt", "repo:vtt/alignment.vtt", "hand:vtt-settings", "hand:ttml-regions",
        "hand:srt-tags")


def determinism_cases(seed, n):
  ch = g.RngChooser(random.Random(seed * 104729 + 19))
  pool = [i for i in g.INPUTS if i["name"] in RICH] * 3 + g.INPUTS
  out = []
  for i in range(n):
    t = g.gen_spec(ch, inputs=pool, filter_lists=g.SUBPROCESS_FILTER_LISTS, p_mismatch=0.03)
    if t["config"] and ch.boolean(0.5):
      t["config"].pop("general", None)          # state left behind by an earlier conversion would show
    hist = []
    for _ in range(ch.integer(2, 4)):
      h = g.gen_spec(ch, p_mismatch=0.05)
      if ch.boolean(0.7):
        if h["config"] is None:
          h["config"], h["config_mode"] = {}, "inline"
        h["config"].setdefault("general", {})["document_lang"] = ch.choice(["es-419", "fr-CA", "de"])
      if "lcd" in h["filters"] and h["config"] is not None:
        h["config"].setdefault("lcd", {}).update(color=ch.choice(["red", "#00ff00"]), bg_color=ch.choice(["blue", "black"]))
      hist.append(g.build_command(h))
    out.append({"clause": "determinism", "target": g.build_command(t), "history": hist, "hashseed": (1, 12345)[(i + seed) % 2],
                "log_inprocess": LOG_SETTINGS[(i + seed) % len(LOG_SETTINGS)],
                "log_subprocess": LOG_SETTINGS[(i // 4 + seed) % len(LOG_SETTINGS)] if i % 4 == 0 else None})
  return out


def determinism_chunks(tier, seed):
  n = 32 if tier == "quick" else 480
  return [(seed, n, i, 16) for i in range(16)]


def determinism_iter(chunk):
  seed, n, i, k = chunk
  return iter(determinism_cases(seed, n)[i::k])


def with_log_settings(cmd, settings):
  """the same command with general.log_level / general.progress_bar set"""
  spec = copy.deepcopy(cmd["spec"])
  cfg = spec["config"] if spec["config"] is not None else {}
  cfg.setdefault("general", {}).update(log_level=settings[0], progress_bar=settings[1])
  spec["config"] = cfg
  if spec["config_mode"] == "none":
    spec["config_mode"] = "inline"
  return g.build_command(spec)


def check_determinism(case, res):
  target = case["target"]
  with tempfile.TemporaryDirectory(prefix="vt-c19-") as root:
    troot = os.path.join(root, "t")
    argv = g.materialise(target, troot)
    out = os.path.join(troot, target["out"])

    def run(fn, a=argv, o=out):
      _rm(o)
      r = fn(a)
      data = _read(o)
      _rm(o)
      return (r.status, data if r.status == "ok" else None), r

    label_command(target, res)
    runs = 0
    fresh, fr = run(lambda a: g.run_subprocess(a, 0))
    kind, exp = g.try_compose(target["expect"], troot)
    want = ("ok", exp) if kind == "ok" else ("error", None)
    if fresh != want:
      res.fail("determinism:fresh-process-differs-from-library", "subprocess %s (%s), library %s | argv %r" % (fresh[0], fr.detail[:200], kind, target["argv"]))
    # in some cases the other conversions also run once before the target's first in-process run, in the target's directory: whatever
    # they leave behind in the process (say, a cache keyed by a file path) then meets the target's files under the same paths
    if case["history"] and len(target["argv"]) % 2 == 0:
      res.label("history-before-the-first-in-process-run")
      for h in case["history"]:
        g.run_inprocess(g.materialise(h, troot))
      if g.materialise(target, troot) != argv:
        raise HarnessError("materialise is not repeatable")
    first, _ = run(g.run_inprocess)
    second, _ = run(g.run_inprocess)
    runs += 3
    if first != fresh:
      res.fail("determinism:in-process-differs-from-fresh-process", "argv %r: %s vs %s" % (target["argv"], first[0], fresh[0]))
    if second != first:
      res.fail("determinism:repeat-differs", "argv %r" % (target["argv"],))
    converted = 0
    # three histories in four run their other conversions in the target's own directory: their input and configuration files then have
    # the paths of the target's files, with other content (the target's files are written again afterwards)
    shared = bool(case["history"]) and (len(case["history"]) + len(target["argv"])) % 4 != 0
    if shared:
      res.label("history-in-the-target-directory")
    for i, h in enumerate(case["history"]):
      hroot = troot if shared else os.path.join(root, "h%d" % i)
      hargv = g.materialise(h, hroot)
      hout = os.path.join(hroot, h["out"]) if h.get("out") else None
      if hout:
        _rm(hout)
      r = g.run_inprocess(hargv)
      converted += r.status == "ok"
      res.label("history:" + ("converted" if r.status == "ok" else "error"))
      if shared and hout:
        # the other conversions are held to the library pipeline too (they meet the target's files under their own paths)
        hk, hexp = g.try_compose(h["expect"], hroot)
        got = ("ok", _read(hout)) if r.status == "ok" else ("error", None)
        if got != (("ok", hexp) if hk == "ok" else ("error", None)):
          res.fail("determinism:history-dependent:conversion-after-others-differs-from-library",
                   "conversion %d of the history %r: %s, library %s" % (i, h["argv"], got[0], hk))
        _rm(hout)
    if shared:
      if g.materialise(target, troot) != argv:
        raise HarnessError("materialise is not repeatable")
    third, _ = run(g.run_inprocess)
    runs += len(case["history"]) + 1
    if third != first:
      last = case["history"][-1]["expect"] if case["history"] else None
      res.fail("determinism:history-dependent", "argv %r gives other bytes after %d other conversions (last: %s to %s, filters %r)" % (
        target["argv"], len(case["history"]), last and last["reader"], last and last["writer"], last and last["filters"]))
    # the same other conversions in the opposite order
    for i, h in reversed(list(enumerate(case["history"]))):
      g.run_inprocess(g.materialise(h, os.path.join(root, "r%d" % i)))
    fourth, _ = run(g.run_inprocess)
    runs += len(case["history"]) + 1
    if fourth != first:
      res.fail("determinism:history-dependent", "argv %r gives other bytes after the %d other conversions in reverse order" % (
        target["argv"], len(case["history"])))
    # log / progress settings, in-process
    lv = with_log_settings(target, case["log_inprocess"])
    vroot = os.path.join(root, "v")
    vargv = g.materialise(lv, vroot)
    logged, _ = run(g.run_inprocess, vargv, os.path.join(vroot, lv["out"]))
    runs += 1
    if logged != first:
      res.fail("determinism:log-settings:in-process", "general %r changes the output of argv %r" % (case["log_inprocess"], target["argv"]))
    # fresh interpreters: another hash seed; for every fourth case also other log settings
    launches = 2
    hs = case["hashseed"]
    other, _ = run(lambda a: g.run_subprocess(a, hs))
    if other != fresh:
      res.fail("determinism:hashseed", "PYTHONHASHSEED=%s changes the output of argv %r" % (hs, target["argv"]))
    res.label("hashseed:%d" % hs)
    if case.get("log_subprocess"):
      lv2 = with_log_settings(target, case["log_subprocess"])
      v2root = os.path.join(root, "v2")
      v2argv = g.materialise(lv2, v2root)
      other, _ = run(lambda a: g.run_subprocess(a, 0), v2argv, os.path.join(v2root, lv2["out"]))
      if other != fresh:
        res.fail("determinism:log-settings:fresh-process", "general %r changes the output of argv %r" % (case["log_subprocess"], target["argv"]))
      launches += 1
      res.label("log-settings-in-fresh-process")
    runs += launches - 1
    res.stats = {"subprocess-launches": launches}
    res.evals = runs
    res.nontrivial = fresh[0] == "ok" and converted >= 2
    res.label("target:" + ("converted" if fresh[0] == "ok" else "error"))


def shrink_determinism(case):
  for i in range(len(case["history"])):
    yield dict(case, history=case["history"][:i] + case["history"][i + 1:])
  for s in g.spec_simplifications(case["target"]["spec"]):
    if all(f in ("lcd",) for f in s["filters"]):
      yield dict(case, target=g.build_command(s))
  for i, h in enumerate(case["history"]):
    for s in g.spec_simplifications(h["spec"]):
      yield dict(case, history=case["history"][:i] + [g.build_command(s)] + case["history"][i + 1:])


# ------------------------------------------------------------------------------------------------ self-test, parts

def selftest():
  import ttconv
  repo = os.path.realpath(os.environ.get("VT_REPO", "/repo"))
  if not os.path.realpath(ttconv.__file__).startswith(repo + os.sep):
    raise HarnessError("ttconv imported from %s, not from VT_REPO %s" % (ttconv.__file__, repo))
  p = subprocess.run([g.PY, "-c", "import ttconv; print(ttconv.__file__)"], env=g.subprocess_env(0), capture_output=True, text=True, check=False)
  if p.returncode != 0 or not os.path.realpath(p.stdout.strip()).startswith(repo + os.sep):
    raise HarnessError("subprocesses import ttconv from %r, not from VT_REPO %s" % (p.stdout.strip() or p.stderr[-200:], repo))
  for name in g.HARNESS_FILTERS + ("lcd",):
    if DocumentFilter.get_filter_by_name(name) is None:
      raise HarnessError("filter %r is not registered" % name)
  # the transcribed table names only keys the README prints
  for readme in (os.path.join(repo, "README.md"), "/repo/README.md"):
    if os.path.exists(readme):
      with open(readme, encoding="utf-8") as f:
        text = f.read()
      for module, keys in g.DOC.items():
        for key in keys:
          if '"%s"' % key not in text:
            raise HarnessError("README.md does not document %s.%s" % (module, key))
      break
  # the composition converts every input to every output, and the harness filters do not commute
  with tempfile.TemporaryDirectory(prefix="vt-c19-") as root:
    for n, inp in enumerate(g.INPUTS):
      for writer in g.OUT_FORMATS:
        cmd = g.build_command(base_spec(inp, writer))
        d = os.path.join(root, "%d%s" % (n, writer))
        g.materialise(cmd, d)
        data = g.compose(cmd["expect"], d)
        if not data and writer != "srt":      # a document without timed content is an empty SRT file
          raise HarnessError("composition wrote nothing for %s to %s" % (inp["name"], writer))
    inp = g.inputs_of("srt")[0]
    outs = set()
    for fl in (["vt_append", "vt_upper"], ["vt_upper", "vt_append"], ["vt_append"], ["vt_append", "vt_append"], []):
      cmd = g.build_command(base_spec(inp, "srt", filters=fl))
      d = os.path.join(root, "f" + "".join(x[3] for x in fl))
      g.materialise(cmd, d)
      outs.add(g.compose(cmd["expect"], d))
    if len(outs) != 5:
      raise HarnessError("harness filters do not distinguish order / repetition")


_KEY_LABELS = tuple("cfgkey:%s.%s" % (m, k) for m, keys in g.DOC.items() for k in keys)

PARTS = {
  "pipeline": Part("pipeline", check_pipeline, strategy=pipeline_strategy, n=(1600, 24000), shrinker=shrink_command,
                   required_labels=tuple("reader:" + f for f in g.IN_FORMATS) + tuple("writer:" + f for f in g.OUT_FORMATS) + _KEY_LABELS + (
                     "in:by-ext", "in:by-type", "in:by-type-over-ext", "in:by-type-noext", "out:by-ext", "out:by-type", "out:by-type-over-ext",
                     "out:by-type-noext", "filters:none", "filters:lcd", "filters:lcd,lcd", "filters:vt_append,vt_upper",
                     "filters:vt_upper,vt_append", "config-mode:none", "config-mode:inline", "config-mode:file", "config-mode:both-same",
                     "outcome:converted", "outcome:library-rejects", "nontrivial")),
  "precedence": Part("precedence", check_precedence, strategy=precedence_strategy, n=(480, 8000), shrinker=shrink_command,
                     required_labels=("precedence:observable", "config-mode:both", "precedence:inline-only-section", "precedence:inline-only-key")),
  "errors": Part("errors", check_errors, chunks=errors_chunks, cases=errors_iter,
                 required_labels=tuple("errors:" + s for s in sorted({s for s, _ in ERROR_SCENARIOS})) + ("errors:via-subprocess",)),
  "config_values": Part("config_values", check_config_value, chunks=config_chunks, cases=config_iter,
                        required_labels=("config:valid:converted", "config:invalid:rejected")),
  "determinism": Part("determinism", check_determinism, chunks=determinism_chunks, cases=determinism_iter, shrinker=shrink_determinism,
                      required_labels=("target:converted", "hashseed:1", "hashseed:12345", "history:converted", "log-settings-in-fresh-process")),
}


def finish(ctx):
  labels = ctx.acc.labels
  if "config_values" in ctx.parts:
    missing = [k for m, keys in g.DOC.items() for k in keys
               if not labels.get("config:valid:%s.%s" % (m, k)) or not labels.get("config:invalid:%s.%s" % (m, k))]
    if missing:
      raise HarnessError("configuration keys without a valid and an invalid probe: %r" % missing)
  ctx.extra["subprocess_launches"] = labels.get("subprocess-launches", 0) + labels.get("errors:via-subprocess", 0) + 1
  ctx.extra["documented_keys"] = sum(len(k) for k in g.DOC.values())
