"""C12 - time-code arithmetic is exact, monotone and invertible."""
import random
from fractions import Fraction

from hypothesis import strategies as st

from ttconv.time_code import SmpteTimeCode, ClockTime
import ttconv.imsc.attributes as attrs

from vt import ref_timecode as ref
from vt.run import Part, Res, Acc, run_check

ID = "C12"
LEVEL = "exploration"
RULE = ("frames part: frame counts n of each SMPTE rate (24,25,30,50,60,30000/1001,60000/1001; 24000/1001 separately) enumerated "
        "(thorough: every n of 24 h; quick: first 11 minutes, +-40 frames around each of the 1440 minute boundaries, 100k seeded random n); "
        "every n is distinct by construction; non-trivial = label within 2 frames of a minute boundary or n/fps not exactly "
        "representable as a binary double. clock/seconds/writer parts: Hypothesis rationals (k/fps, k/fps+-delta, ms multiples, "
        "denominators <= 10^6) and floats in [0,100h); non-trivial = value not a millisecond multiple (clock) / exact frame boundary "
        "or within 1e-6 of one (seconds), distinct by value hash.")
ASSUMPTIONS = [
  "reference labels come from vt/ref_timecode.py (integer SMPTE ST 12-1 drop-frame counting), self-tested at start-up",
  "24000/1001: from_frames/to_frames identity, monotone labels, field ranges and the exact rational offset frames / rate are asserted (there is no SMPTE drop-frame definition to compare labels with)",
  "arbitrary floats passed to SmpteTimeCode.from_seconds need only land on the containing or an adjacent frame",
]

RATE_LIST = list(ref.RATES)
R23976 = Fraction(24000, 1001)


def selftest():
  ref.selftest()


def rate_name(rate):
  return str(rate.numerator) if rate.denominator == 1 else "%d/%d" % (rate.numerator, rate.denominator)


def fields(tc):
  return (tc.get_hours(), tc.get_minutes(), tc.get_seconds(), tc.get_frames())


def check_frame(case, res):
  """all per-frame-count laws for case = {"rate": Fraction, "n": int}"""
  rate, n = case["rate"], case["n"]
  rn = rate_name(rate)
  nominal = ref.RATES[rate][0]
  exp = ref.label(rate, n)
  tc = SmpteTimeCode.from_frames(n, rate)
  got = fields(tc)
  if not all(isinstance(x, int) for x in got):
    res.fail("from_frames-field-type:" + rn, "n=%d fields=%r" % (n, got))
  if not (got[1] < 60 and got[2] < 60 and 0 <= got[3] < nominal):
    res.fail("from_frames-field-range:" + rn, "n=%d fields=%r" % (n, got))
  if ref.is_skipped(rate, *got):
    res.fail("from_frames-skipped-label:" + rn, "n=%d fields=%r" % (n, got))
  if got != exp:
    res.fail("from_frames-label:" + rn, "n=%d got=%r expected=%r" % (n, got, exp))
  back = tc.to_frames()
  if back != n:
    res.fail("to_frames-inverse:" + rn, "n=%d label=%r to_frames=%r" % (n, got, back))
  # independent construction from the reference label
  tc2 = SmpteTimeCode(exp[0], exp[1], exp[2], exp[3], rate)
  if tc2.to_frames() != n:
    res.fail("to_frames-value:" + rn, "label=%r to_frames=%r expected %d" % (exp, tc2.to_frames(), n))
  off = tc2.to_temporal_offset()
  if off != Fraction(n) / rate or not isinstance(off, Fraction):
    res.fail("temporal-offset:" + rn, "label=%r offset=%r expected %r" % (exp, off, Fraction(n) / rate))
  # printing and parsing
  s = str(tc2)
  sep = ";" if ref.RATES[rate][1] else ":"
  exp_s = "%02d:%02d:%02d%s%02d" % (exp[0], exp[1], exp[2], sep, exp[3])
  if s != exp_s:
    res.fail("str:" + rn, "label=%r str=%r expected %r" % (exp, s, exp_s))
  for base in (rate, Fraction(nominal)):
    p = SmpteTimeCode.parse(s, base)
    if fields(p) != exp or str(p) != s or p.get_frame_rate() != rate:
      res.fail("parse-roundtrip:" + rn, "str=%r base=%s parsed=%r at %s" % (s, base, str(p), p.get_frame_rate()))
  # a time exactly on the frame boundary is that frame
  t = Fraction(n) / rate
  fs = SmpteTimeCode.from_seconds(t, rate)
  if fields(fs) != exp:
    res.fail("from_seconds-boundary:" + rn, "t=%s (frame %d) got=%r expected=%r" % (t, n, fields(fs), exp))
  if t.denominator == 1:
    fi = SmpteTimeCode.from_seconds(int(t), rate)
    if fields(fi) != exp:
      res.fail("from_seconds-int:" + rn, "t=%s got=%r expected=%r" % (t, fields(fi), exp))
  # successor: strictly increasing labels, add_frames(1) reaches it
  nxt = ref.label(rate, n + 1)
  tc3 = SmpteTimeCode(exp[0], exp[1], exp[2], exp[3], rate)
  printed_before = str(tc3)
  tc3.add_frames()
  g3 = fields(tc3)
  if g3 != nxt:
    res.fail("add_frames-1:" + rn, "label=%r +1 -> %r expected %r" % (exp, g3, nxt))
  # the printed form follows the time code (a time code that was printed before it was advanced prints its new label)
  nxt_s = "%02d:%02d:%02d%s%02d" % (nxt[0], nxt[1], nxt[2], sep, nxt[3])
  if str(tc3) != nxt_s:
    res.fail("str-after-add_frames:" + rn, "label=%r printed %r, after add_frames() printed %r expected %r" % (exp, printed_before, str(tc3), nxt_s))
  if not g3 > exp:
    res.fail("labels-not-increasing:" + rn, "label(n)=%r label(n+1)=%r" % (exp, g3))
  # adding k frames at once equals k single additions, on objects returned by from_frames; a time code obtained earlier for
  # the same frame count is not affected (each call stands for the frame count it was given, whatever happened to earlier results)
  # (small steps; a step of a little more than a minute every 1024th frame count; one of exactly an hour of labels every 4096th + 7)
  k = 3600 * nominal if n % 4096 == 7 else 2 + n % 3 if n % 1024 else 61 * nominal + n % 7
  want = ref.label(rate, n + k)
  a = SmpteTimeCode.from_frames(n, rate)
  a.add_frames(k)
  if fields(a) != want:
    res.fail("add_frames-k:" + rn, "from_frames(%d) +%d -> %r expected %r" % (n, k, fields(a), want))
  b = SmpteTimeCode.from_frames(n, rate)
  if fields(b) != exp or b.to_frames() != n:
    res.fail("from_frames-after-add_frames:" + rn, "from_frames(%d) after add_frames on an earlier result: %r expected %r" % (n, fields(b), exp))
  for _ in range(k if k <= 5000 else 0):
    b.add_frames()
  if k <= 5000 and fields(b) != want:
    res.fail("add_frames-k-vs-singles:" + rn, "label=%r: %d single additions -> %r, add_frames(%d) -> %r" % (exp, k, fields(b), k, want))
  res.nt_key = (exp, t)


def is_nontrivial(rate, exp, t):
  nominal = ref.RATES[rate][0]
  fim = exp[2] * nominal + exp[3]
  if fim <= 2 + ref.RATES[rate][1] or fim >= 60 * nominal - 2:
    return True
  d = t.denominator
  return d & (d - 1) != 0


def fast_frames(chunk):
  rate, ranges = chunk
  acc = Acc()
  k = 0
  for (a, b) in ranges:
    for n in range(a, b):
      case = {"rate": rate, "n": n}
      res = run_check(check_frame, case)
      exp, t = res.nt_key if res.nt_key else (None, None)
      res.nt_key = None
      acc.evaluations += 1
      if exp is not None and is_nontrivial(rate, exp, t):
        acc.nt_counted += 1
        if k < 2 and n % 977 == 0:
          acc.samples.append({"rate": rate_name(rate), "n": n, "label": list(exp)})
          k += 1
      if res.fails:
        acc.evaluations -= 1
        acc.add(case, res)
  acc.labels["rate:" + rate_name(rate)] += acc.evaluations
  return acc


def _split(rate, ranges, pieces):
  """splits a list of disjoint ranges into about `pieces` chunks of similar size"""
  total = sum(b - a for a, b in ranges)
  per = max(1, -(-total // pieces))
  out, cur, curn = [], [], 0
  for a, b in ranges:
    while a < b:
      take = min(b - a, per - curn)
      cur.append((a, a + take))
      curn += take
      a += take
      if curn >= per:
        out.append((rate, cur))
        cur, curn = [], 0
  if cur:
    out.append((rate, cur))
  return out


def _merge_ranges(ranges, hi):
  ranges = sorted((max(0, a), min(hi, b)) for a, b in ranges if a < hi and b > 0)
  out = []
  for a, b in ranges:
    if out and a <= out[-1][1]:
      out[-1] = (out[-1][0], max(out[-1][1], b))
    else:
      out.append((a, b))
  return out


def frame_chunks(tier, seed):
  chunks = []
  for rate in RATE_LIST:
    total = ref.frames_per_day(rate)
    if tier == "thorough":
      chunks += _split(rate, [(0, total)], 48)
      continue
    n, d = ref.RATES[rate]
    ranges = [(0, 11 * 60 * n)]
    for minute in range(1, 1440):
      h, m = divmod(minute, 60)
      c = ref.count(rate, h, m, 0, d if m % 10 else 0)
      ranges.append((c - 40, c + 40))
    ranges.append((total - 40, total))
    rng = random.Random(seed * 7919 + rate.numerator)
    for _ in range(100000 if d else 60000):
      c = rng.randrange(total)
      ranges.append((c, c + 1))
    chunks += _split(rate, _merge_ranges(ranges, total), 8)
  return chunks


# ---- 24000/1001: identity, monotonicity and ranges only

def check_23976(case, res):
  n = case["n"]
  tc = SmpteTimeCode.from_frames(n, R23976)
  got = fields(tc)
  if not (got[1] < 60 and got[2] < 60 and 0 <= got[3] < 24):
    res.fail("23976-field-range", "n=%d fields=%r" % (n, got))
  if tc.to_frames() != n:
    res.fail("23976-to_frames-inverse", "n=%d label=%r to_frames=%d" % (n, got, tc.to_frames()))
  off = tc.to_temporal_offset()
  if off != Fraction(n) / R23976 or not isinstance(off, Fraction):
    res.fail("23976-temporal-offset", "n=%d label=%r offset=%r expected %r" % (n, got, off, Fraction(n) / R23976))
  nx = fields(SmpteTimeCode.from_frames(n + 1, R23976))
  if not nx > got:
    res.fail("23976-labels-not-increasing", "n=%d label=%r next=%r" % (n, got, nx))
  res.nt_key = got


def fast_23976(chunk):
  acc = Acc()
  for (a, b) in chunk[1]:
    for n in range(a, b):
      case = {"n": n}
      res = run_check(check_23976, case)
      got = res.nt_key
      res.nt_key = None
      acc.evaluations += 1
      if got is not None and (got[2] * 24 + got[3] <= 3 or got[2] * 24 + got[3] >= 60 * 24 - 3):
        acc.nt_counted += 1
      if res.fails:
        acc.evaluations -= 1
        acc.add(case, res)
  acc.labels["rate:24000/1001"] += acc.evaluations
  return acc


def chunks_23976(tier, seed):
  total = 24 * 3600 * 24000 // 1001
  if tier == "thorough":
    return _split(R23976, [(0, total)], 16)
  ranges = [(0, 12 * 1440)]
  rng = random.Random(seed * 31 + 5)
  for _ in range(400):
    c = rng.randrange(total)
    ranges.append((c, c + 40))
  return _split(R23976, _merge_ranges(ranges, total), 8)


# ---- ClockTime

HUNDRED_H = 100 * 3600


def ms_multiple():
  return st.integers(0, HUNDRED_H * 1000 - 1).map(lambda k: Fraction(k, 1000))


def rationals():
  return st.one_of(
    ms_multiple(),
    st.tuples(st.integers(0, HUNDRED_H * 1000 - 2), st.integers(1, 10 ** 6), st.integers(1, 10 ** 6)).map(
      lambda x: Fraction(x[0], 1000) + Fraction(min(x[1], x[2]), max(x[1], x[2]) * 1000)),
    st.tuples(st.integers(0, HUNDRED_H * 1000 - 2), st.sampled_from([Fraction(1, 2), Fraction(1, 2) - Fraction(1, 10 ** 9),
                                                                    Fraction(1, 2) + Fraction(1, 10 ** 9), Fraction(999, 1000),
                                                                    Fraction(1, 1000)])).map(
      lambda x: Fraction(x[0], 1000) + x[1] / 1000),
    st.tuples(st.sampled_from(RATE_LIST + [R23976]), st.integers(0, 24 * 3600 * 60)).map(lambda x: Fraction(x[1]) / x[0]),
  )


def clock_values():
  fl = st.one_of(
    st.floats(0, HUNDRED_H - 1, allow_nan=False, allow_infinity=False),
    st.tuples(st.integers(0, HUNDRED_H * 1000 - 2), st.sampled_from([0.0, 0.0004, 0.0005, 0.00049999, 0.00050001, 0.000999])).map(
      lambda x: x[0] / 1000 + x[1]),
  )
  return st.one_of(rationals(), fl, st.integers(0, HUNDRED_H - 1))


def clock_fields(ct):
  return (ct.get_hours(), ct.get_minutes(), ct.get_seconds(), ct.get_milliseconds())


def clock_value(ct):
  h, m, s, ms = clock_fields(ct)
  return Fraction(h * 3600 + m * 60 + s) + Fraction(ms, 1000)


def check_clock(case, res):
  x, y = case["x"], case["y"]
  vals = []
  for v in (x, y):
    ct = ClockTime.from_seconds(v)
    f = clock_fields(ct)
    kind = type(v).__name__
    if not all(isinstance(i, int) and not isinstance(i, bool) for i in f):
      res.fail("clock-field-type:" + kind, "x=%r fields=%r" % (v, f))
      return
    if not (0 <= f[3] <= 999 and 0 <= f[2] <= 59 and 0 <= f[1] <= 59 and f[0] >= 0):
      res.fail("clock-field-range:" + kind, "x=%r fields=%r" % (v, f))
    exact = Fraction(v)
    err = abs(clock_value(ct) - exact)
    if err > Fraction(1, 2000):
      res.fail("clock-nearest-ms:" + kind, "x=%r -> %s error %s s" % (v, ct, float(err)))
    for sep in (".", ","):
      ct.set_separator(sep)
      s = str(ct)
      exp = "%02d:%02d:%02d%s%03d" % (f[0], f[1], f[2], sep, f[3])
      if s != exp:
        res.fail("clock-str:" + kind, "x=%r str=%r expected %r" % (v, s, exp))
      if not ClockTime.parse(s) == ct or clock_fields(ClockTime.parse(s)) != f:
        res.fail("clock-parse-roundtrip:" + kind, "x=%r str=%r parsed=%s" % (v, s, ClockTime.parse(s)))
    vals.append((exact, clock_value(ct)))
  (a, ca), (b, cb) = sorted(vals)
  if ca > cb:
    res.fail("clock-monotone", "x=%r y=%r -> %s > %s" % (x, y, ca, cb))
  res.nontrivial = (Fraction(x) * 1000).denominator != 1
  res.label("clock:" + type(x).__name__)
  if res.nontrivial and abs((Fraction(x) * 1000) % 1 - Fraction(1, 2)) < Fraction(1, 1000):
    res.label("clock:near-half-ms")


def clock_cases(tier):
  near = st.tuples(clock_values(), st.sampled_from([Fraction(0), Fraction(1, 10 ** 7), Fraction(1, 2000), Fraction(1, 1000),
                                                    Fraction(3, 4000)])).map(
    lambda t: {"x": t[0], "y": (Fraction(t[0]) + t[1]) if not isinstance(t[0], float) else t[0] + float(t[1])})
  return st.one_of(st.tuples(clock_values(), clock_values()).map(lambda t: {"x": t[0], "y": t[1]}), near)


# ---- SmpteTimeCode.from_seconds around boundaries, add_frames(n)

def check_seconds(case, res):
  rate, n, delta, k = case["rate"], case["n"], case["delta"], case["k"]
  rn = rate_name(rate)
  t = Fraction(n) / rate + delta
  if t < 0:
    t = Fraction(0)
  expn = (t * rate).numerator // (t * rate).denominator   # floor
  exp = ref.label(rate, expn)
  got = fields(SmpteTimeCode.from_seconds(t, rate))
  if got != exp:
    res.fail("from_seconds-rational:%s:%s" % (rn, "boundary" if delta == 0 else ("after" if delta > 0 else "before")),
             "t=%s frame=%d got=%r expected=%r" % (t, expn, got, exp))
  ft = float(t)
  gotf = fields(SmpteTimeCode.from_seconds(ft, rate))
  fr_exact = Fraction(ft) * rate
  fn = fr_exact.numerator // fr_exact.denominator
  ok = [ref.label(rate, max(0, fn + d)) for d in (-1, 0, 1)]
  if gotf not in ok:
    res.fail("from_seconds-float:" + rn, "t=%r frame=%d got=%r" % (ft, fn, gotf))
  # add_frames(k) == k single additions == from_frames(to_frames + k)
  tc = SmpteTimeCode(*exp, rate)
  tc.add_frames(k)
  one = SmpteTimeCode(*exp, rate)
  for _ in range(k):
    one.add_frames(1)
  expk = ref.label(rate, expn + k)
  if fields(tc) != expk or fields(one) != expk:
    res.fail("add_frames-n:" + rn, "label=%r +%d -> %r / stepwise %r expected %r" % (exp, k, fields(tc), fields(one), expk))
  tcm = SmpteTimeCode(*expk, rate)
  tcm.add_frames(-k)
  if fields(tcm) != exp:
    res.fail("add_frames-negative:" + rn, "label=%r -%d -> %r expected %r" % (expk, k, fields(tcm), exp))
  res.nontrivial = abs(delta) <= Fraction(1, 10 ** 6)
  res.label("seconds:" + ("boundary" if delta == 0 else "near" if res.nontrivial else "far"))


def seconds_cases(tier):
  deltas = st.one_of(st.just(Fraction(0)), st.sampled_from([Fraction(1, 10 ** 9), Fraction(-1, 10 ** 9), Fraction(1, 10 ** 6),
                                                            Fraction(-1, 10 ** 6), Fraction(1, 1000), Fraction(-1, 1000)]),
                     st.fractions(Fraction(-1, 20), Fraction(1, 20), max_denominator=10 ** 6))
  return st.builds(lambda r, n, d, k: {"rate": r, "n": n, "delta": d, "k": k}, st.sampled_from(RATE_LIST),
                   st.integers(0, 24 * 3600 * 24 - 2000), deltas, st.integers(0, 70))


# ---- IMSC writer time syntaxes

def check_writer(case, res):
  rate, t = case["rate"], case["t"]
  rn = rate_name(rate)
  ctx = attrs.TemporalAttributeWritingContext(frame_rate=rate, time_expression_syntax=attrs.TimeExpressionSyntaxEnum.frames)
  s = attrs.to_time_format(ctx, t)
  x = t * rate
  exp = "%df" % (-((-x.numerator) // x.denominator))
  if s != exp:
    res.fail("writer-frames:" + rn, "t=%s wrote %r expected %r" % (t, s, exp))
  if rate.denominator == 1:
    ctx = attrs.TemporalAttributeWritingContext(frame_rate=rate,
                                                 time_expression_syntax=attrs.TimeExpressionSyntaxEnum.clock_time_with_frames)
    s = attrs.to_time_format(ctx, t)
    l = ref.label(rate, x.numerator // x.denominator)
    exp = "%02d:%02d:%02d:%02d" % l
    if s != exp:
      res.fail("writer-clock-time-with-frames:%s:%s" % (rn, "boundary" if x.denominator == 1 else "inside"),
               "t=%s wrote %r expected %r" % (t, s, exp))
  for syntax in (attrs.TimeExpressionSyntaxEnum.clock_time, None):
    ctx = attrs.TemporalAttributeWritingContext(frame_rate=rate if syntax else None,
                                                 time_expression_syntax=syntax or attrs.TimeExpressionSyntaxEnum.frames)
    s = attrs.to_time_format(ctx, t)
    ms = round(t * 1000)
    cands = {ms}
    if (t * 1000 * 2).denominator == 1:
      cands = {ms - 1, ms, ms + 1} & {(t * 1000).numerator // (t * 1000).denominator, -((-(t * 1000).numerator) // (t * 1000).denominator)}
    ok = set()
    for c in cands:
      sec, m_ = divmod(c, 1000)
      mi, sec = divmod(sec, 60)
      h, mi = divmod(mi, 60)
      ok.add("%02d:%02d:%02d.%03d" % (h, mi, sec, m_))
    if s not in ok:
      res.fail("writer-clock-time", "t=%s wrote %r expected one of %r" % (t, s, sorted(ok)))
  res.nontrivial = x.denominator == 1 or (x % 1) < Fraction(1, 1000)
  res.label("writer:" + ("boundary" if x.denominator == 1 else "inside"))


def writer_cases(tier):
  rates = st.sampled_from(RATE_LIST + [R23976])
  def mk(r, n, d):
    return {"rate": r, "t": max(Fraction(0), Fraction(n) / r + d)}
  return st.builds(mk, rates, st.integers(0, 24 * 3600 * 24),
                   st.one_of(st.just(Fraction(0)), st.fractions(Fraction(0), Fraction(1, 20), max_denominator=10 ** 5),
                             st.sampled_from([Fraction(1, 10 ** 8), Fraction(-1, 10 ** 8)])))


PARTS = {
  "frames": Part("frames", check_frame, chunks=frame_chunks, fast_check=fast_frames, exhaustive=(False, True)),
  "r23976": Part("r23976", check_23976, chunks=chunks_23976, fast_check=fast_23976, exhaustive=(False, True)),
  "clock": Part("clock", check_clock, strategy=clock_cases, n=(16000, 400000), required_labels=("clock:float", "clock:Fraction", "clock:near-half-ms")),
  "seconds": Part("seconds", check_seconds, strategy=seconds_cases, n=(8000, 200000), required_labels=("seconds:boundary", "seconds:near")),
  "writer": Part("writer", check_writer, strategy=writer_cases, n=(8000, 200000), required_labels=("writer:boundary",)),
}
