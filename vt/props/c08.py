"""C08 - the SCC reader shows what a CEA-608 decoder displays, when it displays it."""
from fractions import Fraction

from hypothesis import strategies as st

import ttconv.model as model
import ttconv.style_properties as styles
from ttconv.scc.reader import to_model
from ttconv.scc.config import SccReaderConfiguration, TextAlignment

from vt import gen_scc as g
from vt import ref_608 as tab
from vt import ref_608_decoder as refdec
from vt import ref_timecode as rtc
from vt.run import Part, HarnessError

ID = "C08"
LEVEL = "exploration"
RULE = ""
ASSUMPTIONS = []

ROW_OF_Y = {round((r + 1) * 100 / 19): r for r in range(1, 16)}    # region origin y (percent of a 19-row root grid, 2 rows of margin)
ALIGN = {"auto": TextAlignment.AUTO, "left": TextAlignment.LEFT, "center": TextAlignment.CENTER, "right": TextAlignment.RIGHT}


def selftest():
  rtc.selftest()
  refdec.selftest()
  assert len(ROW_OF_Y) == 15


# ------------------------------------------------------------------------------------------------ reference timeline

class Timeline:
  """events: (word index j, lo, hi, screen after, mode): the displayed memory of the reference decoder changes at word j, which
  is on the air during frame tc+k; a reader may place the change anywhere in [lo, hi] (see RULE)."""

  def __init__(self, flat):
    dec = refdec.Decoder(1)
    words = flat.words
    self.events = []
    self.first = words[0]["tc"] if words else 0
    changed = []
    for j, w in enumerate(words):
      ch = dec.feed(w["s"])
      changed.append(ch)
      if not ch:
        continue
      # command run leading to the change: preceding words of the same line that are not channel-1 characters and did not
      # themselves change the display
      i = j
      while i > 0 and words[i - 1]["line"] == w["line"] and not changed[i - 1] and \
          not (words[i - 1]["chan"] == 1 and words[i - 1]["what"] == "text"):
        i -= 1
      red_before = sum(1 for x in range(i - words[i]["k"], i) if words[x]["red"])
      lo = w["tc"] + words[i]["k"] - red_before
      hi = w["tc"] + w["k"] + 2
      self.events.append((j, lo, hi, dec.screen(), dec.mode))
    self.last = (words[-1]["tc"] + words[-1]["k"] + 2) if words else 0
    # merged uncertainty windows [lo, hi-1] and the stable intervals between them
    self.stable = []       # (first frame, last frame, screen, mode, index of the last applied event or -1)
    cur = self.first - 3
    screen, mode, applied = (), None, -1
    n = 0
    ev = self.events
    while n < len(ev):
      lo, hi = ev[n][1], ev[n][2]
      m = n
      while m + 1 < len(ev) and ev[m + 1][1] <= hi - 1 + 0:
        m += 1
        hi = max(hi, ev[m][2])
      if lo - 1 >= cur:
        self.stable.append((max(cur, 0), lo - 1, screen, mode, applied))
      screen, mode, applied = ev[m][3], ev[m][4], m
      cur = hi
      n = m + 1
    self.stable.append((max(cur, 0), max(cur, self.last) + 4, screen, mode, applied))
    self.stable = [s for s in self.stable if s[0] <= s[1]]


def probes(a, b):
  return sorted({a, b, (a + b) // 2, min(a + 1, b), max(b - 1, a)})


# ------------------------------------------------------------------------------------------------ observation of the document

def color_class(c):
  if c is None:
    return "white"
  rgb = tuple(c.components[:3])
  for name, v in tab.RGB.items():
    if rgb in v:
      return name
  return "rgb%r" % (rgb,)


class Para:
  __slots__ = ("id", "begin", "end", "top", "anchor", "lines", "style")


def read_paragraphs(doc, res):
  out = []
  body = doc.get_body()
  if body is None:
    return out
  for div in body:
    for p in div:
      if not isinstance(p, model.P):
        res.fail("document-shape", "child of div is %s" % type(p).__name__)
        continue
      q = Para()
      q.id = p.get_id()
      q.begin = p.get_begin()
      q.end = p.get_end()
      region = p.get_region()
      q.style = (region.get_id() if region is not None else "")[:3]
      if region is None:
        res.fail("document-shape", "paragraph %s without region" % q.id)
        continue
      origin = region.get_style(styles.StyleProperties.Origin)
      q.anchor = "after" if region.get_style(styles.StyleProperties.DisplayAlign) == styles.DisplayAlignType.after else "before"
      q.top = ROW_OF_Y.get(origin.y.value) if origin is not None and origin.y.units == styles.LengthType.Units.pct else None
      lines = [[]]
      for c in p:
        if isinstance(c, model.Br):
          lines.append([])
        elif isinstance(c, model.Span):
          txt = "".join(x.get_text() for x in c if isinstance(x, model.Text))
          td = c.get_style(styles.StyleProperties.TextDecoration)
          attr = (color_class(c.get_style(styles.StyleProperties.Color)),
                  c.get_style(styles.StyleProperties.FontStyle) == styles.FontStyleType.italic,
                  bool(td is not None and td.underline))
          lines[-1].append((c.get_begin(), c.get_end(), txt, attr))
        else:
          res.fail("document-shape", "child of p is %s" % type(c).__name__)
      q.lines = lines
      out.append(q)
  return out


def observe(paras, t):
  """rows shown at time t: [(row or None, text, attrs)] top to bottom, text stripped of leading/trailing blanks"""
  rows = []
  for q in paras:
    b = q.begin or 0
    if not (b <= t and (q.end is None or t < q.end)):
      continue
    n = len(q.lines)
    top = (15 - n + 1) if q.anchor == "after" else q.top
    for i, line in enumerate(q.lines):
      txt = ""
      attrs = []
      for sb, se, s, attr in line:
        if (sb is not None and b + sb > t) or (se is not None and not t < b + se):
          continue
        txt += s
        attrs += [attr] * len(s)
      if not txt.strip(" "):
        continue
      lead = len(txt) - len(txt.lstrip(" "))
      core = txt.strip(" ")
      rows.append((None if top is None else top + i, core, tuple(attrs[lead:lead + len(core)]), q.style))
  rows.sort(key=lambda r: (r[0] is None, r[0] or 0))
  return rows


# ------------------------------------------------------------------------------------------------ the check

def char_eq(got, exp):
  return got == exp or got in tab.ALTERNATIVES.get(exp, "")


def text_eq(got, exp):
  return len(got) == len(exp) and all(char_eq(a, b) for a, b in zip(got, exp))


def show(rows):
  return " / ".join("%s:%r" % (r[0], r[2] if len(r) > 3 and isinstance(r[2], str) else r[1]) for r in rows) or "(blank)"


def show_ref(screen):
  return " / ".join("%d:%r" % (r, t) for r, _, t, _ in screen) or "(blank)"


def show_got(rows):
  return " / ".join("%s:%r" % (r, t) for r, t, _, _ in rows) or "(blank)"


def check(case, res):
  script = case["script"]
  flat = g.flatten(script)
  text = g.render_flat(flat, upper=bool(case.get("upper")))
  rate = g.DF if flat.df else g.NDF
  for l in sorted(flat.labels):
    res.label(l)
  res.label("align:" + case["align"], "timecode:" + ("DF" if flat.df else "NDF"))
  res.label("parity:" + ("odd" if script["pmask"] == -1 else "cleared" if script["pmask"] == 0 else "mixed"))
  res.nontrivial = flat.ncaps >= 2 and flat.max_rows >= 2 and flat.attr_changes >= 1
  try:
    doc = to_model(text, SccReaderConfiguration(text_align=ALIGN[case["align"]]))
  except Exception as e:  # pylint: disable=broad-except
    res.crash(e)
    return
  tl = Timeline(flat)
  paras = read_paragraphs(doc, res)
  feat = feature(flat)
  # -- timing clauses
  tcs = sorted({w["tc"] for w in flat.words})
  for q in paras:
    for which, v in (("begin", q.begin), ("end", q.end)):
      if v is None:
        if which == "end":
          res.fail("timing:open-ended-paragraph" + feat, "%s has no end although the stream erases everything" % q.id)
        continue
      fr = Fraction(v) * rate
      if fr.denominator != 1:
        res.fail("timing:not-a-frame-multiple:" + ("DF" if flat.df else "NDF"), "%s %s=%s s is %s frames at %s fps" % (q.id, which, v, fr, rate))
        continue
      f = int(fr)
      if not any(lo <= f <= hi for _, lo, hi, _, _ in tl.events):
        near = min(tl.events, key=lambda e: min(abs(e[1] - f), abs(e[2] - f))) if tl.events else None
        res.fail("timing:%s-outside-transmission-window:%s%s" % (which, q.style, feat),
                 "%s %s at frame %d (%s); nearest display change of the reference: word %s window [%s, %s]\n%s" % (
                   q.id, which, f, g.timecode(flat.df, f), near and near[0], near and g.timecode(flat.df, near[1]),
                   near and g.timecode(flat.df, near[2]), text))
  # -- frame by frame, outside the transition windows
  nprobe = 0
  for a, b, screen, mode, _ in tl.stable:
    for f in probes(a, b):
      nprobe += 1
      got = observe(paras, Fraction(f) / rate)
      compare(flat, text, f, screen, mode, got, res, feat)
  res.labels["probe-frames"] += nprobe


def feature(flat):
  return ""


def compare(flat, text, f, screen, mode, got, res, feat):
  where = "frame %d (%s)" % (f, g.timecode(flat.df, f))
  m = mode or "none"
  if len(got) != len(screen) or any(not text_eq(gr[1], sr[2]) for gr, sr in zip(got, screen)):
    if [gr[1] for gr in got] != [sr[2] for sr in screen]:
      kind = "rows" if len(got) != len(screen) else "text"
      res.fail("%s:%s%s" % (kind, m, feat), "%s: document shows %s, reference decoder shows %s\n%s" % (where, show_got(got), show_ref(screen), text))
      return
  if mode != "roll" or "roll:base-row-not-15" not in flat.labels:
    if [gr[0] for gr in got] != [sr[0] for sr in screen]:
      res.fail("row-number:%s%s" % (m, feat), "%s: document shows %s, reference decoder shows %s\n%s" % (where, show_got(got), show_ref(screen), text))
  for gr, sr in zip(got, screen):
    for i, exp in enumerate(sr[3]):
      if exp is None:
        continue
      ga = gr[2][i]
      for n, name in enumerate(("color", "italic", "underline")):
        if ga[n] != exp[n]:
          res.fail("attr:%s:%s%s" % (name, m, feat), "%s row %d %r char %d %r: %s %r expected %r\n%s" % (
            where, sr[0], sr[2], i, sr[2][i], name, ga[n], exp[n], text))


def cases(prof):
  def strat(tier):
    return st.builds(lambda s, a, u: {"script": s, "align": a, "upper": u}, g.scripts(prof), st.sampled_from(["auto", "auto", "left", "center", "right"]),
                     st.booleans())
  return strat


SHRINK = g.shrinker("script")

P_POP = g.profile(styles=("pop",))

PARTS = {
  "pop": Part("pop", check, strategy=cases(P_POP), n=(320, 48000), shrinker=SHRINK),
}
