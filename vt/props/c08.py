"""C08 - the SCC reader shows what a CEA-608 decoder displays, when it displays it."""
from fractions import Fraction

from hypothesis import strategies as st

import ttconv.model as model
import ttconv.style_properties as styles
from ttconv.scc.reader import to_model
from ttconv.scc.config import SccReaderConfiguration, TextAlignment

from vt import gen_scc as g
from vt import ref_608 as tab
from vt import ref_608_decoder as refdec
from vt import ref_timecode as rtc
from vt.run import Part, HarnessError

ID = "C08"
LEVEL = "exploration"
RULE = ("Hypothesis caption scripts (vt/gen_scc.py) from the three channel-1 protocol grammars - pop-on [ENM] RCL (PAC [TO] text)+ [EDM] EOC "
        "... [EDM]; roll-up RU2|3|4 CR PAC text (CR [PAC] text)* [EDM]; paint-on RDC (PAC [TO] text)+ EDM - rows 1-15, indents 0-28 + TO1-3, "
        "1-4 rows, standard/special/extended characters (extended after a fallback character), PAC and mid-row colour/italics/underline, "
        "backspace, doubled control codes, null padding after complete pairs, channel-2 bursts and field-2 codes before a channel-1 control "
        "code, parity set/cleared/mixed, several SCC lines at DF/NDF time codes with gaps, upper/lower-case hex x text_align "
        "auto/left/center/right; labelled classes: undoubled control codes, rows sent out of order, roll-up base row other than 15, "
        "CR without PAC, padding inside a displayed row, paint-on captions accumulating on blank rows, back-to-back mid-row codes, "
        "pop-on load over leftover non-displayed memory (asserted when the older caption sits on other rows, unasserted when rows may be shared), mode switches after EDM. One evaluation = one stream, "
        "compared with the reference decoder at the first/last/middle (+-1) frame of every interval between transition windows and on "
        "every paragraph begin/end; non-trivial = >= 2 captions, >= 2 rows in one of them and >= 1 attribute change; distinct by case hash.")
ASSUMPTIONS = [
  "oracle: vt/ref_608_decoder.py, a 15x32 cell-grid CEA-608 decoder written from 47 CFR 15.119 (self-tested on hand-computed "
  "scenarios); word classification tables are those verified exhaustively by C17",
  "word k of a line with time code tc is on the air during frame tc+k; a change caused by it may be placed anywhere from the start of "
  "the command run that leads to it (counting a redundant second copy of a control code as taking no frame, as ttconv does) to "
  "tc+k+2; frames inside such windows are not compared (ttconv times paint-on and roll-up text per word/row, not per character pair)",
  "ttconv does not model transparent cells or columns: row text is compared with leading/trailing blanks stripped, interior "
  "characters exact; attributes are compared on non-blank characters only and colour as one of eight classes",
  "roll-up row numbers are asserted for base row 15 only (ttconv documents that it anchors roll-up at row 15); attributes set by a "
  "roll-up PAC for rows 5-11, after CR without PAC, and by back-to-back mid-row codes other than colour+italics are not asserted",
  "a pop-on load that starts while non-displayed memory still holds an older caption (no ENM; EOC swaps the memories) is a labelled "
  "class: asserted in full when the older caption occupies other rows than the load addresses (the load adds rows to it), unasserted "
  "from that point on when rows may be shared (ttconv merges overlapping cells differently from a cell grid; no encoder relies on it)",
  "a pop-on caption that addresses one of its rows a second time is generated with the second PAC at column 0 only (labelled class; "
  "attributes of the replacing text: known finding); with the second PAC elsewhere ttconv places the text relative to the row's text instead of the column: known finding, "
  "kept as a replay",
  "not generated: text mode, flash, DER, background attributes, overwriting displayed cells, "
  "a caption of another style starting while the previous one is still displayed",
]

ROW_OF_Y = {round((r + 1) * 100 / 19): r for r in range(1, 16)}    # region origin y (percent of a 19-row root grid, 2 rows of margin)
ALIGN = {"auto": TextAlignment.AUTO, "left": TextAlignment.LEFT, "center": TextAlignment.CENTER, "right": TextAlignment.RIGHT}


def selftest():
  rtc.selftest()
  refdec.selftest()
  if len(ROW_OF_Y) != 15:
    raise HarnessError("row <-> origin mapping is not injective")
  # encoders against the classification tables of C17
  for row in range(1, 16):
    for ind in range(0, 32, 4):
      c = tab.classify(g.enc_pac(row, ind, ul=True))
      assert c[0] == "pac" and c[1] == 1 and (c[2]["row"], c[2]["indent"], c[2]["underline"], c[2]["color"]) == (row, ind, True, "white")
    for col in g.COLORS:
      c = tab.classify(g.enc_pac(row, 0, col, form="style"))
      assert (c[2]["row"], c[2]["color"], c[2]["italic"], c[2]["indent"]) == (row, col, False, 0)
    assert tab.classify(g.enc_pac(row, 0, "white", True))[2]["italic"] and tab.classify(g.enc_pac(row, 0, chan=2))[1] == 2
  for n in g.CTL:
    assert tab.classify(g.enc_ctl(n)) == ("control", 1, n) and tab.classify(g.enc_ctl(n, 2)) == ("control", 2, n)
    assert tab.classify(g.enc_ctl(n, field=2)) == ("control", None, n)
  for i in (1, 2, 3):
    assert tab.classify(g.enc_ctl("TO%d" % i)) == ("control", 1, "TO%d" % i)
  for ch in g.SPECIALS:
    assert tab.classify(g.enc_special(ch)) == ("special", 1, ch)
  for ch in g.EXTENDED:
    assert tab.classify(g.enc_extended(ch)) == ("extended", 1, ch)
  for col in g.COLORS + [None]:
    c = tab.classify(g.enc_mid(col, True))
    assert c[0] == "midrow" and c[2]["color"] == col and c[2]["italic"] == (col is None) and c[2]["underline"]
  assert g.timecode(True, 1800) == "00:01:00;02" and g.timecode(False, 1800) == "00:01:00:00"


# ------------------------------------------------------------------------------------------------ reference timeline

class Timeline:
  """events: (word index j, lo, hi, screen after, mode): the displayed memory of the reference decoder is (re)written at word j, which
  is on the air during frame tc+k.  The reader may place the change anywhere in [lo, hi]:
    lo = tc + (index of the first word of the command run leading to word j) - (redundant control-code copies before it on the line)
    hi = tc + k + 2
  The command run is the stretch of words before j on the same line (or on lines that follow one another without a gap) that are neither channel-1 characters nor display changes
  (mode command, CR, PAC, tab offset, padding, other-channel data)."""

  def __init__(self, flat):
    dec = refdec.Decoder(1)
    words = flat.words
    self.events = []
    self.first = words[0]["tc"] if words else 0
    changed = []
    for j, w in enumerate(words):
      ch = dec.feed(w["s"], w["tc"] + w["k"])
      changed.append(ch)
      if not ch:
        continue
      i = j
      # (the run continues across a line boundary when the next line starts on the very next frame)
      while i > 0 and (words[i - 1]["line"] == words[i]["line"] or words[i]["tc"] == words[i - 1]["tc"] + words[i - 1]["k"] + 1) and \
          not changed[i - 1] and not (words[i - 1]["chan"] == 1 and words[i - 1]["what"] == "text"):
        i -= 1
      red_before = sum(1 for x in range(i - words[i]["k"], i) if words[x]["red"])
      lo = words[i]["tc"] + words[i]["k"] - red_before
      hi = w["tc"] + w["k"] + 2
      self.events.append((j, lo, hi, dec.screen(), dec.mode))
    self.last = (words[-1]["tc"] + words[-1]["k"] + 2) if words else 0
    self.final_screen = dec.screen()
    # merged uncertainty windows [lo, hi-1] and the stable intervals between them
    self.stable = []       # (first frame, last frame, screen, mode, word index of the last applied event or -1)
    cur = self.first - 3
    screen, mode, applied = (), None, -1
    n = 0
    ev = self.events
    while n < len(ev):
      lo, hi = ev[n][1], ev[n][2]
      m = n
      while m + 1 < len(ev) and ev[m + 1][1] <= hi - 1:
        m += 1
        hi = max(hi, ev[m][2])
      if lo - 1 >= cur:
        self.stable.append((max(cur, 0), lo - 1, screen, mode, applied))
      screen, mode, applied = ev[m][3], ev[m][4], ev[m][0]
      cur = hi
      n = m + 1
    self.stable.append((max(cur, 0), max(cur, self.last) + 4, screen, mode, applied))
    self.stable = [s for s in self.stable if s[0] <= s[1]]


def probes(a, b):
  return sorted({a, b, (a + b) // 2, min(a + 1, b), max(b - 1, a)})


# ------------------------------------------------------------------------------------------------ observation of the document

def color_class(c):
  if c is None:
    return "white"
  rgb = tuple(c.components[:3])
  for name, v in tab.RGB.items():
    if rgb in v:
      return name
  return "rgb%r" % (rgb,)


class Para:
  __slots__ = ("id", "begin", "end", "top", "anchor", "lines", "style")


def read_paragraphs(doc, res):
  """paragraphs through model getters: begin/end, region origin -> first row, display align, br-separated rows of styled spans"""
  out = []
  body = doc.get_body()
  if body is None:
    return out
  for div in body:
    for p in div:
      if not isinstance(p, model.P):
        res.fail("document-shape", "child of div is %s" % type(p).__name__)
        continue
      q = Para()
      q.id = p.get_id()
      q.begin = p.get_begin()
      q.end = p.get_end()
      region = p.get_region()
      if region is None:
        res.fail("document-shape", "paragraph %s without region" % q.id)
        continue
      q.style = {"pop": "pop", "rol": "roll", "pai": "paint"}.get(region.get_id()[:3], "other")
      origin = region.get_style(styles.StyleProperties.Origin)
      q.anchor = "after" if region.get_style(styles.StyleProperties.DisplayAlign) == styles.DisplayAlignType.after else "before"
      q.top = ROW_OF_Y.get(origin.y.value) if origin is not None and origin.y.units == styles.LengthType.Units.pct else None
      lines = [[]]
      for c in p:
        if isinstance(c, model.Br):
          lines.append([])
        elif isinstance(c, model.Span):
          txt = "".join(x.get_text() for x in c if isinstance(x, model.Text))
          td = c.get_style(styles.StyleProperties.TextDecoration)
          attr = (color_class(c.get_style(styles.StyleProperties.Color)),
                  c.get_style(styles.StyleProperties.FontStyle) == styles.FontStyleType.italic,
                  bool(td is not None and td.underline))
          lines[-1].append((c.get_begin(), c.get_end(), txt, attr))
        else:
          res.fail("document-shape", "child of p is %s" % type(c).__name__)
      q.lines = lines
      out.append(q)
  return out


def observe(paras, t):
  """rows shown at time t: [(row or None, text, attrs, style)] top to bottom, text stripped of leading/trailing blanks"""
  rows = []
  for q in paras:
    b = q.begin or 0
    if not (b <= t and (q.end is None or t < q.end)):
      continue
    n = len(q.lines)
    top = (15 - n + 1) if q.anchor == "after" else q.top
    for i, line in enumerate(q.lines):
      txt = ""
      attrs = []
      for sb, se, s, attr in line:
        if (sb is not None and b + sb > t) or (se is not None and not t < b + se):
          continue
        txt += s
        attrs += [attr] * len(s)
      if not txt.strip(" "):
        continue
      lead = len(txt) - len(txt.lstrip(" "))
      core = txt.strip(" ")
      rows.append((None if top is None else top + i, core, tuple(attrs[lead:lead + len(core)]), q.style))
  rows.sort(key=lambda r: (r[0] is None, r[0] or 0))
  return rows


# ------------------------------------------------------------------------------------------------ the check

def char_eq(got, exp):
  return got == exp or got in tab.ALTERNATIVES.get(exp, "")


def text_eq(got, exp):
  return len(got) == len(exp) and all(char_eq(a, b) for a, b in zip(got, exp))


def show_ref(screen):
  return " / ".join("%d:%r" % (r[0], r[2]) for r in screen) or "(blank)"


def show_got(rows):
  return " / ".join("%s:%r" % (r[0], r[1]) for r in rows) or "(blank)"


def check(case, res):
  script = case["script"]
  flat = g.flatten(script)
  text = g.render_flat(flat, upper=bool(case.get("upper")))
  rate = g.DF if flat.df else g.NDF
  for l in sorted(flat.labels):
    res.label(l)
  res.label("align:" + case["align"], "timecode:" + ("DF" if flat.df else "NDF"))
  res.label("parity:" + ("odd" if script["pmask"] == -1 else "cleared" if script["pmask"] == 0 else "mixed"))
  res.label("lines:%s" % min(len(flat.lines), 9), "captions:%d" % flat.ncaps)
  res.nontrivial = flat.ncaps >= 2 and flat.max_rows >= 2 and flat.attr_changes >= 1
  try:
    doc = to_model(text, SccReaderConfiguration(text_align=ALIGN[case["align"]]))
  except Exception as e:  # pylint: disable=broad-except
    res.crash(e)
    return
  tl = Timeline(flat)
  open_end = tl.final_screen != ()          # the file ends while a caption is displayed (profile switch open_end)
  if open_end:
    res.label("file-ends-with-caption-displayed")
    if "open_end" not in case.get("profile", "open_end"):
      raise HarnessError("generator: the stream does not end with a blank screen")
  paras = read_paragraphs(doc, res)
  tcname = "DF" if flat.df else "NDF"
  # -- timing clauses: exact frame multiple, not before the line's time code, inside the transmission window of a display change
  for q in paras:
    for which, v in (("begin", q.begin), ("end", q.end)):
      if v is None:
        if which == "end" and not open_end:
          res.fail("timing:open-ended-paragraph:" + q.style, "%s has no end although the stream ends with EDM\n%s" % (q.id, text))
        continue
      fr = Fraction(v) * rate
      if fr.denominator != 1:
        res.fail("timing:not-a-frame-multiple:" + tcname, "%s %s=%s s is %s frames at %s fps\n%s" % (q.id, which, v, fr, rate, text))
        continue
      f = int(fr)
      if not any(lo <= f <= hi for _, lo, hi, _, _ in tl.events):
        near = min(tl.events, key=lambda e: min(abs(e[1] - f), abs(e[2] - f))) if tl.events else None
        res.fail("timing:%s-outside-transmission-window:%s:%s" % (which, q.style, tcname),
                 "%s %s at frame %d (%s); nearest display change of the reference: word #%s, window [%s, %s]\n%s" % (
                   q.id, which, f, g.timecode(flat.df, f), near and near[0], near and g.timecode(flat.df, near[1]),
                   near and g.timecode(flat.df, near[2]), text))
  # -- frame by frame, outside the transition windows
  nprobe = nskip = 0
  for a, b, screen, mode, applied in tl.stable:
    unasserted = flat.unassert_from is not None and applied >= flat.unassert_from
    for f in probes(a, b):
      got = observe(paras, Fraction(f) / rate)
      if unasserted:
        nskip += 1
        continue
      nprobe += 1
      compare(flat, text, f, screen, mode, got, res)
  res.labels["probe-frames"] += nprobe
  res.labels["probe-frames-unasserted"] += nskip


def compare(flat, text, f, screen, mode, got, res):
  where = "frame %d (%s)" % (f, g.timecode(flat.df, f))
  m = mode or "none"
  if len(got) != len(screen) or any(not text_eq(gr[1], sr[2]) for gr, sr in zip(got, screen)):
    kind = "rows" if len(got) != len(screen) else "text"
    feat = ""
    if mode == "roll" and "row-ends-with-mid-row-code" in flat.labels:
      feat = ":row-ends-with-mid-row-code"
    if mode == "pop" and "pop:row-addressed-again:elsewhere" in flat.labels:
      feat = ":row-addressed-again-elsewhere"
    res.fail("%s:%s%s" % (kind, m, feat), "%s: document shows %s, reference decoder shows %s\n%s" % (where, show_got(got), show_ref(screen), text))
    return
  if mode != "roll" or "roll:base-row-not-15" not in flat.labels:
    if [gr[0] for gr in got] != [sr[0] for sr in screen]:
      feat = ":caption-below-earlier-paint-on-caption" if mode == "paint" and "paint:caption-below-earlier-paint-on-caption" in flat.labels else ""
      res.fail("row-number:%s%s" % (m, feat), "%s: document shows %s, reference decoder shows %s\n%s" % (where, show_got(got), show_ref(screen), text))
  # (the text that a second PAC on a row writes keeps the attributes of the text it replaces in ttconv: known finding, own bucket)
  again = ":row-addressed-again" if mode == "pop" and any(l.startswith("pop:row-addressed-again") for l in flat.labels) else ""
  for gr, sr in zip(got, screen):
    for i, exp in enumerate(sr[3]):
      if exp is None:
        continue
      ga = gr[2][i]
      tag = ":" + sr[4][i] if sr[4][i] else ""
      for n, name in enumerate(("color", "italic", "underline")):
        if ga[n] != exp[n]:
          res.fail("attr:%s:%s%s%s" % (name, m, tag, again), "%s row %d %r char %d %r: %s %r expected %r\n%s" % (
            where, sr[0], sr[2], i, sr[2][i], name, ga[n], exp[n], text))


def cases(prof):
  def strat(tier):
    return st.builds(lambda s, a, u: {"script": s, "align": a, "upper": u}, g.scripts(prof),
                     st.sampled_from(["auto", "auto", "left", "center", "right"]), st.booleans())
  return strat


def finish(ctx):
  lab = ctx.acc.labels
  n = max(1, ctx.acc.evaluations)
  ctx.extra["label_fractions"] = {k: round(v / n, 3) for k, v in sorted(lab.items()) if not k.startswith("probe-") and k != "regression-replays"}
  ctx.extra["probe_frames"] = lab.get("probe-frames", 0)
  if lab.get("probe-frames", 0) < 3 * ctx.acc.evaluations:
    raise HarnessError("fewer than 3 compared frames per stream")


SHRINK = g.shrinker("script")

# main classes: everything the quantifier names, control codes doubled; the triggers of findings C-1 .. C-4 are kept out by construction
P_POP = g.profile(styles=("pop",))
P_ROLL = g.profile(styles=("roll",))
P_PAINT = g.profile(styles=("paint",))
P_MIXED = g.profile(mix=True, max_caps=6)
# labelled classes (asserted like the main ones unless stated in ASSUMPTIONS)
P_CLASSES = g.profile(mix=True, undoubled=True, row_order=True, roll_base=True, roll_blank=True, open_end=True, pad_inside=True, paint_accumulate=True, mid_runs=True,
                      pop_leftover=True, revisit=True, split=True)
# dedicated parts that keep exercising the triggers of the known findings
P_C1 = g.profile(styles=("paint",), paint_c1=True, max_caps=4)
P_C2 = g.profile(italics_on_colour=True, max_caps=3)
P_C3 = g.profile(styles=("roll",), trailing_mid=True, max_caps=3)
P_C4 = g.profile(styles=("paint",), paint_c4=True, max_caps=3)

COMMON = ("null-padding", "channel-2-burst", "field-2-code", "tab-offset", "pac-attributes", "mid-row-code", "special-char", "extended-char",
          "backspace", "timecode:DF", "timecode:NDF", "parity:odd", "parity:cleared", "parity:mixed", "align:auto", "align:left",
          "align:center", "align:right", "caption-spans-lines")

PARTS = {
  "pop": Part("pop", check, strategy=cases(P_POP), n=(1600, 160000), shrinker=SHRINK,
              required_labels=COMMON + ("pop:ENM", "pop:EDM-before-EOC", "pop:EDM-after", "row-reaches-column-32")),
  "roll": Part("roll", check, strategy=cases(P_ROLL), n=(1600, 160000), shrinker=SHRINK,
               required_labels=COMMON[:-1] + ("roll:RU2", "roll:RU3", "roll:RU4", "roll:CR-without-PAC", "roll:EDM-after")),
  "paint": Part("paint", check, strategy=cases(P_PAINT), n=(1600, 160000), shrinker=SHRINK, required_labels=COMMON + ("paint:EDM-after",)),
  "mixed": Part("mixed", check, strategy=cases(P_MIXED), n=(800, 80000), shrinker=SHRINK, required_labels=("mode-switch",)),
  "classes": Part("classes", check, strategy=cases(P_CLASSES), n=(1200, 120000), shrinker=SHRINK,
                  required_labels=("undoubled-control", "roll:base-row-not-15", "pad-inside-displayed-row", "paint:accumulates-without-EDM",
                                   "mid-row-run", "roll:blank-row", "file-ends-with-caption-displayed", "channel-2-twin-of-previous-code", "pop:load-over-leftover", "pop:load-over-leftover:other-rows", "mode-switch",
                                   "pop:row-addressed-again:at-column-0", "doubled-code-split-over-adjacent-lines")),
  "c1": Part("c1", check, strategy=cases(P_C1), n=(320, 16000), shrinker=SHRINK,
             required_labels=("paint:caption-below-earlier-paint-on-caption",)),
  "c2": Part("c2", check, strategy=cases(P_C2), n=(320, 16000), shrinker=SHRINK),
  "c3": Part("c3", check, strategy=cases(P_C3), n=(320, 16000), shrinker=SHRINK, required_labels=("row-ends-with-mid-row-code",)),
  "c4": Part("c4", check, strategy=cases(P_C4), n=(320, 16000), shrinker=SHRINK),
}
