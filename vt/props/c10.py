"""C10 - the SRT reader reproduces every cue's time, lines and formatting exactly."""
import io
from fractions import Fraction

import ttconv.model as model
import ttconv.style_properties as styles
import ttconv.imsc.attributes as attrs
from ttconv.srt.reader import to_model

from vt import gen_srt
from vt.run import Part, HarnessError

ID = "C10"
LEVEL = "exploration"
RULE = ("grammar part: Hypothesis SRT file descriptions (vt/gen_srt.py: 0-8 cues, counters, times over 00:00:00,000..999:59:59,999 with "
        "2/3-digit hours, 1-5 text lines from the tag grammar, LF/CRLF, blank-line runs, optional BOM) serialised and read back; "
        "non-trivial = file with >= 2 cues of which one has >= 2 lines and a nested tag pair; distinct by file hash. "
        "frames part: every millisecond value 000..999 x rates 24/25/30/50/60 x 4 second bases enumerated exhaustively; each is "
        "distinct by construction; non-trivial = the printed time is an exact frame boundary or not a dyadic rational.")
ASSUMPTIONS = [
  "the expected cue model is computed from the generated description (vt/gen_srt.py, self-tested against a hand-written file), not by parsing",
  "leading/trailing spaces of a text line are not asserted (compared after trimming ASCII spaces); interior characters are exact",
  "brace short forms {b} {i} {u} are not recognised by the reader (DESIGN Q-4, undecided): both readings (literal text / tag) are accepted",
  "colours: only #rrggbb and the 16 HTML 4 colour names are generated; alpha is expected to be 255",
  "CRLF files reach the reader either through a universal-newlines text stream (what tt.py's open(..., 'r') does) or, in a labelled "
  "class, through io.StringIO with the CR characters still present",
  "counter values are never interpreted; region, default styles and the div structure above the paragraphs are not asserted",
  "frames part trusts Python's exact Fraction arithmetic for ceil(t*fps)",
]

FW, FS, TD, COL = (styles.StyleProperties.FontWeight, styles.StyleProperties.FontStyle, styles.StyleProperties.TextDecoration,
                   styles.StyleProperties.Color)
COMPONENTS = ("bold", "italic", "underline", "colour")

# a double in [0, 2^22) is within 2^-31 of the real it stands for; anything further away is not a rounding artefact
FLOAT_SLACK = Fraction(1, 2 ** 28)


def selftest():
  gen_srt.selftest()


# ------------------------------------------------------------------------------------------------ observation

def open_stream(desc, text):
  if desc["delivery"] == "textfile":
    # what open(path, "r", encoding="utf-8") gives: universal newlines, BOM kept
    return io.TextIOWrapper(io.BytesIO(text.encode("utf-8")), encoding="utf-8")
  return io.StringIO(text)


def paragraphs(doc):
  """[(P, Fraction offset of its ancestors)] in document order"""
  out = []

  def walk(e, off):
    for c in e:
      if isinstance(c, model.P):
        out.append((c, off))
      elif isinstance(c, model.Div):
        walk(c, off + (Fraction(c.get_begin()) if c.get_begin() is not None else 0))
  body = doc.get_body()
  if body is not None:
    walk(body, Fraction(body.get_begin()) if body.get_begin() is not None else Fraction(0))
  return out


def apply_styles(e, cur):
  b, i, u, col = cur
  v = e.get_style(FW)
  if v is not None:
    b = v is styles.FontWeightType.bold
  v = e.get_style(FS)
  if v is not None:
    i = True if v is styles.FontStyleType.italic else False if v is styles.FontStyleType.normal else v.name
  v = e.get_style(TD)
  if v is not None and v.underline is not None:
    u = bool(v.underline)
  v = e.get_style(COL)
  if v is not None:
    col = tuple(v.components)
  return (b, i, u, col)


def observe_p(p):
  """(lines, styles, foreign element type names): per-character styles, nearest ancestor wins"""
  lines, sty, foreign = [""], [[]], []

  def walk(e, cur):
    for c in e:
      if isinstance(c, model.Text):
        t = c.get_text()
        lines[-1] += t
        sty[-1].extend([cur] * len(t))
      elif isinstance(c, model.Br):
        lines.append("")
        sty.append([])
      elif isinstance(c, model.Span):
        walk(c, apply_styles(c, cur))
      else:
        foreign.append(type(c).__name__)
  walk(p, apply_styles(p, (False, False, False, None)))
  return lines, sty, foreign


def trim(line, sty):
  a = len(line) - len(line.lstrip(" "))
  b = len(line.rstrip(" "))
  if b < a:
    b = a
  return line[a:b], sty[a:b]


# ------------------------------------------------------------------------------------------------ comparison

def time_fails(which, got, exp, printed):
  out = []
  if isinstance(got, bool) or not isinstance(got, (int, Fraction)):
    out.append(("time-type:" + type(got).__name__, "%s of %r is %r (%s), expected the rational %s" % (
      which, printed, got, type(got).__name__, exp)))
  if got is None or isinstance(got, (str, bytes)):
    out.append(("time-value:wrong", "%s of %r is %r" % (which, printed, got)))
    return out
  try:
    exact = Fraction(got)
  except (TypeError, ValueError):
    out.append(("time-value:wrong", "%s of %r is %r" % (which, printed, got)))
    return out
  if exact != exp:
    if isinstance(got, float) and abs(exact - exp) <= FLOAT_SLACK:
      out.append(("time-value:float-rounding", "%s of %r is the double %r = %s, not %s" % (which, printed, got, exact, exp)))
    else:
      out.append(("time-value:wrong", "%s of %r is %r, expected %s" % (which, printed, got, exp)))
  return out


def text_fails(ci, exp, lines, sty, raw_crlf):
  """failures of one cue's text against one reading of the description"""
  out = []
  if len(lines) != len(exp["lines"]):
    stripped = [l.rstrip("\r") for l in lines]
    out.append(("lines:count", "cue %d: %d lines %r, expected %d lines %r" % (ci, len(lines), stripped, len(exp["lines"]), exp["lines"])))
    return out
  cr = False
  for li, (gl, gs, el, es, src) in enumerate(zip(lines, sty, exp["lines"], exp["styles"], exp["src"])):
    if raw_crlf and gl.endswith("\r") and li + 1 < len(lines):
      cr = True
      gl, gs = gl[:-1], gs[:-1]
    gl, gs = trim(gl, gs)
    a = len(el) - len(el.lstrip(" "))
    el, es = trim(el, es)
    src = src[a:a + len(el)]
    if gl != el:
      out.append(("lines:text", "cue %d line %d: %r, expected %r" % (ci, li, gl, el)))
      continue
    for k, (g, e) in enumerate(zip(gs, es)):
      if g == e:
        continue
      for comp in range(4):
        if g[comp] != e[comp]:
          feature = src[k][comp] if e[comp] not in (False, None) else "spurious"
          out.append(("style:%s:%s" % (COMPONENTS[comp], feature), "cue %d line %d %r char %d %r: %s is %r, expected %r" % (
            ci, li, el, k, el[k], COMPONENTS[comp], g[comp], e[comp])))
      break
  if cr:
    out.append(("lines:cr-retained:raw-crlf-stream", "cue %d: every line but the last ends with a carriage return: %r" % (ci, lines)))
  return out


def check_grammar(case, res):
  desc = case
  if not gen_srt.valid(desc):
    raise HarnessError("invalid SRT description %r" % (desc,))
  text = gen_srt.render(desc)
  readings = [gen_srt.expected(desc, "literal")]
  has_bs = any(tok[0] == "o" and tok[1]["form"] == "bs" for c in desc["cues"] for tok in c["body"])
  if has_bs:
    readings.append(gen_srt.expected(desc, "tag"))
  exp = readings[0]
  classify(desc, exp, res, has_bs)

  doc = to_model(open_stream(desc, text))
  if doc is None:
    res.fail("reader-returned-none", "to_model returned None for %r" % text[:300])
    return
  ps = paragraphs(doc)
  if len(ps) != len(exp):
    res.fail("cues:count", "%d paragraphs for %d cues" % (len(ps), len(exp)))
  raw_crlf = desc["eol"] == "\r\n" and desc["delivery"] == "stringio"
  for ci, ((p, off), cue) in enumerate(zip(ps, desc["cues"])):
    e = exp[ci]
    for which, got, want, t, hd in (("begin", p.get_begin(), e["begin"], cue["begin"], cue["hdig"][0]),
                                   ("end", p.get_end(), e["end"], cue["end"], cue["hdig"][1])):
      if off and got is not None:
        got = got + off
      for f in time_fails(which, got, want, gen_srt.render_time(t, hd)):
        res.fail(*f)
    lines, sty, foreign = observe_p(p)
    if foreign:
      res.fail("structure:unexpected-element", "cue %d: paragraph contains %r" % (ci, foreign))
    best = None
    for r in readings:
      f = text_fails(ci, r[ci], lines, sty, raw_crlf)
      if best is None or len([x for x in f if not x[0].startswith("lines:cr-retained")]) < len(
          [x for x in best if not x[0].startswith("lines:cr-retained")]):
        best = f
    for f in best:
      res.fail(*f)


def classify(desc, exp, res, has_bs):
  cs = desc["cues"]
  res.label("cues:%s" % (len(cs) if len(cs) < 2 else "2+"))
  res.label("eol:" + ("crlf" if desc["eol"] == "\r\n" else "lf"), "delivery:" + desc["delivery"])
  if desc["eol"] == "\r\n" and desc["delivery"] == "stringio":
    res.label("crlf-raw-stringio")
  if desc["bom"]:
    res.label("bom")
  if desc["lead_blank"]:
    res.label("leading-blank-lines")
  if desc["trail_blank"]:
    res.label("trailing-blank-lines")
  if not desc["final_eol"]:
    res.label("no-final-eol")
  if has_bs:
    res.label("tag:brace-short(unrecognised)")
  seen = set()
  nested_multiline = False
  for i, c in enumerate(cs):
    if c["counter"] != str(i + 1):
      seen.add("counter:non-sequential")
    if len(c["counter"]) > 1 and c["counter"][0] == "0":
      seen.add("counter:leading-zero")
    if c["sep_blank"] > 1 and i + 1 < len(cs):
      seen.add("blank-run-between-cues")
    if c["arrow"] != [" ", " "]:
      seen.add("arrow-whitespace")
    for t, hd in zip((c["begin"], c["end"]), c["hdig"]):
      if t[0] >= 100:
        seen.add("hours:>=100")
      elif hd == 3:
        seen.add("hours:3-digit-padded")
      if (1000 // _gcd(1000, t[3])) & ((1000 // _gcd(1000, t[3])) - 1):
        seen.add("ms:non-dyadic")
    if c["begin"] == c["end"]:
      seen.add("zero-duration")
    raw = gen_srt.render_body(c["body"])
    seen.add("lines:%d" % len(raw))
    depth, maxdepth, prev = 0, 0, None
    open_line = []
    line = 0
    for tok in c["body"]:
      if tok[0] == "o":
        depth += 1
        maxdepth = max(maxdepth, depth)
        open_line.append(line)
        tag = tok[1]
        if tag["form"] != "bs":
          seen.add("tag:" + gen_srt.form_label(tag))
        if tag["k"] == "font":
          seen.add("font:" + ("named" if "name" in tag["color"] else "unknown-colour" if "raw" in tag["color"] else "hex"))
          seen.add("font:quote-" + {'"': "double", "'": "single", "": "none"}[tag["quote"]])
          if tag["pre"] or tag["post"]:
            seen.add("font:extra-attribute")
        if prev == "c":
          seen.add("adjacent-tags")
      elif tok[0] == "c":
        depth -= 1
        if open_line.pop() != line:
          seen.add("tag-spans-lines")
        if prev == "o":
          seen.add("empty-tag")
      elif tok[0] == "nl":
        line += 1
      elif "&" in tok[1]:
        seen.add("ampersand")
      prev = tok[0]
    if maxdepth >= 2:
      seen.add("nested")
      if len(raw) >= 2:
        nested_multiline = True
    if maxdepth >= 3:
      seen.add("nested-depth>=3")
    for l, vis in zip(raw, exp[i]["lines"]):
      if vis == "" or vis.strip(" ") == "":
        seen.add("tag-only-line")
      if l.isdigit():
        seen.add("numeric-text-line")
  res.label(*sorted(seen))
  res.nontrivial = len(cs) >= 2 and nested_multiline


def _gcd(a, b):
  while b:
    a, b = b, a % b
  return a


def grammar_cases(tier):
  return gen_srt.descs()


# ------------------------------------------------------------------------------------------------ frames: composition law

RATES = (24, 25, 30, 50, 60)
BASES = (1, 0, 3599, 86399)      # 00:00:01 (the property's example), 00:00:00, 00:59:59, 23:59:59


def frames_chunks(tier, seed):
  return [(fps, base) for fps in RATES for base in BASES]


def frames_cases(chunk):
  fps, base = chunk
  for ms in range(1000):
    yield {"fps": fps, "base": base, "ms": ms}


def check_frames(case, res):
  fps, base, ms = case["fps"], case["base"], case["ms"]
  h, rem = divmod(base, 3600)
  printed = "%02d:%02d:%02d,%03d" % (h, rem // 60, rem % 60, ms)
  doc = to_model(io.StringIO("1\n%s --> %s\nx\n" % (printed, printed)))
  ps = paragraphs(doc) if doc is not None else []
  if len(ps) != 1:
    res.fail("frames:no-paragraph", "reading one cue at %s gave %d paragraphs" % (printed, len(ps)))
    return
  t = Fraction(base) + Fraction(ms, 1000)
  x = t * fps
  want = "%df" % (-((-x.numerator) // x.denominator))
  ctx = attrs.TemporalAttributeWritingContext(frame_rate=Fraction(fps), time_expression_syntax=attrs.TimeExpressionSyntaxEnum.frames)
  for which, got in (("begin", ps[0][0].get_begin()), ("end", ps[0][0].get_end())):
    wrote = attrs.to_time_format(ctx, got)
    if wrote != want:
      if isinstance(got, float) and abs(Fraction(got) - t) <= FLOAT_SLACK:
        kind = "float-time"
      elif got == t:
        kind = "exact-time"
      else:
        kind = "wrong-time"
      res.fail("frames-composition:" + kind, "%s %s read as %r (%s), written at %d fps as %r, expected %r (= ceil(%s))" % (
        which, printed, got, type(got).__name__, fps, wrote, want, x))
  res.nontrivial = x.denominator == 1
  res.label("fps:%d" % fps)
  if x.denominator == 1:
    res.label("frame-boundary")


# ------------------------------------------------------------------------------------------------ writer round trip

def check_writer_roundtrip(case, res):
  """reading the SRT writer's own output returns the cues that were written: the writer's string is read by the strict parser of
  vt/cueparse.py (what was written) and by the SRT reader (what is returned); times, lines and per-character styles must agree"""
  from vt import gen_model as _gm, cueparse as _cp
  from vt.props import c06 as _c06
  import ttconv.srt.writer as _w
  doc = _gm.build(case["spec"])
  try:
    out = _w.from_model(doc, _c06.SRT_CFGS[case["cfg"]])
    cues = _cp.parse_srt(out, strict_text=False)
  except Exception:  # pylint: disable=broad-except
    res.label("writer-output-unusable")       # whether the writer may fail or write bad grammar is C07's business
    return
  res.label("cfg:" + case["cfg"])
  try:
    doc2 = to_model(io.StringIO(out))
  except Exception as e:  # pylint: disable=broad-except
    res.crash(e, "roundtrip:")
    return
  if doc2 is None:
    if cues:
      res.fail("roundtrip:reader-returned-none", repr(out[:200]))
    return
  ps = paragraphs(doc2)
  if len(ps) != len(cues):
    res.fail("roundtrip:cue-count", "writer wrote %d cues, reader returned %d paragraphs: %r" % (len(cues), len(ps), out[:300]))
    return
  for c, (p, off) in zip(cues, ps):
    b = None if p.get_begin() is None else Fraction(p.get_begin()) + off
    e = None if p.get_end() is None else Fraction(p.get_end()) + off
    if isinstance(p.get_begin(), float) or isinstance(p.get_end(), float):
      res.fail("roundtrip:time-type:float", "%r %r" % (p.get_begin(), p.get_end()))
    if (b or 0) != c.begin or e != c.end:
      res.fail("roundtrip:time-value", "written %s --> %s, read %s --> %s" % (c.begin, c.end, b, e))
    lines, sty, _foreign = observe_p(p)
    got = [x for x in (trim(l, s_) for l, s_ in zip(lines, sty)) if x[0].strip() != ""]      # lines without visible characters carry nothing
    want = [x for x in (trim(l, s_) for l, s_ in zip(c.lines, c.styles)) if x[0].strip() != ""]
    if [g[0] for g in got] != [w_[0] for w_ in want]:
      res.fail("roundtrip:lines", "written %r read %r" % ([w_[0] for w_ in want], [g[0] for g in got]))
      continue
    for (gl, gs), (wl, ws) in zip(got, want):
      for ch, g, w_ in zip(gl, gs, ws):
        if ch == " ":
          continue
        wcol = w_["color"]
        wt = (w_["bold"], w_["italic"], w_["underline"],
              None if wcol is None else tuple(int(wcol[i:i + 2], 16) for i in (1, 3, 5, 7)) if len(wcol) == 9 else wcol)
        gt = (g[0], g[1] is True, g[2], g[3])
        if gt != wt:
          which = [n for n, x, y in zip(("bold", "italic", "underline", "colour"), gt, wt) if x != y][0]
          res.fail("roundtrip:style:" + which, "char %r written %r read %r in %r" % (ch, wt, gt, c.raw_lines))
          break
  res.nontrivial = len(cues) >= 2 and any(len(c.lines) >= 2 for c in cues)


def roundtrip_cases(tier):
  from vt import gen_model as _gm
  from vt.props import c06 as _c06, c07 as _c07
  from hypothesis import strategies as st
  return st.builds(lambda spec, mode, cfg: {"spec": _c06.shape(spec, mode), "cfg": cfg}, _gm.docspecs(_c07.STYLED),
                   st.sampled_from([0, 1, 2]), st.sampled_from(["srt", "srt", "srt-noformat"]))


def finish(ctx):
  lab = ctx.acc.labels
  if "grammar" in ctx.parts:
    n = max(1, ctx.parts["grammar"]["evaluations"])
    ctx.extra["grammar_class_fractions"] = {k: round(lab.get(k, 0) / n, 3) for k in (
      "nested", "tag-spans-lines", "eol:crlf", "hours:>=100", "tag:brace-long", "tag:brace-short(unrecognised)", "bom")}


PARTS = {
  "grammar": Part("grammar", check_grammar, strategy=grammar_cases, n=(8000, 320000), shrinker=gen_srt.simplifications,
                  required_labels=("cues:0", "cues:1", "cues:2+", "eol:crlf", "eol:lf", "crlf-raw-stringio", "bom", "hours:>=100",
                                   "hours:3-digit-padded", "nested", "nested-depth>=3", "adjacent-tags", "tag-spans-lines",
                                   "tag:angle-short", "tag:angle-long", "tag:brace-long", "tag:brace-short(unrecognised)",
                                   "tag:font", "tag:angle-short-upper", "font:extra-attribute", "font:quote-none", "lines:5",
                                   "leading-blank-lines", "blank-run-between-cues", "no-final-eol", "counter:non-sequential")),
  "frames": Part("frames", check_frames, chunks=frames_chunks, cases=frames_cases, exhaustive=(True, True)),
  "writer_roundtrip": Part("writer_roundtrip", check_writer_roundtrip, strategy=roundtrip_cases, n=(640, 48000),
                           required_labels=("cfg:srt",)),
}
