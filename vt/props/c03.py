"""C03 - every snapshot element carries the style values TTML style resolution prescribes."""
from collections import Counter

from hypothesis import strategies as st

from ttconv.isd import ISD

from vt import gen_model, obs, codec
from vt.gen_model import ALL_PROPS
from vt.ref_isd import Ref, INHERITED
from vt.props.c13 import needs_resolution, lengths_in
from vt.run import Part, HarnessError

ID = "C03"
LEVEL = "exploration"
RULE = ("Hypothesis style-heavy DocSpecs (3-10 specified properties per element over all 36 properties, every unit each property accepts, "
        "cell/pixel resolutions, writing modes, 0-4 initial overrides, animation steps, ruby with and without containers) x "
        "reference-derived probe times; every (element, applicable property) cell of every snapshot is compared with the reference "
        "style resolution. evaluations = snapshots; non-trivial = snapshot containing a cell whose value comes from animation, "
        "specification, inheritance or an initial override AND whose source value needed unit resolution; distinct by (document hash, t). "
        "coverage.cells counts compared cells per (property, source).")
ASSUMPTIONS = [
  "oracle: vt/ref_isd.py compute(); numeric tolerance 1e-9 relative",
  "not asserted (DESIGN C03 soundness notes): winner among simultaneously active animation steps with different values on one property; "
  "region direction when writing mode or direction comes only from an initial override or an animation; linePadding in c accepts either cell axis",
  "tts:position with right/bottom edges is resolved with CSS background-position semantics (offset from the far edge of the region box)",
]

HEAVY = gen_model.profile(style_density=(3, 10), max_nodes=16, fanout=2, max_depth=4, br_styles=False, arbitrary_times=False,
                          anim_counts=(0, 1, 2, 3, 4), initial_counts=(0, 1, 2, 4, 6))
SHRINK = gen_model.case_simplifications("spec")


def check(case, res):
  spec = case["spec"]
  doc = gen_model.build(spec)
  ref = Ref(spec)
  times, _b = ref.probe_times(case["extra"])
  if len(times) > 24:   # keep the per-document cost bounded: all change points, then evenly spaced others
    times = times[::max(1, len(times) // 24)]
  h = codec.chash(spec)
  res.evals = 0
  stats = Counter()
  resolvable = {n["id"] for n in gen_model.all_nodes(spec) if n["kind"] != "text" and needs_resolution(n)}
  if any(needs_resolution({"styles": spec["initials"], "anims": []}) for _ in (0,)):
    resolvable.add("__initials__")
  for t in times:
    res.evals += 1
    snaps = ref.snapshot(t)
    try:
      isd = ISD.from_model(doc, t)
    except Exception as e:  # pylint: disable=broad-except
      res.crash(e)
      continue
    before = len(res.fails)
    regions = obs.observe(isd)
    obs.compare_styles(snaps, regions, res, stats)
    # anim-multi cells are not asserted: drop failures whose only source is anim-multi
    res.fails[before:] = [f for f in res.fails[before:] if ":anim-multi" not in f[0]]
    ids = set()
    for g in regions:
      ids.add(g.id)
      ids.update(g.elements)
    if ids & resolvable or ("__initials__" in resolvable and ids):
      res.nt_keys.append("%s@%s" % (h, t))
  res.stats = stats
  wm = {n["styles"].get("WritingMode") for n in spec["regions"]}
  if spec["initials"].get("Direction") is not None and spec["initials"]["Direction"].name == "rtl" and any(
      n["styles"].get("WritingMode") is not None and n["styles"]["WritingMode"].name == "lrtb" and "Direction" not in n["styles"]
      for n in spec["regions"]):
    res.label("lrtb-region-under-initial-direction-rtl")
  res.label(*["wm:" + w.name for w in wm if w is not None])
  res.label("cell:%dx%d" % tuple(spec["cell"]) if tuple(spec["cell"]) in ((32, 15), (40, 23), (1, 1), (52, 19)) else "cell:random")


def lrtb_under_rtl_initial(spec, on):
  """a region that specifies tts:writingMode lrtb (and no direction) in a document whose initial tts:direction is rtl: the region's
  direction is the one its writing mode implies, not the document's initial value"""
  if not on or not spec["regions"]:
    return spec
  import ttconv.style_properties as s
  spec["initials"]["Direction"] = s.DirectionType.rtl
  r = spec["regions"][on % len(spec["regions"])]
  r["styles"]["WritingMode"] = s.WritingModeType.lrtb
  r["styles"].pop("Direction", None)
  r["anims"] = [a for a in r["anims"] if a[0] not in ("Direction", "WritingMode")]
  return spec


def cases(tier):
  return st.builds(lambda spec, extra, lr: {"spec": lrtb_under_rtl_initial(spec, lr), "extra": extra}, gen_model.docspecs(HEAVY),
                   st.lists(st.fractions(0, 12, max_denominator=97), max_size=1), st.sampled_from([0, 0, 0, 0, 0, 0, 0, 1, 2, 3]))


def finish(ctx):
  lab = ctx.acc.labels
  cells = {k[5:]: v for k, v in lab.items() if k.startswith("cell:") and k.count(":") == 2 and k.split(":")[1] in ALL_PROPS}
  want = []
  for p in ALL_PROPS:
    # inherited properties apply to content elements only, which always inherit them from the region: no "initial" cell
    for src in ("anim", "spec") + (("inherit",) if p in INHERITED else ("initial",)):
      want.append("%s:%s" % (p, src))
  missing = [w for w in want if cells.get(w, 0) == 0]
  ctx.extra["cells"] = dict(sorted(cells.items()))
  ctx.extra["cells_reachable"] = len(want)
  ctx.extra["cells_reached"] = len(want) - len(missing)
  ctx.extra["cells_missing"] = missing
  for k in list(lab):
    if k.startswith("cell:") and k.count(":") == 2 and k.split(":")[1] in ALL_PROPS:
      del lab[k]
  if len(missing) > 0.2 * len(want):
    raise HarnessError("only %d of %d (property, source) cells reached: missing %r" % (len(want) - len(missing), len(want), missing[:10]))


PARTS = {
  "main": Part("main", check, strategy=cases, n=(1600, 64000), shrinker=SHRINK,
               required_labels=("wm:tbrl", "wm:rltb", "cell:random", "lrtb-region-under-initial-direction-rtl")),
}
