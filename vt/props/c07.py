"""C07 - SRT/WebVTT outputs are grammatical and tags reflect the computed styles."""
import re
from fractions import Fraction

from hypothesis import strategies as st

import ttconv.style_properties as s

from vt import gen_model, cueparse, cuecheck
from vt.props import c06
from vt.run import Part

ID = "C07"
LEVEL = "exploration"
RULE = ("Hypothesis text-profile DocSpecs with per-span combinations of fontWeight / fontStyle / textDecoration / color / "
        "backgroundColor at several nesting levels (children resetting a parent's style included), text containing & < > --> { "
        "(labelled), white-space-only lines, sub-millisecond intervals (labelled), regions positioned through origin / position / "
        "extent / displayAlign x all writer configurations. evaluations = (document, configuration) outputs; non-trivial = output "
        "with >= 2 distinct style runs in one cue or a markup-significant character; distinct by (document, configuration) hash.")
ASSUMPTIONS = [
  "grammar: vt/cueparse.py (strict SubRip block grammar; WebVTT file/cue/settings grammar and cue-text tokenizer), self-tested",
  "per-character expected styles are the reference interpreter's computed values of the text node's parent (vt/cuecheck.py); "
  "background: the innermost enclosing span whose computed background differs from the default",
  "SubRip has no escaping: for SRT, documents whose text contains & < > { } or --> are a labelled class in which only 'does not fail' and "
  "'no --> inside a payload' are asserted (tags cannot be told from text there)",
  "oblique counts as italic or not (either); line percentages accept either rounding at an exact half; align accepts left/start, right/end synonyms",
  "cue settings are asserted for horizontal writing modes only, and align only for cues made of a single paragraph",
]

STYLE_PROPS = ["FontWeight", "FontStyle", "TextDecoration", "Color", "BackgroundColor", "TextAlign", "Direction", "DisplayAlign",
               "Extent", "Origin", "Position", "Display"]
BASE = dict(style_density=(0, 4), max_nodes=30, fanout=3, br_styles=False, anim_on_offset=False, props=STYLE_PROPS, hiding=True,
            text_ws=True, xml_safe=True, doc_params=False, anim_counts=(0, 0, 1, 2), exotic_numbers=False, edges=True, preserve=True,
            timed_regions=False, body_divs=(1, 3), time_density=6,
            time_shifts=[Fraction(0), Fraction(0), Fraction(0), Fraction(59), Fraction(3599), Fraction(86399), Fraction(359990)])
STYLED = gen_model.profile(arbitrary_times=False, **BASE)
MARKUP = gen_model.profile(arbitrary_times=False, text_markup=True, **dict(BASE, max_nodes=16, ruby=False))
SUBMS = gen_model.profile(arbitrary_times=True, **dict(BASE, max_nodes=14, time_density=3,
                                                      time_shifts=[Fraction(0), Fraction(0), Fraction(0), 60 - Fraction(1, 3000),
                                                                   3600 - Fraction(1, 4000), 120 - Fraction(9, 20000)]))
CR = gen_model.profile(arbitrary_times=False, **dict(BASE, xml_safe=False, max_nodes=16, time_shifts=None))
SHRINK = gen_model.case_simplifications("spec")
MARKUP_CHARS = re.compile(r"[&<>{}]|-->")


def stagger(spec, on):
  """two sibling paragraphs that begin 0.2 ms apart, the first one coloured: the interval in which only the first is shown has no cue
  (both ends round to the same millisecond) and the colour is used again by the cue that follows"""
  if not on or spec["body"] is None:
    return spec
  for n in gen_model.walk(spec["body"]):
    ps = [k for k in n["kids"] if k["kind"] == "p"]
    if len(ps) >= 2:
      a, b = ps[0], ps[1]
      base = a["begin"] if a["begin"] is not None else Fraction(1)
      a["begin"], a["end"] = base + Fraction(1, 10000), None
      b["begin"], b["end"] = base + Fraction(3, 10000), None
      a["styles"]["Color"] = s.ColorType((18, 52, 86, 255))
      a["styles"]["BackgroundColor"] = s.ColorType((86, 52, 18, 255))
      a["styles"].pop("Display", None)
      a["anims"] = []
      break
  return spec


def cases(prof, cfgs, sub_ms=False):
  def strat(tier):
    eps = st.sampled_from(c06.EPS) if sub_ms else st.none()
    return st.builds(lambda spec, mode, cfg, e, o, stg: {"spec": stagger(c06.tiny_times(c06.shape(spec, mode), e, o), stg and sub_ms), "cfg": cfg},
                     gen_model.docspecs(prof), st.sampled_from([0, 1, 2, 3]), st.sampled_from(cfgs), eps, st.sampled_from(c06.OFFSETS),
                     st.sampled_from([False, False, True]))
  return strat


def expected_settings(cue, cfg):
  """(line value candidates, line alignment, text alignment candidates or None) from the reference's computed region and paragraph"""
  rc = cue.region.computed
  out = {}
  if cfg.split("-")[1] == "L" and rc["WritingMode"] in (s.WritingModeType.lrtb, s.WritingModeType.rltb):
    pv = rc["Position"][1][0]
    eh = rc["Extent"][0][0]
    da = rc["DisplayAlign"]
    v, al = (pv + eh, "end") if da is s.DisplayAlignType.after else (pv, "start") if da is s.DisplayAlignType.before else (pv + eh / 2, "center")
    f = v.numerator // v.denominator
    cands = {f, f + 1} if (v - f) * 2 == 1 else {f if (v - f) * 2 < 1 else f + 1}
    out["line"] = ({max(0, min(100, c)) for c in cands}, al)
  if cfg.split("-")[2] == "A" and len(cue.paras) == 1 and cue.p_count == 1:
    p = cue.paras[0]
    if p.direction in (s.DirectionType.ltr, s.DirectionType.rtl):
      rtl = p.direction is s.DirectionType.rtl
      ta = p.text_align
      if ta is s.TextAlignType.center:
        out["align"] = {"center"}
      elif ta is s.TextAlignType.start:
        out["align"] = {"right", "start"} if rtl else {"left", "start"}
      else:
        out["align"] = {"left", "end"} if rtl else {"right", "end"}
  return out


def check(case, res):
  spec, cfg = case["spec"], case["cfg"]
  fmt = "srt" if cfg.startswith("srt") else "vtt"
  per_region = fmt == "vtt" and cfg.split("-")[1] == "L"
  res.label("cfg:" + cfg)
  doc = gen_model.build(spec)
  has_markup = any(n["kind"] == "text" and MARKUP_CHARS.search(n["text"]) for n in gen_model.all_nodes(spec))
  if has_markup:
    res.label("text-with-markup-characters")
  exp, sig = cuecheck.expected_cues(doc, spec, per_region)
  n_all = len(exp)
  if any("cr" in ch.leaf[2] for c in exp for l in c.lines for ch in l[:1]):
    res.label("carriage-return-in-visible-preserved-text")
  exp, dropped, ambiguous = cuecheck.resolve_sub_ms(exp)
  sub_ms = dropped > 0 or ambiguous
  if sub_ms:
    res.label("sub-millisecond-interval")
  if 0 < dropped < n_all:
    res.label("sub-millisecond-interval-among-other-cues")
  try:
    out = c06.run_writer(doc, cfg)
  except Exception as e:  # pylint: disable=broad-except
    res.crash(e, "%s:%s" % (fmt, "sub-ms:" if sub_ms else ""))
    return
  if not isinstance(out, str):
    res.fail(fmt + ":not-a-string", type(out).__name__)
    return
  if fmt == "srt" and has_markup:
    # SubRip cannot escape markup characters, so tags cannot be told from text: of the grammar only "no --> inside a payload" is asserted
    try:
      cueparse.parse_srt(out, strict_text=False)
    except cueparse.GrammarError as e:
      if e.clause == "payload:arrow":
        res.fail("srt:grammar:payload:arrow:markup-text", "%s in %r" % (e, out[:400]))
    return
  try:
    if fmt == "srt":
      cues, css = cueparse.parse_srt(out, strict_text=True), None
    else:
      cues, css = cueparse.parse_vtt(out)
  except cueparse.GrammarError as e:
    feature = ":markup-text" if has_markup and e.clause.startswith(("text:", "payload:arrow", "tags:")) else ""
    res.fail("%s:grammar:%s%s" % (fmt, e.clause, feature), "%s in %r" % (e, out[:400]))
    return
  if fmt == "vtt" and cfg.split("-")[3] == "I":
    ids = [c.ident for c in cues]
    if ids != [str(i + 1) for i in range(len(cues))]:
      res.fail("vtt:grammar:cue-identifiers-not-consecutive", ids[:10])
  elif fmt == "vtt" and any(c.ident is not None for c in cues):
    res.fail("vtt:grammar:cue-identifier-with-cue_id-disabled", [c.ident for c in cues][:5])
  for a, b in zip(cues, cues[1:]):
    if b.begin < a.end and (b.begin, b.end) != (a.begin, a.end):
      res.fail(fmt + ":grammar:cues-overlap", "%s-->%s then %s-->%s" % (a.begin, a.end, b.begin, b.end))
  formatting = cfg != "srt-noformat"
  if not formatting and any(re.search(r"</?[a-zA-Z][^<>]*>", l) for c in cues for l in c.raw_lines):
    res.fail("srt:style:tags-with-formatting-disabled", [c.raw_lines for c in cues][:3])
  if ambiguous:
    return                       # an end point exactly on a half millisecond: whether the cue exists depends on the rounding mode
  visible = [c for c in cues if any(l.strip() for l in c.lines)]
  for c in visible:
    keep = [i for i, l in enumerate(c.lines) if l.strip() != ""]
    c.lines = [c.lines[i] for i in keep]
    c.styles = [c.styles[i] for i in keep]
  for e in exp:
    e.lines = [l for l in e.lines if "".join(ch.c for ch in l).strip() != ""]
  if len(visible) != len(exp):
    return                       # cue structure is C06's business
  cuecheck.compare_styles(exp, visible, res, fmt, css, formatting)
  runs = 0
  for c in visible:
    sts = [tuple(sorted((k, str(v)) for k, v in st_.items())) for l in c.styles for st_ in l]
    runs = max(runs, len(set(sts)))
  res.nontrivial = runs >= 2 or has_markup
  if fmt == "vtt":
    for e, c in zip(exp, visible):
      want = expected_settings(e, cfg)
      if "line" in want:
        res.label("line-setting-checked")
        m = re.match(r"^(-?\d+)%(?:,(start|center|end))?$", c.settings.get("line", ""))
        if not m:
          res.fail("vtt:settings:line-missing-or-not-percentage", c.settings)
        else:
          if int(m.group(1)) not in want["line"][0]:
            res.fail("vtt:settings:line-value:" + want["line"][1], "line:%s expected %s (region position %s extent %s)" % (
              c.settings["line"], sorted(want["line"][0]), e.region.computed["Position"], e.region.computed["Extent"]))
          if (m.group(2) or "start") != want["line"][1]:
            res.fail("vtt:settings:line-alignment", "line:%s expected alignment %s" % (c.settings["line"], want["line"][1]))
      elif cfg.split("-")[1] == "l" and "line" in c.settings:
        res.fail("vtt:settings:line-with-line_position-disabled", c.settings)
      if "align" in want:
        res.label("align-setting-checked")
        if c.settings.get("align") not in want["align"]:
          res.fail("vtt:settings:align", "align:%s expected %s" % (c.settings.get("align"), sorted(want["align"])))
      elif cfg.split("-")[2] == "a" and "align" in c.settings:
        res.fail("vtt:settings:align-with-text_align-disabled", c.settings)


def selftest():
  cueparse.selftest()


ALL_CFGS = list(c06.SRT_CFGS) + c06.VTT_NAMES
PARTS = {
  "styled": Part("styled", check, strategy=cases(STYLED, ALL_CFGS + ["srt", "vtt-L-A-I"]), n=(960, 64000), shrinker=SHRINK,
                 required_labels=("line-setting-checked", "align-setting-checked", "cfg:srt-noformat")),
  "markup": Part("markup", check, strategy=cases(MARKUP, c06.VTT_NAMES + ["srt"]), n=(320, 16000), shrinker=SHRINK,
                 required_labels=("text-with-markup-characters",)),
  "cr": Part("cr", check, strategy=cases(CR, ALL_CFGS), n=(240, 12000), shrinker=SHRINK,
             required_labels=("carriage-return-in-visible-preserved-text",)),
  "subms": Part("subms", check, strategy=cases(SUBMS, ALL_CFGS, True), n=(320, 16000), shrinker=SHRINK,
                required_labels=("sub-millisecond-interval", "sub-millisecond-interval-among-other-cues")),
}
