"""C02 - the presentation changes only at the reported significant times."""
from fractions import Fraction

from hypothesis import strategies as st

from ttconv.isd import ISD

from vt import gen_model, codec, canon
from vt.ref_isd import Ref, nonspace
from vt.run import Part

ID = "C02"
LEVEL = "exploration"
RULE = ("Hypothesis DocSpecs weighted towards animation (set) steps on elements and regions that themselves begin at a non-zero offset "
        "x probe times from the reference interpreter's change points (each, +-eps, midpoints, after the end). evaluations = (document, "
        "probe) pairs; non-trivial = document with >= 3 reported significant times and a probe strictly between two of them whose "
        "snapshot is non-empty; distinct by (document hash, t).")
ASSUMPTIONS = [
  "completeness (clause 3) compares ttconv snapshots with each other at t and at the greatest reported time <= t; the probe set and "
  "clause 4 (every reference change point that alters the rendered reference snapshot is reported) come from vt/ref_isd.py",
  "superfluous significant times are allowed",
  "sequence entries may differ from from_model(doc, s) only in regions without content that paint nothing at s according to the reference (as in C14)",
]

KW = dict(style_density=(0, 2), max_nodes=24, anim_counts=(0, 1, 1, 2, 3), ruby=False, br_styles=False,
          props=["Display", "Visibility", "Opacity", "Color", "BackgroundColor", "FontSize", "TextDecoration",
                 "ShowBackground", "Extent", "Origin", "FontWeight"])
ANIM_OFFSET = gen_model.profile(**KW)
ANIM = gen_model.profile(anim_on_offset=False, **KW)
_UNUSED = dict(style_density=(0, 2), max_nodes=24, anim_counts=(0, 1, 1, 2, 3), ruby=False, br_styles=False,
                         props=["Display", "Visibility", "Opacity", "Color", "BackgroundColor", "FontSize", "TextDecoration",
                                "ShowBackground", "Extent", "Origin", "FontWeight"])
SHRINK = gen_model.case_simplifications("spec")


def offset_anim_points(spec):
  """absolute begins/ends of animation steps that sit on an element or region whose own begin offset is non-zero"""
  from vt.ref_isd import absolute
  pts = set()

  def w(n, pb, pe):
    if n["kind"] == "text":
      return
    iv = absolute(n.get("begin"), n.get("end"), pb, pe)
    if n.get("begin"):
      for (_k, b, e, _v) in n["anims"]:
        a = absolute(b, e, iv[0], iv[1])
        pts.add(a[0])
        if a[1] is not None:
          pts.add(a[1])
    for k in n["kids"]:
      w(k, iv[0], iv[1])

  for r in spec["regions"]:
    w(r, None, None)
  if spec["body"] is not None:
    w(spec["body"], None, None)
  return pts


def check(case, res):
  spec = case["spec"]
  doc = gen_model.build(spec)
  ref = Ref(spec)
  h = codec.chash(spec)
  sig_obj = ISD.significant_times(doc)
  sig = list(sig_obj)
  if any(not isinstance(x, (int, Fraction)) or isinstance(x, bool) for x in sig):
    res.fail("sig:type", [type(x).__name__ for x in sig])
  if any(b <= a for a, b in zip(sig, sig[1:])):
    res.fail("sig:not-strictly-increasing", sig)
  if list(sig_obj.offsets()) != sig or len(sig_obj) != len(sig) or (sig and sig_obj[0] != sig[0]):
    res.fail("sig:list-protocol", "")
  times, boundary = ref.probe_times(case["extra"])
  res.evals = 0
  cache = {}

  def snap(t):
    if t not in cache:
      cache[t] = canon.canon_isd(ISD.from_model(doc, t))
    return cache[t]

  offset_anim = any(n["anims"] and n.get("begin") for n in gen_model.all_nodes(spec))
  res.label("anim-on-offset-element" if offset_anim else "no-anim-on-offset-element")
  oap = offset_anim_points(spec)
  # reference pass: rendered reference snapshot at every probe; change points at which it really changes
  refc = {}
  changed = []
  prev = None
  for t in times:
    refc[t] = canon.canon_ref(ref.snapshot(t))
    if t in boundary and prev is not None and refc[t] != refc[prev]:
      changed.append(t)
    prev = t

  def cause(t, s):
    """classifies the unreported reference change points in (s, t]"""
    missing = [p for p in changed if p <= t and (s is None or p > s) and p not in sig]
    # (an unreported step of an offset element may change the snapshot without changing the rendered reference, e.g. the colour of
    # white-space-only text: the step's own instants count, not only the reference's visible change points)
    unreported_steps = [p for p in oap if p <= t and (s is None or p > s) and p not in sig]
    if (missing or unreported_steps) and all(p in oap for p in missing):
      return ":anim-step-of-offset-element"
    return ""

  prev = None
  for t in times:
    res.evals += 1
    earlier = [s for s in sig if s <= t]
    rs = refc[t]
    if t in changed and t not in sig:
      res.fail("complete:change-point-not-reported:" + ref_diff_kind(rs, refc[prev]) + (":anim-step-of-offset-element" if t in oap else ""),
               "reference presentation changes at %s (from %s), significant times %s" % (t, prev, [str(x) for x in sig]))
    prev = t
    if sig and sig[0] > t and any(r[2] for r in rs):
      res.fail("sig:first-after-visible-content", "reference presents content at %s, first significant time %s" % (t, sig[0]))
    try:
      c = snap(t)
      if not earlier:
        if canon.drop_empty_regions(c):
          res.fail("complete:content-before-first-significant-time", "t=%s first=%s" % (t, sig[:1]))
        cs = None
      else:
        cs = snap(earlier[-1])
    except Exception as e:  # pylint: disable=broad-except
      res.crash(e)
      continue
    if cs is not None and c != cs:
      kind = "boundary" if t in boundary else "between"
      res.fail("complete:snapshot-differs-from-last-significant-time:" + diff_kind(c, cs) + cause(t, earlier[-1]),
               "t=%s (%s) differs from snapshot at %s; significant times %s" % (t, kind, earlier[-1], [str(x) for x in sig]))
    if len(sig) >= 3 and sig[0] < t < sig[-1] and t not in sig and canon.drop_empty_regions(c):
      res.nt_keys.append("%s@%s" % (h, t))
  # clause 5: the generated sequence is the list of snapshots at the reported times
  try:
    seq = ISD.generate_isd_sequence(doc)
  except Exception as e:  # pylint: disable=broad-except
    res.crash(e, "sequence:")
    return
  if [t for t, _ in seq] != sig:
    res.fail("sequence:times-differ", "%s vs %s" % ([str(t) for t, _ in seq], [str(x) for x in sig]))
  else:
    for t, isd in seq:
      res.evals += 1
      # regions without content are compared too when they paint a background at t according to the reference (as in C14)
      paints = {sn.id for sn in ref.snapshot(t) if Ref.paints_background(sn.computed)}
      if paints:
        res.label("sequence-entry-with-painting-region")
      a = canon.drop_empty_regions(canon.canon_isd(isd), paints)
      try:
        b = canon.drop_empty_regions(snap(t), paints)
      except Exception as e:  # pylint: disable=broad-except
        res.crash(e)
        continue
      if a != b:
        res.fail("sequence:entry-differs-from-snapshot", "t=%s" % t)


def diff_kind(a, b):
  ra, rb = {r[1]: r for r in a}, {r[1]: r for r in b}
  if set(ra) != set(rb):
    return "regions"
  for k in ra:
    if ra[k][4] != rb[k][4]:
      return "region-style"
    if ra[k][5] != rb[k][5]:
      return "content"
  return "order"


def ref_diff_kind(a, b):
  ra, rb = {r[0]: r for r in a}, {r[0]: r for r in b}
  if set(ra) != set(rb):
    return "regions"
  for k in ra:
    if ra[k][1] != rb[k][1]:
      return "region-style"
    if ra[k][2] != rb[k][2]:
      return "leaves"
  return "element-style"


import ttconv.style_properties as _styles


def reveal_by_step(spec, on):
  """an element that specifies tts:display="none" and is shown only while a timed set step makes it display="auto": its
  presentation changes at the step's begin and end although its specified styles never show it"""
  if not on or spec["body"] is None:
    return spec
  cands = [n for n in gen_model.walk(spec["body"]) if n["kind"] in ("div", "p", "span") and n["begin"] is None and n["kids"]]
  if not cands:
    return spec
  n = cands[on % len(cands)]
  b = gen_model.TIMES[on % len(gen_model.TIMES)]
  n["styles"]["Display"] = _styles.DisplayType.none
  n["anims"] = [a for a in n["anims"] if a[0] != "Display"] + [("Display", b, b + Fraction(1 + on % 3, 2), _styles.DisplayType.auto)]
  return spec


def hide_br_by_step(spec, on):
  """a line break that a timed set step takes away (tts:display="none" on the br) and gives back"""
  if not on or spec["body"] is None:
    return spec
  brs = [n for n in gen_model.walk(spec["body"]) if n["kind"] == "br"]
  if not brs:
    return spec
  n = brs[on % len(brs)]
  b = gen_model.TIMES[(on + 3) % len(gen_model.TIMES)]
  n["anims"] = [("Display", b, b + Fraction(1 + on % 2, 3), _styles.DisplayType.none)]
  return spec


def cases(prof):
  def strat(tier):
    # one document in four carries value-equal animation steps on two siblings (gen_model.equal_steps_on_siblings), one in five an
    # element that is displayed only while a set step reveals it
    return st.builds(lambda spec, extra, eq, rv: {"spec": hide_br_by_step(reveal_by_step(
      gen_model.equal_steps_on_siblings(spec, _styles.NamedColors.red.value, False) if eq else spec, rv), rv % 3), "extra": extra},
                     gen_model.docspecs(prof),
                     st.lists(st.fractions(0, 12, max_denominator=997), max_size=2), st.sampled_from([False, False, False, True]),
                     st.sampled_from([0, 0, 0, 0, 1, 2, 3, 5, 7, 11]))
  return strat


PARTS = {
  # main: animation steps only on elements that begin with their parent, so that the search is not shadowed by finding I-1
  "main": Part("main", check, strategy=cases(ANIM), n=(640, 64000), shrinker=SHRINK),
  # offset: the class the property's quantifier singles out (set steps on elements starting at a non-zero offset)
  "offset": Part("offset", check, strategy=cases(ANIM_OFFSET), n=(320, 32000), shrinker=SHRINK, required_labels=("anim-on-offset-element",)),
}
