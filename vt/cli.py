"""python -m vt.cli: entry point (keeps vt.run importable under one module name)."""
import sys
from vt.run import main
sys.exit(main())
