"""Runner: check <ID> [--tier quick|thorough] [--replay FILE]

exit 0 = property held on everything explored (KNOWN-FINDING lines possible)
exit 1 = "VIOLATION property=<id> replay=<path>" printed for each failure bucket not listed in known_findings.json
exit 2 = harness error (never reported as a violation)
"""
import argparse
import fnmatch
import importlib
import json
import logging
import multiprocessing
import os
import sys
import time
import traceback
from collections import Counter

from vt import codec

HOME = os.environ.get("VT_HOME") or os.path.dirname(os.path.dirname(os.path.abspath(__file__)))
REPO = os.environ.get("VT_REPO", "/repo")
NCPU = min(16, os.cpu_count() or 1)


class HarnessError(Exception):
  pass


# ------------------------------------------------------------------------------------------------ results

class Res:
  """Outcome of one case: failures (bucket, detail), labels, non-triviality."""
  __slots__ = ("fails", "labels", "nontrivial", "nt_key", "extra_nt", "nt_keys", "evals", "stats")

  def __init__(self):
    self.fails = []
    self.labels = Counter()
    self.nontrivial = False
    self.nt_key = None      # overrides the case hash for distinctness when set
    self.extra_nt = 0       # for cases that bundle many distinct sub-cases counted by construction
    self.nt_keys = []       # for cases that bundle several sub-cases (document x time): one key per non-trivial sub-case
    self.evals = 1          # number of evaluations this case stands for
    self.stats = None       # optional Counter merged into the labels (coverage grids)

  def fail(self, bucket, detail=""):
    if not any(b == bucket for b, _ in self.fails):
      self.fails.append((bucket, str(detail)[:1500]))

  def label(self, *names):
    for n in names:
      self.labels[n] += 1

  def crash(self, exc, prefix=""):
    """records an exception raised by ttconv as a crash bucket; re-raises harness errors"""
    bucket, harness = crash_bucket(exc)
    if harness:
      raise exc
    self.fail(prefix + bucket, "%s: %s" % (type(exc).__name__, exc))


class Acc:
  """Mergeable accumulator (one per shard, merged in the parent)."""

  def __init__(self):
    self.evaluations = 0
    self.nt = set()
    self.nt_counted = 0
    self.labels = Counter()
    self.fails = {}         # bucket -> [count, size, case_json, detail]
    self.samples = []
    self.stopped_early = False
    self.notes = []

  def add(self, case, res, sample_limit=4, enc_case=None):
    self.evaluations += res.evals
    self.labels.update(res.labels)
    if res.stats:
      self.labels.update(res.stats)
    j = None
    if res.nt_keys:
      self.nt.update(res.nt_keys)
      res.nontrivial = True
    if res.nontrivial:
      if res.extra_nt:
        self.nt_counted += res.extra_nt
      elif not res.nt_keys:
        self.nt.add(res.nt_key if res.nt_key is not None else codec.chash(case))
      if len(self.samples) < sample_limit:
        self.samples.append(codec.brief(case))
    for bucket, detail in res.fails:
      if j is None:
        j = codec.dumps(case)
      cur = self.fails.get(bucket)
      if cur is None:
        self.fails[bucket] = [1, len(j), j, detail]
      else:
        cur[0] += 1
        if len(j) < cur[1]:
          cur[1], cur[2], cur[3] = len(j), j, detail

  def merge(self, o):
    self.evaluations += o.evaluations
    self.nt |= o.nt
    self.nt_counted += o.nt_counted
    self.labels.update(o.labels)
    for b, v in o.fails.items():
      cur = self.fails.get(b)
      if cur is None:
        self.fails[b] = list(v)
      else:
        cur[0] += v[0]
        if v[1] < cur[1]:
          cur[1], cur[2], cur[3] = v[1], v[2], v[3]
    for s in o.samples:
      if len(self.samples) < 5:
        self.samples.append(s)
    self.stopped_early = self.stopped_early or o.stopped_early
    self.notes.extend(o.notes)


def crash_bucket(exc):
  """(bucket, is_harness) for an exception escaping a check: innermost ttconv frame decides."""
  tb = traceback.extract_tb(exc.__traceback__)
  tt = [f for f in tb if "/ttconv/" in f.filename.replace("\\", "/")]
  if tt:
    f = tt[-1]
    mod = f.filename.replace("\\", "/").split("/ttconv/")[-1][:-3].replace("/", ".")
    return "crash:%s:%s.%s" % (type(exc).__name__, mod, f.name), False
  return "harness:%s" % type(exc).__name__, True


def run_check(check, case):
  """Runs check(case, res) converting escaping exceptions into crash buckets (ttconv frames) or harness errors."""
  res = Res()
  try:
    check(case, res)
  except RecursionError:
    res.fail("crash:RecursionError", "recursion")
  except HarnessError:
    raise
  except Exception as e:   # pylint: disable=broad-except
    bucket, harness = crash_bucket(e)
    if harness:
      raise HarnessError("check raised %s: %s\n%s" % (type(e).__name__, e, traceback.format_exc())) from e
    res.fail(bucket, "%s: %s" % (type(e).__name__, e))
  return res


# ------------------------------------------------------------------------------------------------ parts

class Part:
  """One explorer of a property.

  kind "hyp": strategy(tier) -> hypothesis strategy; n = (quick, thorough) total examples.
  kind "enum": chunks(tier, seed) -> list of picklable chunk descriptors; cases(chunk) -> iterator of cases.
  check(case, res) fills a Res.  count_all_nt: every evaluated case is distinct by construction (enumerations).
  """

  def __init__(self, name, check, strategy=None, n=(200, 5000), chunks=None, cases=None, budget=(120, 3600),
               required_labels=(), shards=None, exhaustive=(False, False), fast_check=None, decode=None, shrinker=None):
    self.name = name
    self.check = check
    self.strategy = strategy
    self.n = n
    self.chunks = chunks
    self.cases = cases
    self.budget = budget
    self.required_labels = tuple(required_labels)
    self.shards = shards
    self.exhaustive = exhaustive
    self.fast_check = fast_check  # optional: chunk -> Acc, for tight enumeration loops
    self.decode = decode          # optional: JSON-decoded case -> case (default identity)
    self.shrinker = shrinker      # optional: case -> iterable of simpler cases (greedy minimiser instead of hypothesis.find)


def _measured(fn):
  """with VT_COVERAGE_DIR set, each shard records which lines of the tree under test it executes (tools/anchor_coverage.py)"""
  def wrapper(args):
    cdir = os.environ.get("VT_COVERAGE_DIR")
    if not cdir:
      return fn(args)
    import coverage
    src = os.path.join(os.environ.get("VT_REPO", "/repo"), "src", "main", "python", "ttconv")
    cov = coverage.Coverage(data_file=os.path.join(cdir, ".coverage"), data_suffix=True, include=[src + "/*"])
    cov.start()
    try:
      return fn(args)
    finally:
      cov.stop()
      cov.save()
  wrapper.__name__ = fn.__name__
  return wrapper


def _hyp_shard(args):
  return _hyp_shard_body(args)


def _enum_shard(args):
  return _enum_shard_body(args)


@_measured
def _hyp_shard_body(args):
  modname, partname, tier, seed, n, budget = args
  logging.disable(logging.CRITICAL)
  import hypothesis
  from hypothesis import given, settings, HealthCheck, Phase
  mod = importlib.import_module(modname)
  part = mod.PARTS[partname]
  acc = Acc()
  t0 = time.time()
  strat = part.strategy(tier)

  @hypothesis.seed(seed)
  @settings(max_examples=n, database=None, deadline=None, derandomize=False, report_multiple_bugs=False,
            phases=[Phase.generate, Phase.target],
            suppress_health_check=[HealthCheck.too_slow, HealthCheck.data_too_large, HealthCheck.large_base_example])
  @given(strat)
  def t(case):
    if time.time() - t0 > budget:
      acc.stopped_early = True
      return
    res = run_check(part.check, case)
    acc.add(case, res)

  try:
    t()
  except HarnessError as e:
    return ("harness", str(e))
  except hypothesis.errors.FailedHealthCheck as e:
    return ("harness", "hypothesis health check: %s" % e)
  except hypothesis.errors.Unsatisfiable as e:
    return ("harness", "hypothesis unsatisfiable: %s" % e)
  except Exception as e:  # pylint: disable=broad-except
    return ("harness", "generator or runner raised %s: %s\n%s" % (type(e).__name__, str(e)[:300], traceback.format_exc()[-1500:]))
  return ("ok", acc)


@_measured
def _enum_shard_body(args):
  modname, partname, tier, chunk = args
  logging.disable(logging.CRITICAL)
  mod = importlib.import_module(modname)
  part = mod.PARTS[partname]
  try:
    if part.fast_check is not None:
      return ("ok", part.fast_check(chunk))
    acc = Acc()
    for case in part.cases(chunk):
      acc.add(case, run_check(part.check, case))
    return ("ok", acc)
  except HarnessError as e:
    return ("harness", str(e))
  except Exception as e:  # pylint: disable=broad-except
    return ("harness", "enumeration raised %s\n%s" % (e, traceback.format_exc()))


def _greedy(part, case, bucket, budget):
  """greedy minimisation: keep applying the first simplification that stays in `bucket` until none does or time is up"""
  t0 = time.time()
  progress = True
  while progress and time.time() - t0 < budget:
    progress = False
    for cand in part.shrinker(case):
      if time.time() - t0 > budget:
        break
      try:
        res = run_check(part.check, cand)
      except HarnessError:
        continue
      if any(b == bucket for b, _ in res.fails):
        case = cand
        progress = True
        break
  return case


def _shrink(modname, partname, tier, seed, bucket, n, budget):
  """Hypothesis find() for the smallest case that still falls in `bucket` (time capped)."""
  import hypothesis
  from hypothesis import settings, HealthCheck, Phase
  import random
  mod = importlib.import_module(modname)
  part = mod.PARTS[partname]
  t0 = time.time()

  def pred(case):
    if time.time() - t0 > budget:
      return False
    try:
      res = run_check(part.check, case)
    except HarnessError:
      return False
    return any(b == bucket for b, _ in res.fails)

  try:
    return hypothesis.find(part.strategy(tier), pred, random=random.Random(seed),
                           settings=settings(max_examples=n, database=None, deadline=None,
                                             phases=[Phase.generate, Phase.shrink],
                                             suppress_health_check=list(HealthCheck)))
  except Exception:  # pylint: disable=broad-except
    return None


# ------------------------------------------------------------------------------------------------ known findings

def load_known(pid):
  path = os.path.join(HOME, "known_findings.json")
  if not os.path.exists(path):
    return []
  with open(path) as f:
    k = json.load(f)
  return [e for e in k.get("open", []) if e["property"] == pid]


def known_for(bucket, known):
  for e in known:
    if fnmatch.fnmatchcase(bucket, e["bucket"]):
      return e
  return None


# ------------------------------------------------------------------------------------------------ main

class Ctx:
  def __init__(self, mod, tier, seed):
    self.mod = mod
    self.pid = mod.ID
    self.tier = tier
    self.seed = seed
    self.ti = 0 if tier == "quick" else 1
    self.acc = Acc()
    self.parts = {}
    self.violations = []     # (bucket, replay path)
    self.known = load_known(self.pid)
    self.known_seen = Counter()
    self.excluded = 0
    self.exhaustive = None
    self.extra = {}
    # total time allowed for minimising failing cases in this run (a failing run must not become a slow run)
    self.shrink_left = 0 if os.environ.get("VT_NO_SHRINK") else (60 if self.ti == 0 else 900)

  def run_part(self, part):
    modname = self.mod.__name__
    t0 = time.time()
    acc = Acc()
    if part.strategy is not None:
      total = part.n[self.ti]
      shards = part.shards or NCPU
      shards = max(1, min(shards, total // 20 or 1))
      per = -(-total // shards)
      jobs = [(modname, part.name, self.tier, self.seed * 1000 + i, per, part.budget[self.ti]) for i in range(shards)]
      worker = _hyp_shard
    else:
      chunks = part.chunks(self.tier, self.seed)
      jobs = [(modname, part.name, self.tier, c) for c in chunks]
      worker = _enum_shard
      if not jobs:
        return               # a part that does not run in this tier
    if len(jobs) == 1:
      results = [worker(jobs[0])]
    else:
      with multiprocessing.get_context("fork").Pool(min(NCPU, len(jobs))) as pool:
        results = pool.map(worker, jobs, chunksize=1)
    for status, r in results:
      if status != "ok":
        raise HarnessError("part %s: %s" % (part.name, r))
      acc.merge(r)
    for l in part.required_labels:
      if acc.labels.get(l, 0) == 0:
        raise HarnessError("part %s: required class %r was never generated (%d cases)" % (part.name, l, acc.evaluations))
    # failures
    for bucket, (count, _size, cj, detail) in sorted(acc.fails.items()):
      k = known_for(bucket, self.known)
      if k is not None:
        self.known_seen[k["bucket"]] += count
        self.excluded += count
        continue
      case = codec.loads(cj)
      t_s = time.time()
      budget = min(self.shrink_left, 20 if self.ti == 0 else 240)
      if budget < 2:
        pass
      elif part.shrinker is not None:
        case = _greedy(part, case, bucket, budget)
        r = run_check(part.check, case)
        detail = next((d for b, d in r.fails if b == bucket), detail)
      elif part.strategy is not None:
        small = _shrink(modname, part.name, self.tier, self.seed * 1000, bucket, 400 if self.ti == 0 else 3000, budget)
        if small is not None and len(codec.dumps(small)) <= len(cj):
          case = small
          r = run_check(part.check, case)
          detail = next((d for b, d in r.fails if b == bucket), detail)
      self.shrink_left -= time.time() - t_s
      path = write_replay(self.pid, part.name, bucket, case, detail)
      self.violations.append((bucket, path, count, detail))
    self.parts[part.name] = {"evaluations": acc.evaluations, "distinct_nontrivial": len(acc.nt) + acc.nt_counted,
                             "wall_s": round(time.time() - t0, 2), "stopped_early": acc.stopped_early,
                             "jobs": len(jobs)}
    if part.exhaustive[self.ti]:
      self.exhaustive = True if self.exhaustive is None else self.exhaustive
    else:
      self.exhaustive = False
    self.acc.merge(acc)
    return acc


def safe_name(s):
  return "".join(c if c.isalnum() or c in "-_." else "_" for c in s)[:80]


def write_replay(pid, partname, bucket, case, detail):
  d = os.environ.get("VT_REPLAY_DIR") or os.path.join(HOME, "replays", "new")
  os.makedirs(d, exist_ok=True)
  path = os.path.join(d, "%s-%s-%s.json" % (pid, safe_name(bucket), codec.chash(case)[:8]))
  with open(path, "w") as f:
    json.dump({"property": pid, "part": partname, "bucket": bucket, "detail": detail, "case": codec.enc(case)}, f,
              indent=1, sort_keys=True)
  return os.path.relpath(path, HOME) if path.startswith(HOME + os.sep) else path


def do_replay(mod, path):
  with open(path) as f:
    rp = json.load(f)
  part = mod.PARTS[rp["part"]]
  case = codec.dec(rp["case"])
  if part.decode is not None:
    case = part.decode(case)
  res = run_check(part.check, case)
  return rp, res


def write_evidence(ctx, wall, violations):
  mod = ctx.mod
  acc = ctx.acc
  cov = {
    "evaluations": acc.evaluations,
    "distinct_nontrivial": len(acc.nt) + acc.nt_counted,
    "rule": mod.RULE,
    "samples": acc.samples[:5],
    "labels": dict(sorted(acc.labels.items())),
    "parts": ctx.parts,
    "buckets_seen": {b: v[0] for b, v in sorted(acc.fails.items())},
    "excluded_by_known_findings": ctx.excluded,
    "known_findings_seen": dict(ctx.known_seen),
    "stopped_early": acc.stopped_early,
    "exhaustive": bool(ctx.exhaustive),
  }
  cov.update(ctx.extra)
  ev = {
    "property_id": ctx.pid, "tier": ctx.tier, "seed": ctx.seed, "level": getattr(mod, "LEVEL", "exploration"),
    "coverage": cov, "assumptions": list(getattr(mod, "ASSUMPTIONS", [])), "wall_s": round(wall, 2),
    "violations": violations,
  }
  evdir = os.environ.get("VT_EVIDENCE_DIR") or os.path.join(HOME, "evidence")
  os.makedirs(evdir, exist_ok=True)
  with open(os.path.join(evdir, ctx.pid + ".json"), "w") as f:
    json.dump(ev, f, indent=1, sort_keys=True)
    f.write("\n")


def main(argv=None):
  ap = argparse.ArgumentParser()
  ap.add_argument("id")
  ap.add_argument("--tier", default=os.environ.get("VERIF_TIER") or "quick", choices=["quick", "thorough"])
  ap.add_argument("--replay")
  ap.add_argument("--parts", help="comma separated subset of parts (debugging)")
  args = ap.parse_args(argv)
  logging.disable(logging.CRITICAL)
  sys.setrecursionlimit(3000)
  try:
    seed = int(os.environ.get("VERIF_SEED") or "1")
  except ValueError:
    seed = 1
  pid = args.id.upper()
  try:
    mod = importlib.import_module("vt.props." + pid.lower())
  except Exception:  # pylint: disable=broad-except
    traceback.print_exc()
    print("HARNESS-ERROR property=%s cannot import check module" % pid)
    return 2

  if args.replay:
    try:
      rp, res = do_replay(mod, args.replay)
    except HarnessError as e:
      print("HARNESS-ERROR property=%s %s" % (pid, e))
      return 2
    hit = [b for b, _ in res.fails]
    for b, d in res.fails:
      print("FAIL bucket=%s %s" % (b, d))
    if hit:
      print("VIOLATION property=%s replay=%s" % (pid, args.replay))
      return 1
    print("replay passes: property=%s bucket=%s no longer fails" % (pid, rp.get("bucket")))
    return 0

  t0 = time.time()
  ctx = Ctx(mod, args.tier, seed)
  try:
    if hasattr(mod, "selftest"):
      mod.selftest()
    # regression tier: committed replays of this property run first
    rdir = os.path.join(HOME, "replays")
    known_replay_state = {}
    for fn in sorted(os.listdir(rdir)) if os.path.isdir(rdir) else []:
      if not (fn.startswith(pid + "-") and fn.endswith(".json")):
        continue
      rp, res = do_replay(mod, os.path.join(rdir, fn))
      ctx.acc.labels["regression-replays"] += 1
      for b, d in res.fails:
        k = known_for(b, ctx.known)
        if k is not None:
          known_replay_state[k["bucket"]] = True
          ctx.known_seen[k["bucket"]] += 1
        else:
          ctx.violations.append((b, os.path.join("replays", fn), 1, d))
    names = args.parts.split(",") if args.parts else list(mod.PARTS)
    for name in names:
      ctx.run_part(mod.PARTS[name])
    if hasattr(mod, "finish"):
      mod.finish(ctx)
  except HarnessError as e:
    print("HARNESS-ERROR property=%s %s" % (pid, e))
    return 2
  except Exception:  # pylint: disable=broad-except
    traceback.print_exc()
    print("HARNESS-ERROR property=%s unexpected exception in runner" % pid)
    return 2

  wall = time.time() - t0
  for e in ctx.known:
    if ctx.known_seen.get(e["bucket"]):
      print("KNOWN-FINDING: property=%s %s [bucket %s, %d cases]" % (pid, e["what"], e["bucket"], ctx.known_seen[e["bucket"]]))
  seen = set()
  nviol = 0
  for bucket, path, count, detail in ctx.violations:
    if bucket in seen:
      continue
    seen.add(bucket)
    nviol += 1
    print("FAIL bucket=%s cases=%d %s" % (bucket, count, detail.replace("\n", " ")[:400]))
    print("VIOLATION property=%s replay=%s" % (pid, path))
  write_evidence(ctx, wall, nviol)
  print("%s tier=%s seed=%d evaluations=%d distinct_nontrivial=%d excluded_known=%d wall=%.1fs%s" % (
    pid, args.tier, seed, ctx.acc.evaluations, len(ctx.acc.nt) + ctx.acc.nt_counted, ctx.excluded, wall,
    " (stopped early: time budget)" if ctx.acc.stopped_early else ""))
  return 1 if nviol else 0


if __name__ == "__main__":
  sys.exit(main())
