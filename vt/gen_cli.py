"""Command-line cases for C19: inputs, documented configuration table, command builder, in-process / subprocess CLI runners
and the harness's own library composition (the oracle).

A *command* is plain data (survives vt.codec):
  {"argv":   [...]          argv template for ttconv.tt.main; "{D}" at the start of an element stands for the scratch directory
   "files":  {rel: bytes}   files to create under the scratch directory before the run (input document, configuration file)
   "out":    rel | None     path of the output file named by -o
   "expect": {"outcome": "convert", "reader": fmt, "writer": fmt, "input": rel, "filters": [...], "config": dict | None}
             | {"outcome": "error", "why": ...}
   "spec":   {...}          the structured choices argv/files/expect were built from (used for labels and shrinking only)}
Any other source of (format, bytes) inputs can be plugged in: pass `inputs=[{"format", "name", "bytes"}, ...]` to the generators.
"""
from __future__ import annotations   # ModuleConfiguration.validate expects string annotations, as in ttconv's own configurations

import base64
import contextlib
import io
import json
import logging
import os
import subprocess
import xml.etree.ElementTree as et
import zlib
from dataclasses import dataclass
from pathlib import Path

import ttconv.imsc.reader as imsc_reader
import ttconv.imsc.writer as imsc_writer
import ttconv.scc.reader as scc_reader
import ttconv.srt.reader as srt_reader
import ttconv.srt.writer as srt_writer
import ttconv.stl.reader as stl_reader
import ttconv.vtt.reader as vtt_reader
import ttconv.vtt.writer as vtt_writer
import ttconv.model as model
from ttconv.config import GeneralConfiguration, ModuleConfiguration
from ttconv.filters.document_filter import DocumentFilter
from ttconv.imsc.config import IMSCWriterConfiguration
from ttconv.scc.config import SccReaderConfiguration
from ttconv.srt.config import SRTWriterConfiguration
from ttconv.stl.config import STLReaderConfiguration
from ttconv.vtt.config import VTTWriterConfiguration

REPO = os.environ.get("VT_REPO", "/repo")
PY = "/venv/bin/python"

IN_FORMATS = ("ttml", "scc", "stl", "srt", "vtt")
OUT_FORMATS = ("ttml", "srt", "vtt")

# ------------------------------------------------------------------------------------------------ inputs

# (format, path under /repo/src/test/resources, sha256[:12], base64(zlib(bytes)))
_RESOURCES = [
  ('scc', 'scc/pop-on.scc', '1991bb55785a',
   'eNqFkEtuAjEMhtfDKXyCynac55YjILFFmSGRuumi5f7CwcOIVgU2n/yI/9/OYWlf9fvz53I67PdwpA/c7ZAKcvGukExZaoMVjHfE'
   'uiJWNtSkjZBah86hAWNI0LpGYW4ZQgtRa5yHwGJImNCgab9hs/ZmvT61siscC+cnG3U2LEk8nLNOMnqxNNOMIN4m3rgTFadmND2K'
   'e14RKxm8NA/RdVGboUGONRIHgSJCF735dr11t+1eCIztBvrWyDTMB/5Tjs52Xzb8ucL9/sMrA05rpg=='
  ),
  ('scc', 'scc/paint-on.scc', '8d20c4157342',
   'eNptkDFuxEAIRevsKTjBimEY2HG7R1gp7Soa21KaFEnur3yMbSVSGmQL5vE+j7F8vH2+f30/H/c7vZYrXy7ME8vU6lT0pat02sss'
   'WXTYSi7WyGZhsu5MXv34VXQtRyQa1sk1GsVmsuZKMm4M1CpZrMaLxSu6VjEMsit4GwDPNHeg1BjuGDYn4TAYiV9ObZuY/9Vu+/yI'
   'Ncu+pnohb/gCLbiwgyKc9MwzrJxbUUqGWndUhzHENCjhCbIsN/6lI+2PzpFa+yFhbkfWEVvrRkPWLWHeLmKae0sdNMIpTUoA4giu'
   'eaLY/wPH5WL1'
  ),
  ('scc', 'scc/mix-rows-roll-up.scc', 'bfe7c4623557',
   'eNqNVEuOHSEMXGdOwQkiMAaasJwjjJRt1G1AyiaLJPdXyvR3RlGI9GRBP7uqXBjepP1Yf37/9fvb2+ur+eo+25cXa7+MXyH6lJmC'
   'OcJaz5DsHnzzDYGskYWzWdtyl1MhPynnvCYjVcs3DqZGYIiisa8BK2lIQZCkKU5XPFaBLxouLk1pUAlwMPjAhnsgs6bqDVmhA3cD'
   'bkhIGd84sKBs16TfhrBHc7FYnrDCkWBYqn30ANgF4NqhcEeb4rDSlpomZ4Edi/KrRAAgpQtD9oM6F3Iz6suq7Na2B4BXU21Q8Bof'
   'mrI7wzt1+XRMt52jGqNiWU4lzhU7s/6wFF5zAPWAfE6JozlGdpsG7zTQCFe5n5fDDHjpYaOEZaD1q5z/g53oCqvTQBrShZGKHecR'
   'zRH+5sIwVr1Xd2vGwdaA2Q902gPvnU48Pye+IS8kuh1fissTrn2wumwPIJx4AMN9xLsSATXuAybO4Q/IGYctTmdf7jMiW2ycdXiP'
   'jh8jFjDJvLYLwxXiCcZ4TMZV26UmyBqKsqW6B0nnlcC27WH0wF2V031X717vRjwX0uNGpze1uNhMVMJOLZjkO5vWO5k2usmtm56i'
   'w4OR9MFoYuJRofb1hK1WhH4NpY/F0T9oUsumSUSR6Cq291eCMZTLx/LDG0xyy3H7qI30CUm6TdCBPEhtPQVtye/JoEEyLfYPsK5R'
   '1A=='
  ),
  ('stl', 'stl/sandflow/test_tcp_processing.stl', 'bc6641557495',
   'eNqzMDUIDvExMtUzMDQyMDCwVBjiICS1uETBLTMnVaGkJDk/r8zS0tDI2BBCGigYgpQYgQggy8QAKGZoAAFw2jA02FFhFIyCkQEY'
   'GRn+M0AAE4MYEwM3t29qSWJKYkmiQl5+iUJafpFCSmZxQU5ipR5XPw0AIxPQfi6g7VwMjBJg+4NLEotKFPLTFEoyUhUKivLTixJz'
   'aWM3CAAAQtD8Wg=='
  ),
  ('stl', 'stl/sandflow/br_new_colors.stl', '2c05021ac525',
   'eNqzMDUIDvExMtUzMDQyMDCwVBjiICS1uETBLTMnVaGkJDk/r8zS0tDI2BBCGigYgpTACBMDkBgaMDQMDXZUGAWjYGQARkaG/wxA'
   'wMjAwMwgxMTALMvCq8DN7ZRTmqrgn6cQmZqTk1+uoMDF1dXFIssMkoIKASVBiri4+ikCAOuRuME='
  ),
  ('stl', 'stl/sandflow/multi_tti_subtitle.stl', '25a425c2b362',
   'eNqzMDUIDvExMtUzMDQyMDCwVBjiICS1uETBLTMnVaGkJDk/r8zS0tDI2BBCGigYg5QYQgkTA5AYGjA0DA12VBgFo2BkAEZGBjAQ'
   'Z2BgEhdjYuBllmXh5nbLz1fopwsA2s8Et1+EicEpsYhONsPt/4/sf6fEKnpa3w8AdiZAtg=='
  ),
  ('stl', 'stl/irt/requirement-0091-001.stl', 'c6f4b25f75d1',
   'eNqzMDUIDvExMtUzMDQ0MDCwVBjiILikKDMvXSEnNS+9JEPB0MzS0tDI2BBCGigYgpTACBMDkBgaMDR0dHRUGAWjYGQARkaG/wwQ'
   'wMTAyMTALsvA7ZhTkJHolJOYnK2Qn6eQBGIwyDKgiiJ4XP2UAAAUN7sk'
  ),
  ('ttml', 'ttml/referential_styling.ttml', '0f72f57a96f9',
   'eNqlUr1ugzAQ3vMU1nUuV5IMVWTIUKlzh/YBCFwpqrGRuYTw9nVMxF9TMpQJn78/f7bcn0slTmTrwugIwuAJBOnUZIXOI/h4f318'
   'hn28kszCAXcquYxJw0q4z010HcEXc7VDbJomaDaBsTnqGplLBWKA7ZiXoA81t8p5woRRLTGqxCYlMdmrzQWYGs2k+c2az0LRkiFW'
   'HQaLsk7DIESmM0PsleQXJVn365fXbMOkn5JvpcgiqENwCWqXQBkbgaWsWx+S9Du35qizl27noI4EuKy1nmi1pJRpQHiQd7pD3wzY'
   'tbgP307cckvufnuBzZgt8VcVUiWtOfLMwVLu3lNvYcORoJhV5Qu53dX15HhHfT3uZn4LU+7o/P+KgF2GcTXjIiQOT0geTNaOgFlx'
   '6uNuIZZVbDRJrGKJbusP4I3WXFLP5sbM2BI7S+leevwD73IoLA=='
  ),
  ('ttml', 'ttml/body_only.ttml', '25c24f48bf20',
   'eNp9UkFuwjAQvPMKyxU3GhMQFYoSEK2EOFalfYBxlsSqY0f2QuD33SSoKaqET/Hs7MzuOOn6Uhl2Bh+0sxmPoylnYJXLtS0y/vW5'
   'fV7y9WqUIjIiJka2MFg+YnQIsSHjJWKdCNE0TdTMI+cLYYNArAxnAy1BfER9Cng15MnvOupHHbX0sgIEf7NpicpZBIvv3h21gUeG'
   'ou45QldBxVEsEC7IByEw5gOCMyfsgpkvWTzjq66eliDz/rO7Gnl1JxyADvRQUGMXms4z7mNOuiE50oBbWWlzzfjGa2kmOzBnQK3k'
   'hCaqnW/9pNlLG/bg9ZHfybYSoXTNq1TfhXcnS9JNCXajUJ+ht3BeF5pGflmM2Xwx7kFajnKhPaYETsf/VZUzzrdiGm86h1+Pt752'
   'MIT0tTasjdEF2SjSbd+ghXMdakrjviL+RCX+ZpWKIcj04PIr60Mb0qI/Anagi5Imn9EqJJXS661+AMc023s='
  ),
  ('ttml', 'ttml/lwsp_default.ttml', '7de6a049deed',
   'eNp9kj1uhDAQhXtOYTl1mKA0ETJst12kFMkBDDjgyD/Inl2W28cYFGCzwhXzeN+88QA73bQiV+G8tKagWfpCiTC1baRpC/r1eX5+'
   'o6cyYYgkGHPFJ1kYmpBwgmJ8QTvEPgcYhiEdXlPrWjAeELWiZLXliEfWJ4+jCpl0R/RHRM8d1wKFW2ImY20NCoMfzn5LJY4CoZ89'
   'ILWvszQDFDekZezEOsGb+TGWio/2gqsQRSfasLK4FdkU1GUUNghsGQZrQ1bZZiQzHKkN1MjrXUi/r6fTCaUsYb7nptQjMWEHDGKV'
   'SE/eOXZSNTzSUSXL23W0TdP7gMqaH3txC6nD/YzVyX6mud1s+TfdQ2vloBQek8cjwN+1GUzLCX9b+ELlL7sotxA='
  ),
  ('vtt', 'vtt/alignment.vtt', '964dd9852862',
   'eNp90c1OAjEUBeD9PEU3LiG9d34ZEhcmvgHR9chUaFJaUxsXPr0HKOSilWQ2c5p+6bn39fnpZbOpKq3H40dLrVktFo8qBzWCRk3O'
   '7vzozHtSznozkn6o9iHa7+DT5NTxYK2+TEx2i98UPq5gg/utBDsEfQY/0xSz2N6KpxNBHuw8O3NVeyCDVFdLTTqrW+OTiVI7J4J7'
   'CymFw4UjjdskOGIEdbHq+SHlsoRhUSOdFkFXLPjHuW1IGBP1khoQrO4Kv0phJKyFwNgtc55RtLt9eZenk3I/xli4liS2y20mjZ+L'
   'TZH/W5MxIO6kiM3yIB95722Xxj9tu87e'
  ),
  ('vtt', 'vtt/position.vtt', '7ae27833b6b8',
   'eNoLd3UKCwnh4jIwsAIhQz0DAwMFXV07BaiAEVigIL84syQzP8/K3FRVoTizKtXKyFSVq8DcVKHYyBSu2QhdszGGZp2czLxU3ZzU'
   'tBIUY3RyUAwyRjfIBCxQllpUkpmcmGNVlEOki0zQDTLFaxAB1wEAvkxNeQ=='
  ),
  ('vtt', 'vtt/style.vtt', '869c52770629',
   'eNoLd3UKCwnh4goOifRx5bKySi5NVajmUlBISkzOTi/KL81L0U3Oz8kvslIoKUrMKy5ILErNK7HmqoUo1dCrTM3JyS/XBOuBKlRO'
   'AwIDg7Q0JGVJ6fFJOUAjNXEYrmwABhA9XIZcBoZWBgZApGdgYqCgq2unABUw1gOq4rJJhtprB2TBjFawC8nILLbRT7YDYS6IDFRZ'
   'ZjGUX5SaYleUX65gaAEAz5lKpw=='
  ),
]


_SRT_1 = """1
00:00:01,000 --> 00:00:02,500
<i>Hello</i> <b>world</b>

2
00:00:03,000 --> 00:00:04,000
<font color="#ff0000">red</font> plain
second line

3
00:01:00,250 --> 00:01:01,000
<u>under</u>{\\an8}
"""

_SRT_2 = """1
00:00:00,000 --> 00:00:01,000
Ça va ? – ñ 日本語

2
01:00:00,000 --> 01:00:02,040
<b><i>both</i></b>
"""

_VTT_1 = """WEBVTT

id1
00:00:00.500 --> 00:00:02.000 align:left line:0
<i>left</i> top

00:00:02.500 --> 00:00:04.000 align:right
<b>right</b> &amp; <u>under</u>
two lines

NOTE a comment

last
00:01:00.000 --> 00:01:01.500 line:50%
<c.yellow>middle</c>
"""

_TTML_1 = """<?xml version="1.0" encoding="UTF-8"?>
<tt xml:lang="en" xmlns="http://www.w3.org/ns/ttml" xmlns:tts="http://www.w3.org/ns/ttml#styling"
    xmlns:ttp="http://www.w3.org/ns/ttml#parameter" ttp:frameRate="25">
 <head>
  <layout>
   <region xml:id="top" tts:origin="10% 10%" tts:extent="80% 20%" tts:textAlign="end" tts:color="yellow"/>
   <region xml:id="bottom" tts:origin="10% 70%" tts:extent="80% 20%" tts:displayAlign="after" tts:backgroundColor="#00000080"/>
  </layout>
 </head>
 <body>
  <div>
   <p region="top" begin="1s" end="3s"><span tts:fontStyle="italic">Top</span> line</p>
   <p region="bottom" begin="2s" end="4s" tts:textAlign="start">Bottom <span tts:fontWeight="bold" tts:color="#ff0000">bold red</span><br/>second</p>
   <p region="bottom" begin="00:00:05:10" end="6s" xml:lang="fr">Ça<set begin="0.5s" tts:color="lime"/></p>
  </div>
 </body>
</tt>
"""

_TTML_2 = """<tt xml:lang="" xmlns="http://www.w3.org/ns/ttml" xmlns:tts="http://www.w3.org/ns/ttml#styling">
 <body><div><p begin="10s" dur="2s" tts:textDecoration="underline" tts:textAlign="center">no regions<br/>no language</p>
 <p begin="13s" end="15s"><span tts:color="#00ff00" tts:fontStyle="italic">green</span></p></div></body>
</tt>
"""

# pop-on caption "Hello" on row 15 (odd parity bytes), erased two seconds later
_SCC_1 = "Scenarist_SCC V1.0\n\n00:00:01:00\t9420 9420 9470 9470 c8e5 ecec ef80 942f 942f\n\n00:00:03:00\t942c 942c\n"


def _load_inputs():
  out = []
  for fmt, path, _sha, *chunks in _RESOURCES:
    out.append({"format": fmt, "name": "repo:" + path, "bytes": zlib.decompress(base64.b64decode("".join(chunks)))})
  for fmt, name, text in (("srt", "hand:srt-tags", _SRT_1), ("srt", "hand:srt-unicode", _SRT_2), ("vtt", "hand:vtt-settings", _VTT_1),
                          ("ttml", "hand:ttml-regions", _TTML_1), ("ttml", "hand:ttml-nolang", _TTML_2), ("scc", "hand:scc-pop-on", _SCC_1)):
    out.append({"format": fmt, "name": name, "bytes": text.encode("utf-8")})
  return out


INPUTS = _load_inputs()


def inputs_of(fmt, inputs=None):
  return [i for i in (inputs or INPUTS) if i["format"] == fmt]


# ------------------------------------------------------------------------------------------------ harness filters
# Two document filters defined by the harness through the library's extension point (a DocumentFilter subclass registers itself under
# its configuration's name()).  They do not commute and vt_append is not idempotent, so the order and the number of applications of
# --filter options is observable in every output format.  Only available in-process.

def _walk_text(element, fn):
  for child in list(element):
    if isinstance(child, model.Text):
      child.set_text(fn(child.get_text()))
    else:
      _walk_text(child, fn)


@dataclass
class VtAppendConfig(ModuleConfiguration):
  tag: str = "x"

  @classmethod
  def name(cls):
    return "vt_append"


class VtAppendFilter(DocumentFilter):
  @classmethod
  def get_config_class(cls):
    return VtAppendConfig

  def process(self, doc):
    if doc.get_body() is not None:
      _walk_text(doc.get_body(), lambda s: s + self.config.tag)


@dataclass
class VtUpperConfig(ModuleConfiguration):
  enabled: bool = True

  @classmethod
  def name(cls):
    return "vt_upper"


class VtUpperFilter(DocumentFilter):
  @classmethod
  def get_config_class(cls):
    return VtUpperConfig

  def process(self, doc):
    if doc.get_body() is not None and self.config.enabled:
      _walk_text(doc.get_body(), lambda s: s.upper())


HARNESS_FILTERS = ("vt_append", "vt_upper")


def registered_filter(name):
  """the filter class whose configuration class has exactly this name - read from the classes themselves, not from ttconv's own
  registry look-up, so that a look-up that finds more (or less) than the registered names differs from the oracle (seeded change C19-20)"""
  todo = list(DocumentFilter.__subclasses__())
  found = None
  while todo:
    c = todo.pop()
    todo.extend(c.__subclasses__())
    try:
      if c.get_config_class().name() == name:
        found = c if found is None or found is c else found
    except NotImplementedError:
      pass
  return found
FILTER_LISTS = ([], ["lcd"], ["lcd", "lcd"], ["vt_append", "vt_upper"], ["vt_upper", "vt_append"], ["vt_append", "vt_append"],
                ["lcd", "vt_append"], ["vt_upper", "lcd"], ["vt_append", "lcd", "vt_upper"],
                # a name that names no registered filter contributes nothing (tt.py logs it); the filters named after it still apply
                ["vt_nosuch", "lcd"], ["vt_upper", "vt_nosuch", "vt_append"],
                # names are exact: a case variant of a registered name names no filter
                ["LCD"], ["vt_upper", "Lcd"])
SUBPROCESS_FILTER_LISTS = ([], ["lcd"], ["lcd", "lcd"], ["vt_nosuch", "lcd"], ["LCD"])

# ------------------------------------------------------------------------------------------------ documented configuration values
# Transcribed from /repo/README.md, sections "General configuration" ... "LCD filter configuration".  One entry per documented key:
#   used:    the pipeline stage that has to be active for the key to be parsed at all ("any", "reader:<fmt>", "writer:<fmt>", "filter:lcd")
#   valid:   values the README documents (its enumerations, JSON booleans, its examples and defaults)
#   invalid: (class, value) values outside the documented set: "bool" non-boolean for a boolean key, "enum" unknown enumeration
#            string, "type" wrong JSON type, "range" integer outside the documented range, "syntax" string not of the documented form
_BOOL_VALID = [True, False]
_BOOL_INVALID = [("bool", "false"), ("bool", "true"), ("bool", 0), ("bool", 1), ("bool", "x"), ("bool", None)]
_COLORS = ["#FFFFFF", "white", "#FF0000", "transparent", "black", "red", "#00ff0080"]
_COLOR_INVALID = [("type", 5), ("type", True), ("type", 0), ("type", False), ("type", []), ("syntax", ""), ("syntax", "notacolor"), ("syntax", "#12"), ("range", "rgb(300,0,0)"), ("range", "rgba(0,0,0,999)")]

DOC = {
  "general": {
    "progress_bar": {"used": "any", "valid": _BOOL_VALID, "invalid": _BOOL_INVALID, "default": True},
    "log_level": {"used": "any", "valid": ["INFO", "WARN", "ERROR"], "invalid": [("enum", "LOUD"), ("enum", "info "), ("type", 5), ("type", True)],
                  "default": "INFO"},
    "document_lang": {"used": "any", "valid": ["es-419", "en", "fr-CA", "de", ""], "invalid": [("type", 5), ("type", True), ("type", ["en"])],
                      "default": None},
  },
  "imsc_writer": {
    "time_format": {"used": "writer:ttml", "valid": ["frames", "clock_time", "clock_time_with_frames"],
                    "invalid": [("enum", "smpte"), ("enum", "FRAMES"), ("type", 5), ("type", True)], "default": None},
    "fps": {"used": "writer:ttml", "valid": ["25/1", "30/1", "24/1", "30000/1001", "50/1"],
            "invalid": [("syntax", "25"), ("syntax", "a/b"), ("syntax", "25/0"), ("syntax", "25/1/1"), ("type", 25), ("type", True),
                        ("range", "0/1"), ("range", "1/3"), ("range", "-25/1"), ("range", "1/2"), ("syntax", " 25/1"), ("syntax", "+25/1"),
                        ("syntax", "2_5/1")], "default": None},
  },
  "stl_reader": {
    "disable_fill_line_gap": {"used": "reader:stl", "valid": _BOOL_VALID, "invalid": _BOOL_INVALID, "default": False},
    "disable_line_padding": {"used": "reader:stl", "valid": _BOOL_VALID, "invalid": _BOOL_INVALID, "default": False},
    "program_start_tc": {"used": "reader:stl", "valid": ["TCP", "00:00:00:00", "00:00:01:00", "10:00:00:00"],
                         "invalid": [("syntax", "banana"), ("syntax", "10:00:00"), ("type", 5), ("type", True), ("syntax", "10:00:00:00xyz")],
                         "default": "00:00:00:00"},
    "font_stack": {"used": "reader:stl", "valid": ["Verdana, Arial, Tiresias, sansSerif", "monospace", "Arial, proportionalSansSerif"],
                   "invalid": [("type", 5), ("type", True), ("type", ["Arial"])], "default": "Verdana, Arial, Tiresias, sansSerif"},
    "max_row_count": {"used": "reader:stl", "valid": ["MNR", 23, 11, 99], "invalid": [("syntax", "abc"), ("type", [23]), ("type", 1.5), ("range", 0), ("range", -1)],
                      "default": 23},
  },
  "srt_writer": {
    "text_formatting": {"used": "writer:srt", "valid": _BOOL_VALID, "invalid": _BOOL_INVALID, "default": True},
  },
  "vtt_writer": {
    "line_position": {"used": "writer:vtt", "valid": _BOOL_VALID, "invalid": _BOOL_INVALID, "default": False},
    "text_align": {"used": "writer:vtt", "valid": _BOOL_VALID, "invalid": _BOOL_INVALID, "default": False},
    "cue_id": {"used": "writer:vtt", "valid": _BOOL_VALID, "invalid": _BOOL_INVALID, "default": True},
  },
  # the README section "SCC Reader configuration" does not print the JSON property name; "scc_reader" is SccReaderConfiguration.name()
  "scc_reader": {
    "text_align": {"used": "reader:scc", "valid": ["auto", "left", "center", "right"],
                   "invalid": [("enum", "justify"), ("enum", ""), ("type", 5), ("type", True)], "default": "auto"},
  },
  "lcd": {
    "safe_area": {"used": "filter:lcd", "valid": [0, 10, 30, 5, 29],
                  "invalid": [("range", -1), ("range", 31), ("range", 100), ("type", "x"), ("type", [10]), ("type", 10.5), ("type", "10"),
                              ("type", True)], "default": 10},
    "color": {"used": "filter:lcd", "valid": _COLORS + [None], "invalid": _COLOR_INVALID, "default": None},
    "bg_color": {"used": "filter:lcd", "valid": _COLORS, "invalid": _COLOR_INVALID, "default": None},
    "preserve_text_align": {"used": "filter:lcd", "valid": _BOOL_VALID, "invalid": _BOOL_INVALID, "default": False},
  },
}

# library parser of each documented module (tt.py's contract: "each property specifies configuration parameters for readers, writers
# and filters"); the LCD configuration class is reached through the filter registry, as a caller of the library would
CONFIG_CLASSES = {
  "general": GeneralConfiguration, "imsc_writer": IMSCWriterConfiguration, "stl_reader": STLReaderConfiguration,
  "srt_writer": SRTWriterConfiguration, "vtt_writer": VTTWriterConfiguration, "scc_reader": SccReaderConfiguration,
}


def stage_active(used, reader, writer, filters):
  if used == "any":
    return True
  kind, what = used.split(":")
  return {"reader": reader == what, "writer": writer == what, "filter": what in filters}[kind]


# ------------------------------------------------------------------------------------------------ choosers
# Generators are written against this small interface so the same code runs under Hypothesis (draw) and under a seeded random.Random.

class RngChooser:
  def __init__(self, rng):
    self.rng = rng

  def choice(self, seq):
    return seq[self.rng.randrange(len(seq))]

  def integer(self, lo, hi):
    return self.rng.randint(lo, hi)

  def boolean(self, p=0.5):
    return self.rng.random() < p

  def shuffled(self, seq):
    seq = list(seq)
    self.rng.shuffle(seq)
    return seq


class HypChooser:
  def __init__(self, draw):
    from hypothesis import strategies as st
    self.draw, self.st = draw, st

  def choice(self, seq):
    return self.draw(self.st.sampled_from(list(seq)))

  def integer(self, lo, hi):
    return self.draw(self.st.integers(lo, hi))

  def boolean(self, p=0.5):
    return self.draw(self.st.integers(0, 99)) < int(p * 100)

  def shuffled(self, seq):
    return list(self.draw(self.st.permutations(list(seq))))


# ------------------------------------------------------------------------------------------------ command generator

def case_variant(ch, s):
  k = ch.integer(0, 4)
  if k <= 1:
    return s.lower()
  if k == 2:
    return s.upper()
  if k == 3:
    return s.title()
  return "".join(c.upper() if i % 2 else c.lower() for i, c in enumerate(s))


_DIRS = ("", "", "sub.dir/", "a.b.c/", ".hidden/")
_STEMS = ("in", "in.v2", "my.file.name", "IN")


def gen_typing(ch, fmt, stem_pool, other_exts):
  """(relative path, --Xtype value or None, label): how the type `fmt` is communicated to the command line"""
  mode = ch.choice(["ext", "ext", "ext", "type", "type", "type+wrongext", "type+noext"])
  d, stem = ch.choice(_DIRS), ch.choice(stem_pool)
  if mode == "ext":
    return d + stem + "." + case_variant(ch, fmt), None, "by-ext"
  typ = case_variant(ch, fmt)
  if mode == "type":
    return d + stem + "." + case_variant(ch, fmt), typ, "by-type"
  if mode == "type+wrongext":
    return d + stem + "." + ch.choice(other_exts), typ, "by-type-over-ext"
  return d + stem.replace(".", "_"), typ, "by-type-noext"


def gen_config(ch, reader, writer, filters, p_module=0.6, p_key=0.6):
  """configuration JSON over the documented keys with documented valid values (None = no configuration at all)"""
  if ch.boolean(0.12):
    return None
  cfg = {}
  for module, keys in DOC.items():
    relevant = any(stage_active(k["used"], reader, writer, filters) for k in keys.values())
    if not ch.boolean(p_module if relevant else 0.15):
      continue
    m = {}
    for key, d in keys.items():
      if ch.boolean(p_key):
        m[key] = ch.choice(d["valid"])
    if module == "imsc_writer":
      # README: fps is "Required when time_format is frames or clock_time_with_frames"
      if m.get("time_format") in ("frames", "clock_time_with_frames") and "fps" not in m:
        m["fps"] = ch.choice(DOC["imsc_writer"]["fps"]["valid"])
      # HH:MM:SS:FF with a non-integer rate is refused by the writer itself (the README's example pairs it with "25/1"): keep it rare
      if m.get("time_format") == "clock_time_with_frames" and m["fps"] == "30000/1001" and ch.boolean(0.8):
        m["fps"] = "25/1"
    cfg[module] = m
  if "vt_append" in filters and ch.boolean(0.6):
    cfg["vt_append"] = {"tag": ch.choice(["q", "zz", " k"])}
  if "vt_upper" in filters and ch.boolean(0.3):
    cfg["vt_upper"] = {"enabled": ch.boolean(0.7)}
  return cfg


def vary_config(ch, cfg):
  """a configuration with the same modules and keys as cfg and, wherever the documented set allows, different values"""
  out = {}
  for module, m in cfg.items():
    o = {}
    for key, v in m.items():
      if module in DOC:
        alts = [x for x in DOC[module][key]["valid"] if x != v]
      elif module == "vt_append":
        alts = [x for x in ["q", "zz", " k", "w"] if x != v]
      else:
        alts = [not v]
      o[key] = ch.choice(alts) if alts else v
    if module == "imsc_writer" and o.get("time_format") in ("frames", "clock_time_with_frames") and "fps" not in o:
      o["time_format"] = "clock_time"
    out[module] = o
  return out


def gen_spec(ch, inputs=None, filter_lists=FILTER_LISTS, p_mismatch=0.06):
  inputs = inputs or INPUTS
  inp = ch.choice(inputs)
  reader = inp["format"]
  if ch.boolean(p_mismatch):
    reader = ch.choice([f for f in IN_FORMATS if f != inp["format"]])     # content of one format read by another reader
  writer = ch.choice(OUT_FORMATS)
  in_path, itype, in_how = gen_typing(ch, reader, _STEMS, [f for f in IN_FORMATS if f != reader] + ["txt", "xml", "SRT", "Ttml"])
  out_path, otype, out_how = gen_typing(ch, writer, ("out", "out.v2", "result.final"),
                                        [f for f in IN_FORMATS if f != writer] + ["txt", "SCC", "Vtt"])
  if out_path == in_path:
    out_path = "o_" + out_path.replace("/", "_")
  filters = list(ch.choice(filter_lists))
  cfg = gen_config(ch, reader, writer, filters)
  mode = "none" if cfg is None else ch.choice(["inline", "inline", "file", "file", "both-same"])
  return {"input": inp, "reader": reader, "writer": writer, "in_path": in_path, "itype": itype, "out_path": out_path, "otype": otype,
          "filters": filters, "config": cfg, "config_mode": mode, "inline_config": None, "long_opts": ch.boolean(0.3),
          "order": ch.shuffled(["input", "output", "itype", "otype", "filters", "config", "config_file"]),
          "how": [in_how, out_how], "pretty_file": ch.boolean()}


def build_command(spec):
  """spec -> command (argv template, files, out, expect)"""
  files = {spec["in_path"]: spec["input"]["bytes"]}
  groups = {
    "input": ["--input" if spec["long_opts"] else "-i", "{D}/" + spec["in_path"]],
    "output": ["--output" if spec["long_opts"] else "-o", "{D}/" + spec["out_path"]],
    "itype": ["--itype", spec["itype"]] if spec["itype"] is not None else [],
    "otype": ["--otype", spec["otype"]] if spec["otype"] is not None else [],
    "filters": [x for f in spec["filters"] for x in ("--filter", f)],
    "config": [], "config_file": [],
  }
  cfg, mode = spec["config"], spec["config_mode"]
  if mode in ("inline", "both-same"):
    groups["config"] = ["--config", json.dumps(cfg)]
  if mode == "both":
    groups["config"] = ["--config", json.dumps(spec["inline_config"])]
  if mode in ("file", "both-same", "both"):
    groups["config_file"] = ["--config_file", "{D}/cfg.d/my.config.json"]
    files["cfg.d/my.config.json"] = (json.dumps(cfg, indent=2, sort_keys=True) if spec.get("pretty_file") else json.dumps(cfg)).encode("ascii")
  argv = ["convert"]
  for g in spec["order"]:
    argv += groups[g]
  expect = {"outcome": "convert", "reader": spec["reader"], "writer": spec["writer"], "input": spec["in_path"],
            "filters": list(spec["filters"]), "config": cfg if mode != "none" else None}
  return {"argv": argv, "files": files, "out": spec["out_path"], "expect": expect, "spec": spec}


def spec_simplifications(spec):
  """simpler specs, most aggressive first (greedy minimiser)"""
  def w(**kw):
    s = dict(spec)
    s.update(kw)
    return s
  cfg = spec["config"]
  if spec["filters"]:
    yield w(filters=[])
    for i in range(len(spec["filters"])):
      yield w(filters=spec["filters"][:i] + spec["filters"][i + 1:])
  if cfg:
    for module in cfg:
      yield w(config={k: v for k, v in cfg.items() if k != module},
              inline_config=None if spec["inline_config"] is None else {k: v for k, v in spec["inline_config"].items() if k != module})
    for module, m in cfg.items():
      for key in m:
        if module == "imsc_writer" and key == "fps" and m.get("time_format") in ("frames", "clock_time_with_frames"):
          continue
        c2 = dict(cfg)
        c2[module] = {k: v for k, v in m.items() if k != key}
        i2 = spec["inline_config"]
        if i2 is not None:
          i2 = dict(i2)
          i2[module] = {k: v for k, v in i2.get(module, {}).items() if k != key}
        yield w(config=c2, inline_config=i2)
  if spec["config_mode"] in ("file", "both-same"):
    yield w(config_mode="inline")
  if cfg == {} and spec["config_mode"] != "both":
    yield w(config=None, config_mode="none")
  fmt_in = spec["reader"]
  if spec["in_path"] != "in." + fmt_in or spec["itype"] is not None:
    yield w(in_path="in." + fmt_in, itype=None)
  if spec["out_path"] != "out." + spec["writer"] or spec["otype"] is not None:
    yield w(out_path="out." + spec["writer"], otype=None)
  canon_order = ["input", "output", "itype", "otype", "filters", "config", "config_file"]
  if spec["order"] != canon_order or spec["long_opts"]:
    yield w(order=canon_order, long_opts=False)
  smaller = sorted((i for i in INPUTS if i["format"] == spec["input"]["format"] and len(i["bytes"]) < len(spec["input"]["bytes"])),
                   key=lambda i: len(i["bytes"]))
  for i in smaller[:2]:
    yield w(input=i)


# ------------------------------------------------------------------------------------------------ running the CLI

def materialise(cmd, root):
  """creates the files of a command under `root`; returns the argv with the scratch directory substituted"""
  for rel, data in cmd["files"].items():
    p = os.path.join(root, rel)
    os.makedirs(os.path.dirname(p), exist_ok=True)
    with open(p, "wb") as f:
      f.write(data)
  if cmd.get("out"):
    os.makedirs(os.path.dirname(os.path.join(root, cmd["out"])), exist_ok=True)
  return [root + a[3:] if a.startswith("{D}") else a for a in cmd["argv"]]


def listing(root):
  out = set()
  for d, _dirs, fs in os.walk(root):
    for f in fs:
      out.add(os.path.relpath(os.path.join(d, f), root))
  return out


class Outcome:
  """status: "ok" (returned / exit status 0) or "error" (SystemExit with a non-zero code, or any other exception)"""
  __slots__ = ("status", "detail", "exc", "stdout", "stderr", "log")

  def __init__(self, status, detail="", exc=None, stdout="", stderr="", log=""):
    self.status, self.detail, self.exc, self.stdout, self.stderr, self.log = status, detail, exc, stdout, stderr, log


def run_inprocess(argv, live_logging=True):
  """ttconv.tt.main(argv) with stdout/stderr captured.  The state tt.py keeps on the "ttconv" logger (level, its progress handler's
  stream and display flag) is saved and restored, and the runner's global logging.disable is lifted only for the duration of the call
  (so that tt.py's own handler runs, writing into a buffer)."""
  import ttconv.tt as tt
  logger = logging.getLogger("ttconv")
  saved = (logger.level, list(logger.handlers), logger.propagate, tt.progress.display_progress_bar, tt.progress.stream,
           tt.progress.is_writing_progress_bar, tt.progress.last_progress_msg, logging.root.manager.disable)
  out, err, log = io.StringIO(), io.StringIO(), io.StringIO()
  tt.progress.setStream(log)
  if live_logging:
    logging.disable(logging.NOTSET)
  try:
    with contextlib.redirect_stdout(out), contextlib.redirect_stderr(err):
      try:
        tt.main(list(argv))
        res = Outcome("ok")
      except SystemExit as e:
        res = Outcome("ok" if e.code in (None, 0) else "error", "SystemExit(%r)" % (e.code,))
      except Exception as e:  # pylint: disable=broad-except
        res = Outcome("error", "%s: %s" % (type(e).__name__, str(e)[:200]), exc=e)
  finally:
    logging.disable(saved[7])
    logger.setLevel(saved[0])
    logger.handlers[:] = saved[1]
    logger.propagate = saved[2]
    tt.progress.display_progress_bar = saved[3]
    tt.progress.setStream(saved[4])
    tt.progress.is_writing_progress_bar, tt.progress.last_progress_msg = saved[5], saved[6]
  res.stdout, res.stderr, res.log = out.getvalue(), err.getvalue(), log.getvalue()
  return res


def subprocess_env(hashseed=None):
  env = {k: v for k, v in os.environ.items() if k not in ("PYTHONPATH", "PYTHONHASHSEED")}
  env["PYTHONPATH"] = os.path.join(os.environ.get("VT_REPO", "/repo"), "src", "main", "python")
  env["PYTHONDONTWRITEBYTECODE"] = "1"
  if hashseed is not None:
    env["PYTHONHASHSEED"] = str(hashseed)
  return env


def run_subprocess(argv, hashseed=0, timeout=120):
  """`python -m ttconv.tt argv...` in a fresh interpreter importing ttconv from $VT_REPO"""
  p = subprocess.run([PY, "-m", "ttconv.tt"] + list(argv), env=subprocess_env(hashseed), capture_output=True, timeout=timeout, check=False)
  return Outcome("ok" if p.returncode == 0 else "error", "exit status %d: %s" % (p.returncode, p.stderr[-300:].decode("utf-8", "replace")),
                 stdout=p.stdout.decode("utf-8", "replace"), stderr=p.stderr.decode("utf-8", "replace"))


# ------------------------------------------------------------------------------------------------ the library composition (oracle)

class Rejected(Exception):
  """the composition cannot produce a document: the library raised, or the reader returned no document"""


def parse_module(cfg, cls):
  """the module's own parser applied to the module's property of the configuration dictionary (None when absent)"""
  if cfg is None:
    return None
  section = cfg.get(cls.name())
  if section is None:
    return None
  return cls.parse(section)


def read_document(reader, path, cfg):
  if reader == "ttml":
    return imsc_reader.to_model(et.parse(path))
  if reader == "scc":
    return scc_reader.to_model(Path(path).read_text(), parse_module(cfg, SccReaderConfiguration))
  if reader == "stl":
    with open(path, "rb") as f:
      return stl_reader.to_model(f, parse_module(cfg, STLReaderConfiguration))
  if reader == "srt":
    with open(path, "r", encoding="utf-8") as f:
      return srt_reader.to_model(f, None)
  if reader == "vtt":
    with open(path, "r", encoding="utf-8") as f:
      return vtt_reader.to_model(f, None)
  raise ValueError(reader)


def write_document(writer, doc, cfg, path):
  if writer == "ttml":
    imsc_writer.from_model(doc, parse_module(cfg, IMSCWriterConfiguration)).write(path, encoding="utf-8")
  elif writer == "srt":
    text = srt_writer.from_model(doc, parse_module(cfg, SRTWriterConfiguration))
    with open(path, "w", encoding="utf-8") as f:
      f.write(text)
  elif writer == "vtt":
    text = vtt_writer.from_model(doc, parse_module(cfg, VTTWriterConfiguration))
    with open(path, "w", encoding="utf-8") as f:
      f.write(text)
  else:
    raise ValueError(writer)


def compose(expect, root, lang="before"):
  """reader -> document_lang -> filters in order -> writer, through the library API only.  Returns the bytes of the serialised
  document.  lang: apply general.document_lang "before" or "after" the filters (the README does not say which)."""
  cfg = expect["config"]
  flist = expect["filters"]
  doc = read_document(expect["reader"], os.path.join(root, expect["input"]), cfg)
  if doc is None:
    raise Rejected("reader returned no document")
  general = parse_module(cfg, GeneralConfiguration)

  def set_lang():
    if general is not None and general.document_lang is not None:
      doc.set_lang(general.document_lang)

  if lang == "before":
    set_lang()
  for name in flist:
    fclass = registered_filter(name)
    if fclass is None:
      continue
    fcfg_class = fclass.get_config_class()
    fcfg = parse_module(cfg, fcfg_class)
    fclass(fcfg if fcfg is not None else fcfg_class()).process(doc)
  if lang == "after":
    set_lang()
  os.makedirs(os.path.join(root, "__oracle__"), exist_ok=True)
  path = os.path.join(root, "__oracle__", "expected." + expect["writer"])
  if os.path.exists(path):
    os.remove(path)
  write_document(expect["writer"], doc, cfg, path)
  with open(path, "rb") as f:
    data = f.read()
  os.remove(path)
  return data


def try_compose(expect, root, **kw):
  """("ok", bytes) | ("rejected", text).  An exception whose innermost frame is harness code is a harness error and propagates."""
  from vt.run import crash_bucket
  try:
    return "ok", compose(expect, root, **kw)
  except Rejected as e:
    return "rejected", str(e)
  except Exception as e:  # pylint: disable=broad-except
    _bucket, harness = crash_bucket(e)
    if harness and not isinstance(e, (UnicodeDecodeError, et.ParseError, OSError)):
      raise
    return "rejected", "%s: %s" % (type(e).__name__, str(e)[:200])
