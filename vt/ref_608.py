"""Reference CEA-608 tables (classification by bit pattern, from CEA-608-E / 47 CFR 15.119) and a cell-grid decoder.

Written from the standard's tables, not from ttconv's enums.  classify() takes a parity-stripped 16-bit word.
"""
ROWS, COLS = 15, 32
STD_SUBST = {0x2A:"á",0x5C:"é",0x5E:"í",0x5F:"ó",0x60:"ú",0x7B:"ç",0x7C:"÷",0x7D:"Ñ",0x7E:"ñ",0x7F:"█"}
SPECIAL = "®°½¿™¢£♪à èâêîôû"
EXT_SF = "ÁÉÓÚÜü‘¡*'—©℠•“”ÀÂÇÈÊËëÎÏïÔÙùÛ«»"
EXT_PG = "ÃãÍÌìÒòÕõ{}\\^_|~ÄäÖöß¥¤│ÅåØø┌┐└┘"
PAC_ROWS = {(1,0):1,(1,1):2,(2,0):3,(2,1):4,(5,0):5,(5,1):6,(6,0):7,(6,1):8,(7,0):9,(7,1):10,(0,0):11,(3,0):12,(3,1):13,(4,0):14,(4,1):15}
COLORS = ["white","green","blue","cyan","red","yellow","magenta"]
BG_COLORS = COLORS + ["black"]
# colour classes: CEA-608 names colours, not RGB triplets; "green" is accepted as pure green or as the TTML named colour #008000
RGB = {"white": [(255, 255, 255)], "green": [(0, 255, 0), (0, 128, 0)], "blue": [(0, 0, 255)], "cyan": [(0, 255, 255)],
       "red": [(255, 0, 0)], "yellow": [(255, 255, 0)], "magenta": [(255, 0, 255)], "black": [(0, 0, 0)]}
# cells whose Unicode rendering is a matter of convention: accepted alternatives
ALTERNATIVES = {"—": "—━─–", "^": "^ʌ∧", "│": "│┃|¦", "┌": "┌┏⎡", "┐": "┐┓⎤", "└": "└┗⎣", "┘": "┘┛⎦", "'": "'’", "*": "*", "█": "█■"}

def classify(w):
    """w: 16-bit with parity already stripped. returns (cls, chan, info)"""
    b1, b2 = w >> 8, w & 0xFF
    if w == 0: return ("null", None, None)
    if b1 >= 0x20: return ("text", None, None)
    if b1 < 0x10: return ("unknown", None, None)
    chan = 2 if b1 & 0x08 else 1
    x = b1 & 0x07
    if 0x40 <= b2 <= 0x7F:
        key = (x, 1 if b2 & 0x20 else 0)
        if key in PAC_ROWS and not (x == 0 and b2 >= 0x60):
            row = PAC_ROWS[key]; bits = b2 & 0x1F
            ul = bool(bits & 1)
            if bits >= 0x10:
                return ("pac", chan, dict(row=row, indent=((bits - 0x10) >> 1) * 4, color="white", italic=False, underline=ul))
            a = bits >> 1
            if a == 7: return ("pac", chan, dict(row=row, indent=0, color="white", italic=True, underline=ul))
            return ("pac", chan, dict(row=row, indent=0, color=COLORS[a], italic=False, underline=ul))
        return ("unknown", None, None)
    if x == 1 and 0x20 <= b2 <= 0x2F:
        a = (b2 & 0x0F) >> 1; ul = bool(b2 & 1)
        if a == 7: return ("midrow", chan, dict(color=None, italic=True, underline=ul))
        return ("midrow", chan, dict(color=COLORS[a], italic=False, underline=ul))
    if x == 1 and 0x30 <= b2 <= 0x3F: return ("special", chan, SPECIAL[b2 - 0x30])
    if x == 2 and 0x20 <= b2 <= 0x3F: return ("extended", chan, EXT_SF[b2 - 0x20])
    if x == 3 and 0x20 <= b2 <= 0x3F: return ("extended", chan, EXT_PG[b2 - 0x20])
    if x in (4, 5) and 0x20 <= b2 <= 0x2F:
        names = ["RCL","BS","AOF","AON","DER","RU2","RU3","RU4","FON","RDC","TR","RTD","EDM","CR","ENM","EOC"]
        return ("control", chan if x == 4 else None, names[b2 - 0x20])  # x==5: field 2
    if x == 7 and 0x21 <= b2 <= 0x23: return ("control", chan, "TO%d" % (b2 - 0x20))
    if x == 0 and 0x20 <= b2 <= 0x2F:
        return ("attr", chan, dict(background=True, color=BG_COLORS[(b2 & 0x0F) >> 1], alpha="semi" if b2 & 1 else "opaque", underline=False))
    if x == 7 and b2 == 0x2D: return ("attr", chan, dict(background=True, color=None, alpha="transparent", underline=False))
    if x == 7 and b2 in (0x2E, 0x2F): return ("attr", chan, dict(background=False, color="black", alpha="opaque", underline=b2 == 0x2F))
    return ("unknown", None, None)

def std_char(b):
    return STD_SUBST.get(b, chr(b))

class Decoder:
    def __init__(self):
        self.disp = [[None]*COLS for _ in range(ROWS+1)]
        self.nond = [[None]*COLS for _ in range(ROWS+1)]
        self.mode = None; self.depth = 0; self.base = 15
        self.row, self.col = 15, 0
        self.pen = dict(color="white", italic=False, underline=False)
        self.last_ctrl = None; self.chan = 1
    def mem(self):
        return self.nond if self.mode == "popon" else self.disp
    def put(self, ch):
        m = self.mem()
        m[self.row][self.col] = (ch, dict(self.pen))
        if self.col < COLS - 1: self.col += 1
    def feed(self, w):
        """returns True if displayed memory may have changed"""
        cls, chan, info = classify(w)
        if cls == "null": return
        if cls == "text":
            self.last_ctrl = None
            if self.chan != 1 or self.mode is None: return
            for b in (w >> 8, w & 0xFF):
                if b >= 0x20: self.put(std_char(b))
            return
        # control-ish
        if self.last_ctrl == w:
            self.last_ctrl = None; return
        self.last_ctrl = w
        if cls == "unknown": return
        if cls == "control" and chan is None: return  # field 2
        self.chan = chan
        if chan != 1: return
        if cls == "pac":
            if self.mode is None: return
            r = info["row"]
            if self.mode == "rollup":
                if r != self.base:
                    # move window
                    top_old = self.base - self.depth + 1; 
                    rows = [self.disp[i] if i >= 1 else [None]*COLS for i in range(top_old, self.base+1)]
                    for i in range(max(top_old,1), self.base+1): self.disp[i] = [None]*COLS
                    r = max(r, self.depth)
                    for k, rr in enumerate(rows):
                        t = r - self.depth + 1 + k
                        if 1 <= t <= 15: self.disp[t] = rr
                    self.base = r
                self.row = self.base
            else:
                self.row = r
            self.col = info["indent"]
            self.pen = dict(color=info["color"], italic=info["italic"], underline=info["underline"])
        elif cls == "midrow":
            if self.mode is None: return
            if info["italic"]: self.pen = dict(color=self.pen["color"], italic=True, underline=info["underline"])
            else: self.pen = dict(color=info["color"], italic=False, underline=info["underline"])
            self.put(" ")
        elif cls == "special":
            if self.mode is None: return
            self.put(info)
        elif cls == "extended":
            if self.mode is None: return
            if self.col > 0:
                self.col -= 1 if self.mem()[self.row][self.col] is None or self.col < COLS-1 else 0
            self.mem()[self.row][self.col] = None
            self.put(info)
        elif cls == "control":
            c = info
            if c == "RCL": self.mode = "popon"
            elif c == "RDC": self.mode = "painton"
            elif c in ("RU2","RU3","RU4"):
                if self.mode in ("popon", "painton"):
                    self.disp = [[None]*COLS for _ in range(ROWS+1)]; self.nond = [[None]*COLS for _ in range(ROWS+1)]
                if self.mode != "rollup": self.base = 15; self.row = 15; self.col = 0
                self.mode = "rollup"; self.depth = int(c[2])
            elif c == "EOC":
                self.disp, self.nond = self.nond, self.disp; self.mode = "popon"
            elif c == "EDM": self.disp = [[None]*COLS for _ in range(ROWS+1)]
            elif c == "ENM": self.nond = [[None]*COLS for _ in range(ROWS+1)]
            elif c == "CR":
                if self.mode == "rollup":
                    top = self.base - self.depth + 1
                    for i in range(max(top,1), self.base): self.disp[i] = self.disp[i+1]
                    self.disp[self.base] = [None]*COLS
                    if top - 1 >= 1: pass
                    self.col = 0
            elif c == "BS":
                if self.mode is None: return
                if self.col > 0:
                    self.col -= 1; self.mem()[self.row][self.col] = None
            elif c == "DER":
                if self.mode is None: return
                for i in range(self.col, COLS): self.mem()[self.row][i] = None
            elif c.startswith("TO"):
                if self.mode is None: return
                self.col = min(self.col + int(c[2]), COLS - 1)
        elif cls == "attr":
            pass
    def screen(self):
        out = []
        for r in range(1, ROWS+1):
            cells = self.disp[r]
            if any(c is not None for c in cells):
                first = min(i for i,c in enumerate(cells) if c is not None); last = max(i for i,c in enumerate(cells) if c is not None)
                txt = "".join(cells[i][0] if cells[i] else " " for i in range(first, last+1))
                if txt.strip(): out.append((r, first, txt))
        return out
