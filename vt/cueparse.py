"""Strict, line-level parsers for SubRip and WebVTT output, written from the format definitions (not from ttconv).

Any deviation raises GrammarError(clause, line number, message).  parse_srt / parse_vtt return a list of Cue.
Cue.lines is the payload split in lines; Cue.runs(i) gives per-character (char, style) for line i where style is a dict
{bold, italic, underline, color, bg, classes}.
"""
import html
import re
from fractions import Fraction


class GrammarError(Exception):
  def __init__(self, clause, lineno, msg):
    super().__init__("%s at line %d: %s" % (clause, lineno, msg))
    self.clause = clause
    self.lineno = lineno


class Cue:
  def __init__(self):
    self.ident = None
    self.begin = None
    self.end = None
    self.settings = {}
    self.raw_lines = []
    self.lines = []       # text with tags removed and references decoded
    self.styles = []      # per line: list of style dicts, one per character of lines[i]
    self.lineno = 0

  def __repr__(self):
    return "Cue(%s %s-->%s %r)" % (self.ident, self.begin, self.end, self.lines)


SRT_TIME = re.compile(r"^(\d{2,}):(\d{2}):(\d{2}),(\d{3})$")
VTT_TIME = re.compile(r"^(?:(\d{2,}):)?(\d{2}):(\d{2})\.(\d{3})$")


def _time(m):
  h = int(m.group(1) or 0)
  mi, s, ms = int(m.group(2)), int(m.group(3)), int(m.group(4))
  if mi > 59 or s > 59:
    return None
  return Fraction(h * 3600 + mi * 60 + s) + Fraction(ms, 1000)


# ------------------------------------------------------------------------------------------------ tags

SRT_TAG = re.compile(r"<(/?)(b|i|u|font)((?: [^<>]*)?)>")
SRT_COLOR = re.compile(r'^ color="(#[0-9a-fA-F]{6}(?:[0-9a-fA-F]{2})?|[a-zA-Z]+)"$')


def srt_runs(text, lineno, strict_text=True):
  """tokenises SRT payload text (may span several lines) -> (plain text, per-char styles); tags must be balanced and nested"""
  out, styles, stack = [], [], []
  pos = 0
  for m in SRT_TAG.finditer(text):
    chunk = text[pos:m.start()]
    _emit(chunk, out, styles, stack)
    pos = m.end()
    closing, name, attr = m.group(1) == "/", m.group(2), m.group(3)
    if closing:
      if attr:
        raise GrammarError("tags:end-tag-with-attributes", lineno, m.group(0))
      if not stack or stack[-1][0] != name:
        raise GrammarError("tags:not-nested", lineno, "%s closes %s" % (m.group(0), stack[-1][0] if stack else "nothing"))
      stack.pop()
    else:
      color = None
      if name == "font":
        cm = SRT_COLOR.match(attr or "")
        if not cm:
          raise GrammarError("tags:font-attribute", lineno, m.group(0))
        color = cm.group(1).lower()
      elif attr:
        raise GrammarError("tags:unexpected-attribute", lineno, m.group(0))
      stack.append((name, color))
  _emit(text[pos:], out, styles, stack)
  if stack:
    raise GrammarError("tags:unclosed", lineno, "unclosed %r" % [s[0] for s in stack])
  plain = "".join(out)
  if strict_text and ("<" in plain and re.search(r"</?[a-zA-Z]", plain)):
    raise GrammarError("tags:unknown-tag", lineno, plain)
  return plain, styles


def _emit(chunk, out, styles, stack):
  if not chunk:
    return
  st = {"bold": False, "italic": False, "underline": False, "color": None, "bg": None, "classes": ()}
  for name, arg in stack:
    if name == "b":
      st["bold"] = True
    elif name == "i":
      st["italic"] = True
    elif name == "u":
      st["underline"] = True
    elif name == "font":
      st["color"] = arg
    elif name == "c":
      for cls in arg:
        if cls.startswith("bg_"):
          st["bg"] = cls
        else:
          st["color"] = cls
      st["classes"] = st["classes"] + tuple(arg)
  for ch in chunk:
    out.append(ch)
    styles.append(st)


VTT_TOKEN = re.compile(r"<(/?)([a-zA-Z]*)((?:\.[^\s<>.&]+)*)((?:[ \t][^<>]*)?)>|&([a-zA-Z0-9#]*;?)|(<)")
VTT_NAMED = {"amp;": "&", "lt;": "<", "gt;": ">", "nbsp;": " ", "lrm;": "‎", "rlm;": "‏"}
VTT_TAGS = {"b", "i", "u", "c", "v", "lang", "ruby", "rt"}


def vtt_runs(text, lineno):
  out, styles, stack = [], [], []
  pos = 0
  for m in VTT_TOKEN.finditer(text):
    _emit(text[pos:m.start()], out, styles, stack)
    pos = m.end()
    if m.group(6):
      raise GrammarError("text:unescaped-lt", lineno, text[m.start():m.start() + 20])
    if m.group(5) is not None:
      ref = m.group(5)
      if ref in VTT_NAMED:
        _emit(VTT_NAMED[ref], out, styles, stack)
      elif re.match(r"^#[0-9]+;$", ref):
        _emit(chr(int(ref[1:-1])), out, styles, stack)
      elif re.match(r"^#[xX][0-9a-fA-F]+;$", ref):
        _emit(chr(int(ref[2:-1], 16)), out, styles, stack)
      else:
        raise GrammarError("text:unescaped-ampersand", lineno, text[m.start():m.start() + 20])
      continue
    closing, name, classes, annot = m.group(1) == "/", m.group(2), m.group(3), m.group(4)
    if re.match(r"^\d", text[m.start() + 1:m.start() + 2] or "x"):
      continue
    if name not in VTT_TAGS:
      raise GrammarError("tags:unknown-tag", lineno, m.group(0))
    if closing:
      if classes or annot:
        raise GrammarError("tags:end-tag-with-attributes", lineno, m.group(0))
      if not stack or stack[-1][0] != name:
        raise GrammarError("tags:not-nested", lineno, "%s closes %s" % (m.group(0), stack[-1][0] if stack else "nothing"))
      stack.pop()
    else:
      stack.append((name, tuple(c for c in classes.split(".") if c)))
  _emit(text[pos:], out, styles, stack)
  if stack:
    raise GrammarError("tags:unclosed", lineno, "unclosed %r" % [s[0] for s in stack])
  return "".join(out), styles


def _split_lines(plain, styles):
  lines, sts = [""], [[]]
  for ch, st in zip(plain, styles):
    if ch == "\n":
      lines.append("")
      sts.append([])
    else:
      lines[-1] += ch
      sts[-1].append(st)
  return lines, sts


# a carriage return, alone or before a line feed, terminates a line in both formats (WebVTT "line terminator"; SubRip files are
# commonly CRLF): a bare CR that a writer copies from document text into a payload therefore splits the line for every reader
_LINE_TERMINATOR = re.compile(r"\r\n|\r|\n")

# ------------------------------------------------------------------------------------------------ SRT

def parse_srt(text, strict_text=True):
  if text == "":
    return []
  if not text.endswith("\n"):
    raise GrammarError("file:no-final-newline", text.count("\n") + 1, "")
  lines = _LINE_TERMINATOR.split(text)[:-1]
  cues, i, expect = [], 0, 1
  while i < len(lines):
    if lines[i] == "":
      if not cues or (i > 0 and lines[i - 1] == ""):
        raise GrammarError("file:stray-blank-line", i + 1, "")
      i += 1
      continue
    cue = Cue()
    cue.lineno = i + 1
    if not re.match(r"^\d+$", lines[i]):
      raise GrammarError("cue:counter-expected", i + 1, lines[i][:40])
    cue.ident = int(lines[i])
    if cue.ident != expect:
      raise GrammarError("cue:counter-not-consecutive", i + 1, "%d expected %d" % (cue.ident, expect))
    expect += 1
    i += 1
    if i >= len(lines) or " --> " not in lines[i]:
      raise GrammarError("cue:timing-line-expected", i + 1, lines[i][:40] if i < len(lines) else "EOF")
    b, _, e = lines[i].partition(" --> ")
    mb, me = SRT_TIME.match(b), SRT_TIME.match(e)
    if not mb or not me or _time(mb) is None or _time(me) is None:
      raise GrammarError("cue:timing-syntax", i + 1, lines[i])
    cue.begin, cue.end = _time(mb), _time(me)
    if not cue.begin < cue.end:
      raise GrammarError("cue:begin-not-before-end", i + 1, lines[i])
    i += 1
    while i < len(lines) and lines[i] != "":
      if "-->" in lines[i]:
        raise GrammarError("payload:arrow", i + 1, lines[i][:60])
      cue.raw_lines.append(lines[i])
      i += 1
    if not cue.raw_lines:
      raise GrammarError("payload:empty", cue.lineno, "")
    plain, styles = srt_runs("\n".join(cue.raw_lines), cue.lineno, strict_text)
    cue.lines, cue.styles = _split_lines(plain, styles)
    if cues and cue.begin < cues[-1].end:
      raise GrammarError("file:cues-overlap", cue.lineno, "%s < %s" % (cue.begin, cues[-1].end))
    cues.append(cue)
  return cues


# ------------------------------------------------------------------------------------------------ WebVTT

CSS_RULE = re.compile(r"^::cue(?:\(\.([A-Za-z_][\w-]*)\))? \{$")
CSS_DECL = re.compile(r"^  ([a-z-]+): ([^;]+);$")
VTT_SETTING = re.compile(r"^(align|line|position|size|vertical):(\S+)$")


def parse_vtt(text):
  """-> (cues, css) where css maps class name -> {property: value}"""
  if not text.startswith("WEBVTT"):
    raise GrammarError("file:header", 1, text[:20])
  if text != "WEBVTT\n\n" and not text.endswith("\n"):
    raise GrammarError("file:no-final-newline", text.count("\n") + 1, "")
  lines = _LINE_TERMINATOR.split(text)
  if lines[-1] == "":
    lines = lines[:-1]
  if lines[0] not in ("WEBVTT",) and not re.match(r"^WEBVTT[ \t]", lines[0]):
    raise GrammarError("file:header", 1, lines[0])
  if len(lines) > 1 and lines[1] != "":
    raise GrammarError("file:header-not-followed-by-blank-line", 2, lines[1])
  i = 2
  css = {}
  cues = []
  expect_id = None
  while i < len(lines):
    if lines[i] == "":
      i += 1
      continue
    if lines[i] == "STYLE":
      if cues:
        raise GrammarError("file:style-after-cue", i + 1, "")
      i += 1
      while i < len(lines) and lines[i] != "":
        m = CSS_RULE.match(lines[i])
        if not m:
          raise GrammarError("style:rule-syntax", i + 1, lines[i])
        cls = m.group(1)
        i += 1
        decls = {}
        while i < len(lines) and lines[i] != "}":
          d = CSS_DECL.match(lines[i])
          if not d:
            raise GrammarError("style:declaration-syntax", i + 1, lines[i])
          decls[d.group(1)] = d.group(2)
          i += 1
        if i >= len(lines):
          raise GrammarError("style:unterminated-rule", i + 1, "")
        i += 1
        css.setdefault(cls, {}).update(decls)
      continue
    if lines[i].startswith("NOTE") or lines[i] == "REGION":
      while i < len(lines) and lines[i] != "":
        i += 1
      continue
    cue = Cue()
    cue.lineno = i + 1
    if "-->" not in lines[i]:
      cue.ident = lines[i]
      i += 1
      if i >= len(lines) or "-->" not in lines[i]:
        raise GrammarError("cue:timing-line-expected", i + 1, lines[i][:40] if i < len(lines) else "EOF")
    parts = lines[i].split(" ")
    if len(parts) < 3 or parts[1] != "-->":
      raise GrammarError("cue:timing-syntax", i + 1, lines[i])
    mb, me = VTT_TIME.match(parts[0]), VTT_TIME.match(parts[2])
    if not mb or not me or _time(mb) is None or _time(me) is None:
      raise GrammarError("cue:timing-syntax", i + 1, lines[i])
    cue.begin, cue.end = _time(mb), _time(me)
    if not cue.begin < cue.end:
      raise GrammarError("cue:begin-not-before-end", i + 1, lines[i])
    for tok in parts[3:]:
      sm = VTT_SETTING.match(tok)
      if not sm or sm.group(1) in cue.settings:
        raise GrammarError("cue:setting-syntax", i + 1, tok)
      cue.settings[sm.group(1)] = sm.group(2)
    _check_settings(cue, i + 1)
    i += 1
    while i < len(lines) and lines[i] != "":
      if "-->" in lines[i]:
        raise GrammarError("payload:arrow", i + 1, lines[i][:60])
      cue.raw_lines.append(lines[i])
      i += 1
    if not cue.raw_lines:
      raise GrammarError("payload:empty", cue.lineno, "")
    plain, styles = vtt_runs("\n".join(cue.raw_lines), cue.lineno)
    cue.lines, cue.styles = _split_lines(plain, styles)
    if cues and cue.begin < cues[-1].begin:
      raise GrammarError("file:cues-not-in-order", cue.lineno, "%s < %s" % (cue.begin, cues[-1].begin))
    cues.append(cue)
  return cues, css


def _check_settings(cue, lineno):
  s = cue.settings
  if "align" in s and s["align"] not in ("start", "center", "end", "left", "right"):
    raise GrammarError("cue:setting-value", lineno, "align:" + s["align"])
  if "line" in s:
    m = re.match(r"^(-?\d+|\d+(?:\.\d+)?%)(?:,(start|center|end))?$", s["line"])
    if not m:
      raise GrammarError("cue:setting-value", lineno, "line:" + s["line"])
    if m.group(1).endswith("%") and not 0 <= float(m.group(1)[:-1]) <= 100:
      raise GrammarError("cue:setting-value", lineno, "line:" + s["line"])
  if "position" in s and not re.match(r"^\d+(?:\.\d+)?%(?:,(line-left|center|line-right))?$", s["position"]):
    raise GrammarError("cue:setting-value", lineno, "position:" + s["position"])
  if "size" in s and not re.match(r"^\d+(?:\.\d+)?%$", s["size"]):
    raise GrammarError("cue:setting-value", lineno, "size:" + s["size"])
  if "vertical" in s and s["vertical"] not in ("rl", "lr"):
    raise GrammarError("cue:setting-value", lineno, "vertical:" + s["vertical"])


VTT_DEFAULT_COLORS = {"white": "#ffffffff", "lime": "#00ff00ff", "cyan": "#00ffffff", "red": "#ff0000ff", "yellow": "#ffff00ff",
                      "magenta": "#ff00ffff", "blue": "#0000ffff", "black": "#000000ff"}


def vtt_class_color(cls, css, prop):
  """resolves a cue class to a colour through the STYLE block or the WebVTT default classes; None if it has no effect"""
  if cls in css and prop in css[cls]:
    return css[cls][prop].lower()
  base = cls[3:] if cls.startswith("bg_") else cls
  if (prop == "background-color") == cls.startswith("bg_") and base in VTT_DEFAULT_COLORS:
    return VTT_DEFAULT_COLORS[base]
  return None


def selftest():
  ok = "1\n00:00:01,000 --> 00:00:02,500\n<b>Hello</b> <i>wor\nld</i>\n\n2\n00:00:02,500 --> 00:00:03,000\n<font color=\"#ff0000ff\">x</font>\n"
  cues = parse_srt(ok)
  assert len(cues) == 2 and cues[0].lines == ["Hello wor", "ld"] and cues[0].styles[0][0]["bold"] and cues[0].styles[1][0]["italic"]
  assert cues[1].styles[0][0]["color"] == "#ff0000ff" and cues[0].end == Fraction(5, 2)
  for bad, clause in [
      ("1\n00:00:01,000 --> 00:00:01,000\nx\n", "cue:begin-not-before-end"),
      ("2\n00:00:01,000 --> 00:00:02,000\nx\n", "cue:counter-not-consecutive"),
      ("1\n00:00:01.000 --> 00:00:02,000\nx\n", "cue:timing-syntax"),
      ("1\n00:00:01,000 --> 00:00:02,000\n<b>x\n", "tags:unclosed"),
      ("1\n00:00:01,000 --> 00:00:02,000\n<b><i>x</b></i>\n", "tags:not-nested"),
      ("1\n00:00:01,000 --> 00:00:02,000\na --> b\n", "payload:arrow"),
      ("1\n00:00:01,000 --> 00:00:02,000\n\nx\n", "payload:empty"),
      ("1\n00:00:01,000 --> 00:00:02,000\nA\r\rB\n", "cue:counter-expected"),        # CR CR = an empty line: the cue ends after A
      ("1\n00:00:01,000 --> 00:00:02,000\nx\n\n2\n00:00:01,500 --> 00:00:03,000\ny\n", "file:cues-overlap"),
  ]:
    try:
      parse_srt(bad)
    except GrammarError as e:
      assert e.clause == clause, (bad, e.clause)
    else:
      raise AssertionError("accepted " + repr(bad))
  v = ("WEBVTT\n\nSTYLE\n::cue {\n  background-color: transparent;\n}\n::cue(.fg_color_01020304) {\n  color: #01020304;\n}\n\n"
       "1\n00:01.000 --> 00:00:02.000 align:left line:10%,start\n<c.red><b>a &amp; b</b></c>&lt;\n<c.fg_color_01020304>z</c>\n")
  cues, css = parse_vtt(v)
  assert cues[0].lines == ["a & b<", "z"] and cues[0].settings == {"align": "left", "line": "10%,start"}
  assert cues[0].styles[0][0]["color"] == "red" and cues[0].styles[0][0]["bold"] and not cues[0].styles[0][5]["bold"]
  assert vtt_class_color("fg_color_01020304", css, "color") == "#01020304" and vtt_class_color("red", css, "color") == "#ff0000ff"
  assert parse_vtt("WEBVTT\n\n")[0] == []
  for bad, clause in [
      ("WEBVTT\n\n00:01.000 --> 00:02.000\na & b\n", "text:unescaped-ampersand"),
      ("WEBVTT\n\n00:01.000 --> 00:02.000\na < b\n", "text:unescaped-lt"),
      ("WEBVTT\n\n00:01.000 --> 00:02.000\na --> b\n", "payload:arrow"),
      ("WEBVTT\n\n00:01.000 --> 00:02.000\n<b>x\n", "tags:unclosed"),
      ("WEBVTT\n\n00:01.000 --> 00:02.000\nA\r\rB\n", "cue:timing-line-expected"),
      ("WEBVTT\n\n00:02.000 --> 00:02.000\nx\n", "cue:begin-not-before-end"),
      ("WEBVTT\n\n00:01.000 --> 00:02.000 line:110%\nx\n", "cue:setting-value"),
      ("WEBVTT\n\n00:01.000 --> 00:02.000\nx\n\nSTYLE\n::cue {\n  color: red;\n}\n", "file:style-after-cue"),
      ("WEBVTT\n00:01.000 --> 00:02.000\nx\n", "file:header-not-followed-by-blank-line"),
  ]:
    try:
      parse_vtt(bad)
    except GrammarError as e:
      assert e.clause == clause, (bad, e.clause)
    else:
      raise AssertionError("accepted " + repr(bad))
