"""Reference CEA-608 caption decoder for one data channel of field 1 (47 CFR 15.119 / CEA-608-E), cell-grid model.

Improved copy of the prototype in vt/ref_608.py (which stays untouched): the bit-pattern classifier `classify` and the character
tables are imported from there (they are verified exhaustively against the standard's tables by check C17); the state machine
below is rewritten:

  * 15 x 32 displayed and non-displayed memories, cells (char, colour, italic, underline, sure, tag) or None (transparent);
  * modes: pop-on (RCL; characters go to non-displayed memory; EOC swaps the memories and selects pop-on), paint-on (RDC;
    characters go to displayed memory), roll-up (RU2/3/4: coming from pop-on/paint-on both memories are erased, base row 15,
    cursor column 1; a smaller depth erases the rows that leave the window; PAC moves the window with its content to the new
    base row, never above row `depth`; CR scrolls the window up one row, deleting its top row, clears the base row and
    returns the cursor to column 1);
  * EDM erases displayed memory in any mode, ENM erases non-displayed memory;
  * PAC: row, indent (white, no italics) or colour/italics at column 1, underline bit; mid-row code: one cell shown as a
    blank, then colour (italics off) or italics (colour kept), underline bit; TO1-3: cursor right without erasing;
    BS: cursor left one column erasing that cell, nothing at column 1; extended character: replaces the preceding cell;
    special character: one cell;
  * column 32 is sticky: the cursor does not advance past it;
  * any control code (first byte 10h-1Fh, which includes PAC, mid-row, special and extended characters) identical to the
    word of the immediately preceding frame is the redundant second transmission and is ignored once (null padding, a word of
    another channel or a gap between two SCC lines in between make it a new command);
  * a control code carries its data channel; printable characters belong to the channel of the last control code; field-2
    miscellaneous codes (15h/1Dh) are not field-1 codes: they and the characters after them are not this channel's data;
  * characters received before any mode-setting command are discarded.

Not modelled (outside the C08 grammars): text mode (TR/RTD), flash, DER inside a row being overwritten, background attributes.

Cells also carry two pieces of bookkeeping that never influence what is displayed:
  * sure=False marks attributes that the check does not assert: the pen after CR without a following PAC when it is not the
    default pen (the standard lets the pen persist, some decoders reset it), after a roll-up PAC for rows 5-11 (ttconv anchors
    roll-up at row 15 and documents that it ignores those PACs), and after back-to-back mid-row codes other than "colour, italics";
  * tag names an *input* feature of the cell ("italics-mid-row-code-after-colour", "pair-ending-in-blank-opens-run") so that
    the check can give known reader defects their own failure bucket.
"""
from vt.ref_608 import classify, std_char, ROWS, COLS

DEFAULT_PEN = ("white", False, False)


def _blank():
  return [[None] * COLS for _ in range(ROWS + 1)]    # index 0 unused


class Decoder:
  def __init__(self, channel=1):
    self.channel = channel
    self.disp = _blank()
    self.nond = _blank()
    self.mode = None
    self.depth = 0
    self.base = 15
    self.row, self.col = 15, 0
    self.pen = DEFAULT_PEN
    self.sure = True
    self.touched = False
    self.cell_tag = None
    self.run_open = True
    self.prev_mid = self.mid_now = None   # bookkeeping for back-to-back mid-row codes
    self.pen_tag = None
    self.pac_unsure = False
    self.last = None        # last word if it was a control code that may be followed by its redundant copy
    self.last_frame = None  # frame of the last word fed with a frame number
    self.cur_chan = None    # data channel of the last control code

  # --- memories
  def _mem(self):
    return self.nond if self.mode == "pop" else self.disp

  def _put(self, ch):
    self._mem()[self.row][self.col] = (ch, self.pen[0], self.pen[1], self.pen[2], self.sure, self.cell_tag or self.pen_tag)
    self.touched = self.touched or self.mode != "pop"
    if self.col < COLS - 1:
      self.col += 1

  def _snapshot(self):
    return [tuple(r) for r in self.disp]

  # --- input
  def feed(self, w, frame=None):
    """w: 16-bit word, parity stripped; frame: the frame the word is on the air (None = the frame after the previous word).
    returns True when displayed memory changed, or was rewritten with equal content (a flip between two identical captions is
    still a flip)"""
    before = self._snapshot()
    self.touched = False
    if frame is not None:
      if self.last_frame is not None and frame != self.last_frame + 1:
        self.last = None        # the redundant copy of a control code comes in the very next frame, or it is a new command
      self.last_frame = frame
    self._feed(w)
    return self.touched or self._snapshot() != before

  @staticmethod
  def _empty(mem):
    return all(c is None for r in mem for c in r)

  def _feed(self, w):
    cls, chan, info = classify(w)
    if cls == "null":
      self.last = None
      return
    if cls == "text":
      self.last = None
      if self.cur_chan != self.channel or self.mode is None:
        return
      self.prev_mid = self.mid_now = None
      b1, b2 = w >> 8, w & 0xFF
      # input feature used only to *name* a failure bucket: in paint-on mode, a character pair ending in a blank that opens a run
      # (first pair after a PAC, a mid-row code or another pair ending in a blank)
      if b1 == 0x20:
        self.run_open = True
      self.cell_tag = "pair-ending-in-blank-opens-run" if self.mode == "paint" and b2 == 0x20 and self.run_open else None
      for b in (b1, b2):
        if b >= 0x20:
          self._put(std_char(b))
      self.cell_tag = None
      self.run_open = b2 == 0x20
      return
    if self.last == w:
      self.last = None
      return
    self.last = w
    if cls != "unknown" and chan == self.channel:
      self.prev_mid, self.mid_now = self.mid_now, None
    if cls == "unknown":
      return
    if cls == "control" and chan is None:
      self.cur_chan = "f2"        # a field-2 code: not data of a field-1 channel
      return
    self.cur_chan = chan
    if chan != self.channel:
      return
    if cls == "pac":
      self._pac(info)
      self.run_open = True
    elif cls == "midrow":
      if self.mode is None:
        return
      self.run_open = True
      if info["italic"]:
        # 15.119(h)(1)(ii): colour can only be changed by a mid-row code of another colour; italics follows the colour assignment
        self.pen = (self.pen[0], True, info["underline"])
        if self.pen[0] != "white":
          self.pen_tag = "italics-mid-row-code-after-colour"     # (bucket naming only)
      else:
        self.pen_tag = None
        self.pen = (info["color"], False, info["underline"])
      # back-to-back mid-row codes other than "colour, then italics" are not something an encoder sends: attributes not asserted
      run = self.prev_mid is not None
      pair = run and self.prev_mid[0] == "colour" and info["italic"] and self.prev_mid[1] == info["underline"] and not self.prev_mid[2]
      if run:
        self.sure = pair and self.sure
      elif not info["italic"]:
        self.sure = True              # a colour code on its own defines colour, italics (off) and underline
        self.pac_unsure = False
      # (an italics code on its own keeps the colour: as certain as it was)
      self.mid_now = ("italic" if info["italic"] else "colour", info["underline"], run)
      # the code itself occupies a cell displayed as a blank
      self._mem()[self.row][self.col] = (" ", "white", False, False, False, None)
      if self.col < COLS - 1:
        self.col += 1
    elif cls == "special":
      if self.mode is not None:
        self._put(info)
        self.run_open = False
    elif cls == "extended":
      if self.mode is None:
        return
      if self.col > 0:
        self.col -= 1
      self._put(info)
      self.run_open = False
    elif cls == "control":
      self._control(info)

  def _pac(self, info):
    if self.mode is None:
      return
    r = info["row"]
    if self.mode == "roll":
      r = max(r, self.depth)
      if r != self.base:
        top_old = self.base - self.depth + 1
        rows = [self.disp[i] for i in range(top_old, self.base + 1)]
        for i in range(top_old, self.base + 1):
          self.disp[i] = [None] * COLS
        for k, cells in enumerate(rows):
          self.disp[r - self.depth + 1 + k] = cells
        self.base = r
      self.row = self.base
    else:
      self.row = r
    self.col = info["indent"]
    self.pen = (info["color"], info["italic"], info["underline"])
    self.pen_tag = None
    # roll-up PACs for rows 5-11: ttconv documents that it ignores them (roll-up is anchored at row 15); the pen state of a reader
    # that ignores a PAC is unknown until the next PAC it honours, so attributes are not asserted meanwhile
    self.pac_unsure = self.mode == "roll" and 5 <= info["row"] <= 11
    self.sure = not self.pac_unsure

  def _control(self, c):
    if c == "RCL":
      self.mode = "pop"
    elif c == "RDC":
      self.mode = "paint"
    elif c in ("RU2", "RU3", "RU4"):
      depth = int(c[2])
      if self.mode in ("pop", "paint"):
        self.disp = _blank()
        self.nond = _blank()
      if self.mode != "roll":
        self.base = 15
        self.row, self.col = 15, 0
      else:
        self.base = max(self.base, depth)
        for i in range(1, self.base - depth + 1):
          self.disp[i] = [None] * COLS
        self.row = self.base
      self.mode = "roll"
      self.depth = depth
    elif c == "EOC":
      self.touched = not (self._empty(self.disp) and self._empty(self.nond))
      self.disp, self.nond = self.nond, self.disp
      self.mode = "pop"
    elif c == "EDM":
      self.disp = _blank()
    elif c == "ENM":
      self.nond = _blank()
    elif c == "CR":
      if self.mode == "roll":
        top = self.base - self.depth + 1
        for i in range(top, self.base):
          self.disp[i] = self.disp[i + 1]
        self.disp[self.base] = [None] * COLS
        self.row, self.col = self.base, 0
        self.sure = self.sure and self.pen == DEFAULT_PEN and not self.pac_unsure
    elif c == "BS":
      if self.mode is not None and self.col > 0:
        self.col -= 1
        self._mem()[self.row][self.col] = None
        if all(x is None for x in self._mem()[self.row]):
          self.run_open = True      # (bucket naming only) the row is empty again
    elif c == "DER":
      if self.mode is not None:
        for i in range(self.col, COLS):
          self._mem()[self.row][i] = None
    elif c.startswith("TO"):
      if self.mode is not None:
        self.col = min(self.col + int(c[2]), COLS - 1)
    # AOF AON FON TR RTD: not generated

  # --- output
  def screen(self):
    """displayed non-blank rows top to bottom: (row, first column, text, attrs, tags) where text has leading/trailing blanks removed,
    transparent interior cells read as blanks, and attrs[i] = (colour, italic, underline) or None (blank cell or not asserted)"""
    out = []
    for r in range(1, ROWS + 1):
      cells = self.disp[r]
      idx = [i for i, c in enumerate(cells) if c is not None and c[0] != " "]
      if not idx:
        continue
      first, last = idx[0], idx[-1]
      txt = "".join(cells[i][0] if cells[i] else " " for i in range(first, last + 1))
      attrs = tuple((cells[i][1], cells[i][2], cells[i][3]) if cells[i] and cells[i][0] != " " and cells[i][4] else None
                    for i in range(first, last + 1))
      tags = tuple(cells[i][5] if cells[i] else None for i in range(first, last + 1))
      out.append((r, first, txt, attrs, tags))
    return tuple(out)


def selftest():
  """hand-computed scenarios from the standard's protocol descriptions"""
  from vt import gen_scc as g

  def run(words):
    d = Decoder()
    for w in words:
      d.feed(w)
    return d

  def txt(s):
    bs = [g.STD_BYTE[c] for c in s] + ([0] if len(s) % 2 else [])
    return [bs[i] << 8 | bs[i + 1] for i in range(0, len(bs), 2)]

  def dbl(w):
    return [w, w]
  C = g.enc_ctl
  # pop-on: nothing displayed until EOC; EDM erases
  load = dbl(C("RCL")) + dbl(g.enc_pac(14, 4)) + txt("HELLO") + dbl(g.enc_pac(15, 0, "cyan", ul=True)) + txt("you")
  d = run(load)
  assert d.screen() == ()
  d = run(load + dbl(C("EOC")))
  s = d.screen()
  assert [(r, c, t) for r, c, t, _, _ in s] == [(14, 4, "HELLO"), (15, 0, "you")], s
  assert s[1][3][0] == ("cyan", False, True) and s[0][3][0] == ("white", False, False)
  assert run(load + dbl(C("EOC")) + dbl(C("EDM"))).screen() == ()
  # an undoubled EOC acts once, a doubled one acts once too
  assert run(load + [C("EOC")]).screen() == s and run(load + [C("EOC")] * 3).screen() == ()
  # roll-up: at most `depth` rows, newest on the base row
  ru = []
  for i, t in enumerate(["one", "two", "three", "four"]):
    ru += dbl(C("RU2")) + dbl(C("CR")) + dbl(g.enc_pac(15, 0)) + txt(t)
  assert [(r, t) for r, _, t, _, _ in run(ru).screen()] == [(14, "three"), (15, "four")]
  # paint-on accumulates, backspace and extended characters replace the preceding cell, mid-row code is a blank cell
  po = dbl(C("RDC")) + dbl(g.enc_pac(3, 8)) + txt("abX") + dbl(C("BS")) + txt("c") + txt("E") + dbl(g.enc_extended("É")) + \
       dbl(g.enc_mid("red")) + txt("r") + dbl(g.enc_mid(None, True)) + txt("i")
  s = run(po).screen()
  assert [(r, c, t) for r, c, t, _, _ in s] == [(3, 8, "abcÉ r i")], s
  assert s[0][3][5] == ("red", False, False) and s[0][3][7] == ("red", True, True) and s[0][3][4] is None
  # channel 2 data and field-2 codes are not channel 1's
  assert run(dbl(C("RDC")) + dbl(g.enc_pac(1, 0)) + txt("A") + dbl(g.enc_pac(2, 0, chan=2)) + txt("zz") + dbl(g.enc_pac(2, 0)) + txt("B") +
             dbl(C("EDM", field=2)) + txt("qq")).screen() == ((1, 0, "A", (("white", False, False),), (None,)), (2, 0, "B", (("white", False, False),), (None,)))
  # tab offsets move without erasing
  s = run(dbl(C("RDC")) + dbl(g.enc_pac(1, 4)) + dbl(C("TO2")) + txt("A")).screen()
  assert [(r, c, t) for r, c, t, _, _ in s] == [(1, 6, "A")]
