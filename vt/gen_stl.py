"""EBU STL (Tech 3264) files built from a structured description, with the expectation derived from the same description.

A *description* (plain JSON-able data, this is the `case` of C09) is

  {"gsi":   {"cpn","dfc","dsc","cct","lc","mnc","mnr","tcs","tcp":[h,m,s,f],"tcf":[h,m,s,f],"tnb_delta","tns_delta","txt"},
   "entries": [ {"k": "sub"|"cum"|"comment"|"user", "sgn": int, "members": [member, ...]} ... ],     # file order
   "config": {"program_start_tc": None|"TCP"|"HH:MM:SS:FF", "max_row_count": None|"MNR"|int,
              "disable_fill_line_gap": bool, "disable_line_padding": bool, "font_stack": None|str}}

  member = {"sn": int, "tci": [h,m,s,f], "tco": [h,m,s,f], "vp": int, "jc": int, "dh": bool, "lines": [[token...]...],
            "cuts": [byte offsets where the text field continues in the next extension block],
            "trail_nl": bool, "ud": bool (a user-data block FE sits inside the chain), "junk": None|[blk, [bytes after the first 8F]]}
  "user" entries carry {"sn", "tf": [bytes]}.

A *token* is an int (one byte: space 20h, a control code 00-1F / 80-85, a single-byte character) or a two element list
[diacritic C1-CF, base letter] (ISO 6937 non-spacing diacritic followed by the letter).  Lines are separated by the newline code 8Ah
(doubled when the subtitle is double height), the text field ends with 8Fh filler.  "sub" = one subtitle (CS=0), "cum" = a cumulative
set (CS=1,2,...,3), "comment" = TTI block with CF=1, "user" = user data block (EBN=FEh).

`assemble(desc)` gives the bytes; `expected(desc)` gives what Tech 3264 says a decoder must show (nothing here imports ttconv).
"""
import struct
import unicodedata
from fractions import Fraction

from hypothesis import strategies as st

GSI_FMT = "3s8sc2s2s32s32s32s32s32s32s16s6s6s2s5s5s3s2s2s1s8s8s1s1s3s32s32s32s75s576s"
TTI_FMT = "<BHBBBBBBBBBBBBB112s"
assert struct.calcsize(GSI_FMT) == 1024 and struct.calcsize(TTI_FMT) == 128

# DFC -> (frame rate, nominal count per second, labels dropped per minute)
DFC = {
  "STL23.01": (Fraction(24000, 1001), 24, 0),
  "STL24.01": (Fraction(24), 24, 0),
  "STL25.01": (Fraction(25), 25, 0),
  "STL30.01": (Fraction(30000, 1001), 30, 2),
  "STL50.01": (Fraction(50), 50, 0),
}
DFCS = sorted(DFC)

SPACE, NEWLINE, FILLER = 0x20, 0x8A, 0x8F
BLACK, RED, GREEN, YELLOW, BLUE, MAGENTA, CYAN, WHITE, TRANSPARENT = range(9)
COLOR_NAMES = ["black", "red", "green", "yellow", "blue", "magenta", "cyan", "white", "transparent"]
RGB = [(0, 0, 0), (255, 0, 0), (0, 255, 0), (255, 255, 0), (0, 0, 255), (255, 0, 255), (0, 255, 255), (255, 255, 255)]

# ------------------------------------------------------------------------------------------------ character tables
# ISO 6937 non-spacing diacritical marks (C9 and CC are contested and left out) with the letters of the ISO 6937 repertoire;
# the Unicode value of a pair is NFC(letter + combining mark).
DIACRITICS = {
  0xC1: ("̀", "AEIOUaeiou"),
  0xC2: ("́", "ACEILNORSUYZaceilnorsuyz"),
  0xC3: ("̂", "ACEGHIJOSUWYaceghijosuwy"),
  0xC4: ("̃", "AINOUainou"),
  0xC5: ("̄", "AEIOUaeiou"),
  0xC6: ("̆", "AGUagu"),
  0xC7: ("̇", "CEGIZcegz"),
  0xC8: ("̈", "AEIOUYaeiouy"),
  0xCA: ("̊", "AUau"),
  0xCB: ("̧", "CGKLNRSTcklnrst"),
  0xCD: ("̋", "OUou"),
  0xCE: ("̨", "AEIUaeiu"),
  0xCF: ("̌", "CDELNRSTZcdelnrstz"),
}

# single-byte upper half of the Latin table (CCT 00), only the cells on which ISO 6937-2 and Tech 3264 agree; a value with more
# than one character lists the acceptable renderings of the same glyph
LATIN_UPPER = {
  0xA0: "\u00a0",      # NO-BREAK SPACE: a character of its own, not a blank that may be folded into a run of spaces
  0xA1: "¡", 0xA2: "¢", 0xA3: "£", 0xA5: "¥", 0xA7: "§", 0xA9: "‘", 0xAA: "“", 0xAB: "«",
  0xAC: "←", 0xAD: "↑", 0xAE: "→", 0xAF: "↓",
  0xB0: "°", 0xB1: "±", 0xB2: "²", 0xB3: "³", 0xB4: "×", 0xB5: "µμ", 0xB6: "¶", 0xB7: "·",
  0xB8: "÷", 0xB9: "’", 0xBA: "”", 0xBB: "»", 0xBC: "¼", 0xBD: "½", 0xBE: "¾", 0xBF: "¿",
  0xD0: "―—", 0xD1: "¹", 0xD2: "®", 0xD3: "©", 0xD4: "™", 0xD5: "♪", 0xD6: "¬", 0xD7: "¦",
  0xDC: "⅛", 0xDD: "⅜", 0xDE: "⅝", 0xDF: "⅞",
  0xE0: "ΩΩ", 0xE1: "Æ", 0xE2: "ĐÐ", 0xE3: "ª", 0xE4: "Ħ", 0xE6: "Ĳ", 0xE7: "Ŀ",
  0xE8: "Ł", 0xE9: "Ø", 0xEA: "Œ", 0xEB: "º", 0xEC: "Þ", 0xED: "Ŧ", 0xEE: "Ŋ", 0xEF: "ŉ",
  0xF0: "ĸ", 0xF1: "æ", 0xF2: "đ", 0xF3: "ð", 0xF4: "ħ", 0xF5: "ı", 0xF6: "ĳ", 0xF7: "ŀ",
  0xF8: "ł", 0xF9: "ø", 0xFA: "œ", 0xFB: "ß", 0xFC: "þ", 0xFD: "ŧ", 0xFE: "ŋ",
}

# ASCII cells used with the Latin table: 23h 24h (currency / number sign moved between editions) and 5Eh 60h 7Eh are contested
LATIN_ASCII = [b for b in range(0x21, 0x7F) if b not in (0x23, 0x24, 0x5E, 0x60, 0x7E)]
FULL_ASCII = list(range(0x21, 0x7F))


def upper_8859(cct, b):
  """Unicode of upper-half byte b in ISO 8859-5/6/7/8 (NO-BREAK SPACE and the letter blocks, by range formula), None outside them"""
  if b == 0xA0:
    return "\u00a0"
  if cct == "01":    # Cyrillic: A1-AC, AE-EF, F1-FC, FE-FF sit at U+0400 + (b - A0)
    if 0xA1 <= b <= 0xFF and b not in (0xAD, 0xF0, 0xFD):
      return chr(0x0400 + b - 0xA0)
  elif cct == "02":  # Arabic letters C1-DA, E0-EA at U+0600 + (b - A0)
    if 0xC1 <= b <= 0xDA or 0xE0 <= b <= 0xEA:
      return chr(0x0600 + b - 0xA0)
  elif cct == "03":  # Greek letters (with tonos/dialytika) B8-BA, BC, BE-D1, D3-FE at U+0370 + (b - A0)
    if b in (0xB8, 0xB9, 0xBA, 0xBC) or 0xBE <= b <= 0xD1 or 0xD3 <= b <= 0xFE:
      return chr(0x0370 + b - 0xA0)
  elif cct == "04":  # Hebrew letters E0-FA at U+05D0 + (b - E0)
    if 0xE0 <= b <= 0xFA:
      return chr(0x05D0 + b - 0xE0)
  return None


# ISO 6937: a non-spacing diacritical mark followed by SPACE is the spacing form of the mark (those that have no ASCII position)
SPACING_MARKS = {0xC2: "\u00b4", 0xC5: "\u00af", 0xC6: "\u02d8", 0xC7: "\u02d9", 0xC8: "\u00a8", 0xCA: "\u02da", 0xCB: "\u00b8",
                 0xCD: "\u02dd", 0xCE: "\u02db", 0xCF: "\u02c7"}


def printable_tokens(cct):
  """(ascii tokens, single upper tokens, pair tokens) that may be generated and are asserted for table `cct`"""
  if cct == "00":
    pairs = [[d, ord(l)] for d in sorted(DIACRITICS) for l in DIACRITICS[d][1]] + [[d, 0x20] for d in sorted(SPACING_MARKS)] * 2
    return list(LATIN_ASCII), sorted(LATIN_UPPER), pairs
  return list(FULL_ASCII), [b for b in range(0xA0, 0x100) if upper_8859(cct, b) is not None], []


def token_char(cct, t):
  """acceptable Unicode renderings (a string of alternatives) of printable token t"""
  if isinstance(t, (list, tuple)):
    if t[1] == 0x20:
      assert cct == "00", t
      return SPACING_MARKS[t[0]]
    mark, letters = DIACRITICS[t[0]]
    assert cct == "00" and chr(t[1]) in letters, t
    c = unicodedata.normalize("NFC", chr(t[1]) + mark)
    assert len(c) == 1
    return c
  if 0x21 <= t <= 0x7E:
    return chr(t)
  if cct == "00":
    return LATIN_UPPER[t]
  c = upper_8859(cct, t)
  assert c is not None, (cct, t)
  return c


def is_pair(t):
  return isinstance(t, (list, tuple))


def is_space(t):
  return t == SPACE


def is_code(t):
  return not is_pair(t) and (0 <= t <= 0x1F or 0x80 <= t <= 0x85)


def is_printable(t):
  return is_pair(t) or (0x21 <= t <= 0x7E) or (0xA0 <= t <= 0xFF)


def token_bytes(t):
  return bytes(t) if is_pair(t) else bytes([t])


# ------------------------------------------------------------------------------------------------ time codes

def tc_frames(dfc, tc):
  """frame count of label tc = (h, m, s, f) at the rate declared by dfc (SMPTE drop-frame counting at 30000/1001)"""
  _rate, n, d = DFC[dfc]
  h, m, s, f = tc
  minutes = 60 * h + m
  return n * (3600 * h + 60 * m + s) + f - d * (minutes - minutes // 10)


def tc_label(dfc, count):
  """inverse of tc_frames"""
  _rate, n, d = DFC[dfc]
  if d == 0:
    s, f = divmod(count, n)
    m, s = divmod(s, 60)
    h, m = divmod(m, 60)
    return [h, m, s, f]
  fp10 = 600 * n - 9 * d
  fpm = 60 * n - d
  tens, rem = divmod(count, fp10)
  if rem < 60 * n:
    mi, fim = 0, rem
  else:
    q, r = divmod(rem - 60 * n, fpm)
    mi, fim = 1 + q, r + d
  h, m = divmod(tens * 10 + mi, 60)
  s, f = divmod(fim, n)
  return [h, m, s, f]


def tc_valid(dfc, tc):
  _rate, n, d = DFC[dfc]
  h, m, s, f = tc
  if not (0 <= h <= 23 and 0 <= m <= 59 and 0 <= s <= 59 and 0 <= f < n):
    return False
  return not (d and s == 0 and f < d and m % 10 != 0)


def frames_per_day(dfc):
  _rate, n, d = DFC[dfc]
  return 24 * 6 * (600 * n - 9 * d)


def tc_seconds(dfc, tc):
  return Fraction(tc_frames(dfc, tc)) / DFC[dfc][0]


def tc_string(tc, sep=":"):
  return "%02d:%02d:%02d%s%02d" % (tc[0], tc[1], tc[2], sep, tc[3])


# ------------------------------------------------------------------------------------------------ assembling

GSI_DEFAULT = {"cpn": "850", "dfc": "STL25.01", "dsc": "1", "cct": "00", "lc": "09", "mnc": 40, "mnr": 23, "tcs": "1",
               "tcp": [0, 0, 0, 0], "tcf": [0, 0, 0, 0], "tnb_delta": 0, "tns_delta": 0, "txt": ""}
CONFIG_DEFAULT = {"program_start_tc": None, "max_row_count": None, "disable_fill_line_gap": False, "disable_line_padding": False,
                  "font_stack": None}
FONT_STACKS = {
  "Times New Roman,serif": ("Times New Roman", "generic:serif"),
  "monospace": ("generic:monospace",),
  "'Courier New', Arial, sansSerif": ("Courier New", "Arial", "generic:sansSerif"),
  "Tiresias": ("Tiresias",),
  "\"proportionalSansSerif\", default": ("proportionalSansSerif", "generic:default"),
}


def member_text(mem):
  """(bytes of the text before the filler, set of offsets at which the text may be cut between TTI blocks)"""
  out = bytearray()
  bounds = {0}
  nl = bytes([NEWLINE, NEWLINE]) if mem.get("dh") else bytes([NEWLINE])
  for i, line in enumerate(mem["lines"]):
    if i:
      out += nl
      bounds.add(len(out))
    for t in line:
      out += token_bytes(t)
      bounds.add(len(out))
  if mem.get("trail_nl"):
    out += nl
    bounds.add(len(out))
  return bytes(out), bounds


def even_cuts(mem, nblk):
  """cuts for nblk blocks of about equal size, on token boundaries"""
  text, bounds = member_text(mem)
  cuts = []
  for i in range(1, nblk):
    target = len(text) * i // nblk
    cuts.append(max(b for b in bounds if b <= target))
  return cuts


def validate(desc):
  g = desc["gsi"]
  assert g["dfc"] in DFC and g["dsc"] in (" ", "0", "1", "2") and g["cct"] in ("00", "01", "02", "03", "04")
  assert tc_valid(g["dfc"], g["tcp"]) and tc_valid(g["dfc"], g["tcf"])
  for e in desc["entries"]:
    assert e["k"] in ("sub", "cum", "comment", "user")
    assert 0 <= e["sgn"] <= 255
    if e["k"] == "user":
      assert len(e["members"]) == 1 and len(e["members"][0]["tf"]) <= 112
      continue
    assert len(e["members"]) >= (2 if e["k"] == "cum" else 1) and (e["k"] == "cum" or len(e["members"]) == 1)
    for mem in e["members"]:
      assert 0 <= mem["sn"] <= 0xFFFF and 0 <= mem["vp"] <= 99 and 0 <= mem["jc"] <= 3
      assert tc_valid(g["dfc"], mem["tci"]) and tc_valid(g["dfc"], mem["tco"])
      assert tc_frames(g["dfc"], mem["tci"]) <= tc_frames(g["dfc"], mem["tco"])
      assert mem["lines"] and all(any(is_printable(t) for t in l) for l in mem["lines"])
      for l in mem["lines"]:
        for t in l:
          assert is_space(t) or is_code(t) or (is_printable(t) and token_char(g["cct"], t))
      text, bounds = member_text(mem)
      prev = 0
      for c in list(mem["cuts"]) + [len(text)]:
        assert c in bounds and prev <= c and c - prev <= 112, (mem["cuts"], len(text))
        prev = c
      assert len(mem["cuts"]) <= 0xF0  # extension blocks 00h..EFh and the last block FFh
      if mem.get("junk"):
        blk, junk = mem["junk"]
        chunks = chunk_list(mem)
        assert 0 <= blk < len(chunks) and len(chunks[blk]) + 1 + len(junk) <= 112
  return desc


def chunk_list(mem):
  text, _ = member_text(mem)
  pos = [0] + list(mem["cuts"]) + [len(text)]
  return [text[pos[i]:pos[i + 1]] for i in range(len(pos) - 1)]


def tti_block(sgn, sn, ebn, cs, tci, tco, vp, jc, cf, tf):
  assert len(tf) <= 112
  return struct.pack(TTI_FMT, sgn, sn, ebn, cs, tci[0], tci[1], tci[2], tci[3], tco[0], tco[1], tco[2], tco[3], vp, jc, cf,
                     tf + bytes([FILLER]) * (112 - len(tf)))


def tti_blocks(desc):
  out = []
  for e in desc["entries"]:
    if e["k"] == "user":
      u = e["members"][0]
      out.append(tti_block(e["sgn"], u["sn"], 0xFE, 0, [0, 0, 0, 0], [0, 0, 0, 0], 0, 0, 0, bytes(u["tf"])))
      continue
    n = len(e["members"])
    for i, mem in enumerate(e["members"]):
      cs = 0 if e["k"] != "cum" else (1 if i == 0 else 3 if i == n - 1 else 2)
      cf = 1 if e["k"] == "comment" else 0
      chunks = chunk_list(mem)
      for j, ch in enumerate(chunks):
        if mem.get("junk") and mem["junk"][0] == j:
          ch = ch + bytes([FILLER]) + bytes(mem["junk"][1])
        last = j == len(chunks) - 1
        if last and mem.get("ud"):
          out.append(tti_block(e["sgn"], mem["sn"], 0xFE, 0, [0, 0, 0, 0], [0, 0, 0, 0], 0, 0, 0, b"user data \x01\x8a\xc8a"))
        out.append(tti_block(e["sgn"], mem["sn"], 0xFF if last else j, cs, mem["tci"], mem["tco"], mem["vp"], mem["jc"], cf, ch))
  return out


def gsi_block(g, ntti, nsub, ngroups):
  def txt(n, s=""):
    return (s.encode("ascii") + b" " * n)[:n]
  def tc8(tc):
    return b"%02d%02d%02d%02d" % tuple(tc)
  t = g.get("txt", "")
  blk = struct.pack(
    GSI_FMT, txt(3, g["cpn"]), g["dfc"].encode("ascii"), g["dsc"].encode("ascii"), g["cct"].encode("ascii"), g["lc"].encode("ascii"),
    txt(32, t), txt(32, t[::-1]), txt(32, t.upper()), txt(32), txt(32, "1"), txt(32), txt(16, "AB-1234"), b"211231", b"220101", b"01",
    b"%05d" % max(0, ntti + g["tnb_delta"]), b"%05d" % max(0, nsub + g["tns_delta"]), b"%03d" % min(999, ngroups),
    b"%02d" % g["mnc"], b"%02d" % g["mnr"], g["tcs"].encode("ascii"), tc8(g["tcp"]), tc8(g["tcf"]), b"1", b"1", b"FRA",
    txt(32, t), txt(32), txt(32), b" " * 75, txt(576, t * 3))
  assert len(blk) == 1024
  return blk


def assemble(desc):
  validate(desc)
  blocks = tti_blocks(desc)
  nsub = sum(len(e["members"]) for e in desc["entries"] if e["k"] in ("sub", "cum"))
  groups = len({e["sgn"] for e in desc["entries"]})
  return gsi_block(desc["gsi"], len(blocks), nsub, groups) + b"".join(blocks)


# ------------------------------------------------------------------------------------------------ expectation

def is_teletext(dsc):
  return dsc in ("1", "2")


def gap_kind(seps, teletext):
  """classifies the tokens between two printable characters of a line:
  returns (kind, feature): kind 'joined' (nothing between), 'sep' (a space, or a teletext spacing attribute 00-1F in a teletext
  file: both occupy a blank cell), 'opt' (only codes whose spacing is not defined: 80-85 anywhere, 00-1F in open files)"""
  if not seps:
    return "joined", "none"
  nsp = sum(1 for t in seps if is_space(t))
  ncc = len(seps) - nsp
  if any(t in (0x08, 0x09, 0x0C) for t in seps):
    feature = "flash-steady-normal-height-code"
  elif nsp and ncc:
    feature = "space+code"
  elif nsp:
    feature = "single-space" if nsp == 1 else "double-space"
  else:
    feature = "single-code" if ncc == 1 else "code-run"
  if nsp or (teletext and any(t <= 0x1F for t in seps)):
    return "sep", feature
  return "opt", feature


def lines_expect(mem, dsc, cct):
  """expected lines of one subtitle: each line a list of cells
  [alternatives, fg, bg (None = not asserted), italic, underline, gap kind before, gap feature before]"""
  teletext = is_teletext(dsc)
  default_bg = BLACK if teletext else (TRANSPARENT if dsc == "0" else None)
  out = []
  fg, bg, it, ul = WHITE, default_bg, False, False
  for line in mem["lines"]:
    if teletext:
      fg, bg, it, ul = WHITE, default_bg, False, False    # every teletext row starts white on black
    cells = []
    seps = None   # None until the first printable cell of the line (leading blanks are free)
    for t in line:
      if is_printable(t):
        kind, feature = ("start", "none") if seps is None else gap_kind(seps, teletext)
        cells.append([token_char(cct, t), fg, bg, it, ul, kind, feature])
        seps = []
        continue
      if seps is not None:
        seps.append(t)
      if is_space(t):
        continue
      if 0 <= t <= 7:
        fg = t
      elif t == 0x1C:
        bg = BLACK
      elif t == 0x1D:
        bg = fg
      elif t == 0x85:
        bg = TRANSPARENT
      elif t == 0x84:
        bg = None         # boxing on: the colour of the box is not defined by Tech 3264
      elif t == 0x80:
        it = True
      elif t == 0x81:
        it = False
      elif t == 0x82:
        ul = True
      elif t == 0x83:
        ul = False
    out.append(cells)
  return out


def effective_rows(desc):
  g, cfg = desc["gsi"], desc["config"]
  if is_teletext(g["dsc"]) or cfg["max_row_count"] is None:
    return 23
  if cfg["max_row_count"] == "MNR":
    return g["mnr"]
  return cfg["max_row_count"]


def program_start(desc):
  g, cfg = desc["gsi"], desc["config"]
  s = cfg["program_start_tc"]
  if s is None:
    return Fraction(0)
  if s == "TCP":
    return tc_seconds(g["dfc"], g["tcp"])
  tc = [int(s[0:2]), int(s[3:5]), int(s[6:8]), int(s[9:11])]
  assert tc_valid(g["dfc"], tc)
  return tc_seconds(g["dfc"], tc)


def expected(desc):
  """What a conforming reader shows.  {"start", "body", "groups": [[sgn, [sub...]]...] in order of first surviving subtitle}
  sub = {"kind", "jc", "vp", "rows", "first_dropped", "members": [{"begin","end","lines","sn"}]} - only members not dropped"""
  g, cfg = desc["gsi"], desc["config"]
  start = program_start(desc)
  groups = []
  index = {}
  for ei, e in enumerate(desc["entries"]):
    if e["k"] not in ("sub", "cum"):
      continue      # user data and comments contribute nothing
    members = []
    for mi, mem in enumerate(e["members"]):
      b = tc_seconds(g["dfc"], mem["tci"]) - start
      en = tc_seconds(g["dfc"], mem["tco"]) - start
      if b < 0:
        continue
      members.append({"begin": b, "end": en, "lines": lines_expect(mem, g["dsc"], g["cct"]), "sn": mem["sn"], "mi": mi})
    if not members:
      continue
    first = e["members"][0]
    sub = {"kind": e["k"], "ei": ei, "jc": first["jc"], "vp": first["vp"],
           "rows": len(first["lines"]) * (2 if first.get("dh") else 1),
           "first_dropped": members[0]["mi"] != 0, "members": members, "nblk": max(len(m["cuts"]) + 1 for m in e["members"])}
    if e["sgn"] not in index:
      index[e["sgn"]] = len(groups)
      groups.append([e["sgn"], []])
    groups[index[e["sgn"]]][1].append(sub)
  fs = cfg["font_stack"]
  return {
    "start": start, "fps": DFC[g["dfc"]][0], "max_rows": effective_rows(desc),
    "body": {"fill_line_gap": not cfg["disable_fill_line_gap"], "line_padding": not cfg["disable_line_padding"],
             "font_family": FONT_STACKS[fs] if fs is not None else ("Verdana", "Arial", "Tiresias", "generic:sansSerif")},
    "groups": groups,
  }


# ------------------------------------------------------------------------------------------------ strategies

def profile(name="main"):
  p = {"name": name, "seps": "safe", "comments": False, "cumdrop": False, "junk": False, "other_codes": False, "max_entries": 6}
  if name == "spacing":
    p.update(seps="any", other_codes=True, max_entries=3)
  elif name == "comments":
    p.update(comments=True, max_entries=4)
  elif name == "cumdrop":
    p.update(cumdrop=True, max_entries=3)
  elif name == "filler":
    p.update(junk=True, max_entries=3)
  return p


def _pools(dsc, cct):
  asc, upper, pairs = printable_tokens(cct)
  letters = [b for b in asc if chr(b).isalnum()]
  if cct == "00":
    chars = st.one_of(st.sampled_from(letters), st.sampled_from(asc), st.sampled_from(upper), st.sampled_from(pairs))
  else:
    chars = st.one_of(st.sampled_from(letters), st.sampled_from(asc), st.sampled_from(upper), st.sampled_from(upper))
  return chars


def _code_pools(dsc, prof):
  """(mid-line codes, leading groups, trailing groups)"""
  colours = list(range(8))
  if is_teletext(dsc):
    mid = st.one_of(st.sampled_from(colours), st.sampled_from(colours + [0x1C, 0x1D]), st.sampled_from([0x80, 0x81, 0x82, 0x83, 0x1C, 0x1D]))
    lead = st.sampled_from([[], [], [0x0B, 0x0B], [0x0B], [SPACE, SPACE, 0x0B, 0x0B], [0x03, 0x1D, 0x04, 0x0B, 0x0B], [0x06],
                            [0x1C, 0x02, 0x0B], [SPACE], [0x01, 0x1D, 0x07, SPACE]])
    trail = st.sampled_from([[], [], [0x0A, 0x0A], [0x0A], [SPACE, 0x0A, 0x0A], [SPACE], [SPACE, SPACE]])
  else:
    mid = st.one_of(st.sampled_from([0x80, 0x81, 0x82, 0x83]), st.sampled_from([0x80, 0x81, 0x82, 0x83, 0x84, 0x85]),
                    st.sampled_from(colours), st.sampled_from([0x1C, 0x1D, 0x85]))
    lead = st.sampled_from([[], [], [0x80], [0x82], [0x80, 0x82], [SPACE], [0x84], [0x02], [0x05, 0x1D, 0x00], [SPACE, SPACE, 0x80]])
    trail = st.sampled_from([[], [], [0x81], [0x83], [0x85], [SPACE], [SPACE, 0x81, 0x83]])
  if prof["other_codes"] and is_teletext(dsc):
    mid = st.one_of(mid, mid, st.sampled_from([0x08, 0x09, 0x0C]))
  return mid, lead, trail


def _lines(dsc, cct, prof, dh):
  chars = _pools(dsc, cct)
  mid, lead, trail = _code_pools(dsc, prof)
  word = st.lists(chars, min_size=1, max_size=5)
  if cct in ("01", "02", "03"):
    # C1h-CFh are letters in these tables and non-spacing diacritical marks in ISO 6937: words that end with one of them, so that a
    # space or a control code follows it
    cx = [b for b in range(0xC1, 0xD0) if upper_8859(cct, b) is not None]
    word = st.one_of(word, st.builds(lambda w, c: w + [c], st.lists(chars, max_size=3), st.sampled_from(cx)))
  if prof["seps"] == "safe":
    # exactly one blank cell between words: a single space or a single control code
    sep = st.one_of(st.just([SPACE]), st.just([SPACE]), mid.map(lambda c: [c]))
  else:
    sep = st.one_of(st.just([SPACE]), st.just([SPACE, SPACE]), mid.map(lambda c: [c]), st.lists(st.one_of(st.just(SPACE), mid), min_size=2, max_size=3))

  def mk(ld, w0, rest, tr):
    line = list(ld)
    if dh:
      line = [0x0D] + line
    line += w0
    for s, w in rest:
      line += s + w
    return line + list(tr)

  line = st.builds(mk, lead, word, st.lists(st.tuples(sep, word), max_size=3), trail)
  return st.lists(line, min_size=1, max_size=2 if dh else 4)


@st.composite
def files(draw, prof):
  dfc = draw(st.sampled_from(DFCS))
  rate, n, d = DFC[dfc]
  dsc = draw(st.sampled_from(["1", "2", "1", "0", "0", " "]))
  cct = draw(st.sampled_from(["00", "00", "00", "01", "02", "03", "04"]))
  teletext = is_teletext(dsc)
  mnr = 23 if teletext and draw(st.integers(0, 3)) else draw(st.sampled_from([23, 11, 15, 30, 50, 99] if not teletext else [23, 20, 12]))
  file_rows = 23 if teletext else mnr
  day = frames_per_day(dfc)
  base = draw(st.sampled_from([0, 0, tc_frames(dfc, [1, 0, 0, 0]), tc_frames(dfc, [10, 0, 0, 0]),
                               tc_frames(dfc, [0, 0, 58, 0]), tc_frames(dfc, [0, 9, 59, 0]), tc_frames(dfc, [23, 59, 40, 0])]))
  base = min(base, day - 1)
  clock = base + draw(st.integers(0, 2 * n))
  sn = draw(st.sampled_from([0, 1, 1, 1, 250, 255, 256, 300, 40000, 65500]))
  nent = draw(st.integers(1, prof["max_entries"])) if draw(st.integers(0, 39)) else 0
  entries = []
  begins = []

  def advance(lo, hi):
    nonlocal clock
    clock = min(day - 1, clock + draw(st.integers(lo, hi)))
    return clock

  def member(vp_lo, rows_left):
    nonlocal sn
    dh = teletext and rows_left >= 2 and draw(st.integers(0, 4)) == 0
    lines = draw(_lines(dsc, cct, prof, dh))
    per = 2 if dh else 1
    lines = lines[:max(1, rows_left // per)]
    rows = len(lines) * per
    mem = {"sn": sn, "tci": None, "tco": None, "vp": None, "jc": draw(st.sampled_from([2, 2, 1, 3, 0])), "dh": dh, "lines": lines,
           "cuts": [], "trail_nl": draw(st.integers(0, 5)) == 0, "ud": False, "junk": None}
    sn = min(0xFFFF, sn + 1)
    text, bounds = member_text(mem)
    need = max(1, -(-len(text) // 100))
    nblk = max(need, draw(st.sampled_from([1, 1, 1, 2, 2, 3, 4])))
    if nblk > 1:
      cuts = even_cuts(mem, nblk)
      jit = draw(st.integers(-12, 12))
      if jit:
        cand = [max([b for b in bounds if b <= max(0, c + jit)]) for c in cuts]
        pos = [0] + cand + [len(text)]
        if all(0 <= pos[i + 1] - pos[i] <= 112 for i in range(len(pos) - 1)):
          cuts = cand
      mem["cuts"] = cuts
      mem["ud"] = draw(st.integers(0, 7)) == 0
      if draw(st.integers(0, 11)) == 0:
        # the longest chain there is: empty extension blocks first, so that the text ends in blocks EEh, EFh and FFh (seeded change C09-19)
        mem["cuts"] = [0] * (0xF0 - len(cuts)) + cuts
    return mem, rows

  def pick_vp(rows, lo=1):
    hi = max(lo, file_rows - rows + 1)
    return draw(st.one_of(st.integers(lo, hi), st.sampled_from([hi, max(lo, hi - 1), lo, min(hi, max(lo, file_rows // 2)),
                                                               min(hi, max(lo, file_rows // 2 - 1))])))

  for _ in range(nent):
    kind = draw(st.sampled_from(["sub", "sub", "sub", "sub", "cum", "user"] + (["comment", "comment"] if prof["comments"] else [])))
    if prof["cumdrop"] and not any(e["k"] == "cum" for e in entries) and len(entries) == min(1, nent - 1):
      kind = "cum"
    sgn = draw(st.sampled_from([0, 0, 0, 1, 1, 2, 255]))
    if kind == "user":
      tf = draw(st.lists(st.integers(0, 255), max_size=12))
      entries.append({"k": "user", "sgn": sgn, "members": [{"sn": max(0, sn - 1), "tf": tf}]})
      continue
    if kind in ("sub", "comment"):
      mem, rows = member(1, min(file_rows, 8))
      mem["vp"] = pick_vp(rows)
      gap = draw(st.sampled_from([0, 0, 1, 2, n, 3 * n, 70 * n])) if entries else 0
      if begins and draw(st.integers(0, 9)) == 0:
        clock = max(base, clock - draw(st.integers(1, 2 * n)))   # overlaps the previous subtitle
      t_in = advance(gap, gap)
      t_out = advance(*draw(st.sampled_from([(0, 0), (1, 1), (1, 4 * n), (1, 4 * n), (1, 4 * n), (n, 8 * n), (n, 8 * n), (2, 2 * n)])))
      mem["tci"], mem["tco"] = tc_label(dfc, t_in), tc_label(dfc, t_out)
      if kind == "sub":
        begins.append(t_in)
      entries.append({"k": kind, "sgn": sgn, "members": [mem]})
      continue
    # cumulative set: TCI increasing, TCO usually common (the set is cleared together)
    nm = draw(st.integers(2, 4))
    mems = []
    vp = pick_vp(min(file_rows, 2 * nm))
    advance(0, 2 * n)
    ins = []
    for i in range(nm):
      left = file_rows - vp + 1 - (nm - 1 - i)
      if left < 1:
        break
      mem, rows = member(vp, min(left, 3))
      mem["vp"] = vp
      vp += rows
      ins.append(advance(0 if i == 0 else 1, 3 * n))
      mems.append(mem)
    if len(mems) < 2:
      continue
    common = advance(0, 4 * n)
    own = draw(st.integers(0, 4)) == 0
    for mem, t_in in zip(mems, ins):
      t_out = draw(st.integers(t_in, common)) if own else common
      mem["tci"], mem["tco"] = tc_label(dfc, t_in), tc_label(dfc, t_out)
    begins.append(ins[0])
    if prof["cumdrop"]:
      begins.append(ins[1])
    entries.append({"k": "cum", "sgn": sgn, "members": mems, "cd": ins})

  # programme start: none, the GSI TCP, or an explicit label; placed relative to the subtitles so that some are dropped
  kind = draw(st.sampled_from(["none", "none", "tcp", "tcp", "explicit", "explicit"]))
  cds = [e.pop("cd") for e in entries if "cd" in e]
  if prof["cumdrop"] and cds:
    kind = draw(st.sampled_from(["tcp", "explicit"]))
    a, b = cds[0][0], cds[0][-1]
    start = draw(st.integers(a + 1, b)) if b > a else b
  elif begins and draw(st.integers(0, 2)):
    k = draw(st.sampled_from(begins))
    start = max(0, min(day - 1, k + draw(st.sampled_from([0, 0, -1, 1, -n, 5 * n, -3600 * n]))))
  else:
    start = draw(st.sampled_from([0, base, min(day - 1, clock + 1)]))
  if not prof["cumdrop"]:
    # a programme start inside a cumulative set (first member dropped, a later one shown) is left to the cumdrop profile
    for ins in cds:
      if ins[0] < start <= ins[-1]:
        start = ins[0]
  tcp = tc_label(dfc, start) if kind == "tcp" else tc_label(dfc, draw(st.sampled_from([0, base])))
  if kind == "none":
    pst = None
  elif kind == "tcp":
    pst = "TCP"
  else:
    pst = tc_string(tc_label(dfc, start), ";" if d and draw(st.integers(0, 2)) == 0 else ":")
  if teletext:
    mrc = draw(st.sampled_from([None, None, "MNR", 23, 11]))
  else:
    mrc = draw(st.sampled_from([None, "MNR", "MNR", mnr, mnr, 23]))
  config = {"program_start_tc": pst, "max_row_count": mrc,
            "disable_fill_line_gap": draw(st.booleans()), "disable_line_padding": draw(st.booleans()),
            "font_stack": draw(st.sampled_from([None, None] + sorted(FONT_STACKS)))}
  gsi = {"cpn": draw(st.sampled_from(["850", "437", "860", "863", "865"])), "dfc": dfc, "dsc": dsc, "cct": cct,
         "lc": draw(st.sampled_from(["09", "0F", "08", "56", "7E", "70", "6C", "00", "3F"])),
         "mnc": draw(st.sampled_from([40, 40, 38, 60, 99])), "mnr": mnr, "tcs": draw(st.sampled_from(["1", "1", "0"])),
         "tcp": tcp, "tcf": tc_label(dfc, begins[0]) if begins else [0, 0, 0, 0],
         "tnb_delta": draw(st.sampled_from([0, 0, 0, 0, 1, 7])), "tns_delta": draw(st.sampled_from([0, 0, 0, 1, -1])),
         "txt": draw(st.sampled_from(["", "Programme", "Test 42"]))}
  if prof["junk"]:
    subs = [m for e in entries if e["k"] in ("sub", "cum") for m in e["members"]]
    for mem in subs:
      if draw(st.integers(0, 1)):
        chunks = chunk_list(mem)
        blk = draw(st.integers(0, len(chunks) - 1))
        room = 112 - len(chunks[blk]) - 1
        if room >= 1:
          junk = draw(st.lists(st.sampled_from([0x41, 0x42, 0x7A, SPACE, FILLER, 0x01, NEWLINE, 0x58]), min_size=1, max_size=min(room, 6)))
          mem["junk"] = [blk, junk]
  return validate({"gsi": gsi, "entries": entries, "config": config})


# ------------------------------------------------------------------------------------------------ simplification (greedy shrinker)

def _valid(d):
  try:
    validate(d)
    program_start(d)
    return True
  except (AssertionError, KeyError, ValueError, IndexError):
    return False


def _copy(d):
  import copy
  return copy.deepcopy(d)


def simplifications(desc):
  """simpler well-formed descriptions, most aggressive first"""
  out = []
  ents = desc["entries"]
  for i in range(len(ents)):
    c = _copy(desc)
    del c["entries"][i]
    out.append(c)
  for k, v in CONFIG_DEFAULT.items():
    if desc["config"].get(k) != v:
      c = _copy(desc)
      c["config"][k] = v
      out.append(c)
  for k, v in GSI_DEFAULT.items():
    if desc["gsi"].get(k) != v:
      c = _copy(desc)
      c["gsi"][k] = v
      out.append(c)
  for i, e in enumerate(ents):
    if e["k"] == "user":
      if e["members"][0]["tf"]:
        c = _copy(desc)
        c["entries"][i]["members"][0]["tf"] = []
        out.append(c)
      continue
    if e["sgn"]:
      c = _copy(desc)
      c["entries"][i]["sgn"] = 0
      out.append(c)
    if e["k"] == "cum" and len(e["members"]) > 2:
      for j in range(len(e["members"])):
        c = _copy(desc)
        del c["entries"][i]["members"][j]
        out.append(c)
    if e["k"] == "cum":
      for j in range(len(e["members"])):
        c = _copy(desc)
        c["entries"][i] = {"k": "sub", "sgn": e["sgn"], "members": [c["entries"][i]["members"][j]]}
        out.append(c)
    for j, mem in enumerate(e["members"]):
      def edit(fn, i=i, j=j):
        c = _copy(desc)
        m = c["entries"][i]["members"][j]
        fn(m)
        text, _b = member_text(m)
        nblk = len(m["cuts"]) + 1
        if m.get("junk"):
          pass
        m["cuts"] = even_cuts(m, max(nblk, -(-len(text) // 100))) if nblk > 1 or len(text) > 112 else []
        out.append(c)
      if mem["cuts"]:
        edit(lambda m: m.update(cuts=[], junk=None))
      for key, val in (("dh", False), ("trail_nl", False), ("ud", False), ("junk", None), ("jc", 2), ("sn", 1)):
        if mem.get(key) != val:
          edit(lambda m, key=key, val=val: m.update({key: val}))
      if len(mem["lines"]) > 1:
        for li in range(len(mem["lines"])):
          edit(lambda m, li=li: m["lines"].pop(li))
      for li, line in enumerate(mem["lines"]):
        if len(line) > 2:
          h = len(line) // 2
          edit(lambda m, li=li, h=h: m["lines"].__setitem__(li, m["lines"][li][:h]))
          edit(lambda m, li=li, h=h: m["lines"].__setitem__(li, m["lines"][li][h:]))
        for ti in range(len(line)):
          edit(lambda m, li=li, ti=ti: m["lines"][li].pop(ti))
        for ti, t in enumerate(line):
          if is_printable(t) and t != 0x41:
            edit(lambda m, li=li, ti=ti: m["lines"][li].__setitem__(ti, 0x41))
      for key in ("tci", "tco"):
        if mem[key][0]:
          edit(lambda m, key=key: m[key].__setitem__(0, 0))
  return [c for c in out if _valid(c)]


# ------------------------------------------------------------------------------------------------ self test

def selftest():
  import vt.ref_timecode as rtc
  # diacritic compositions are single code points and distinct
  seen = set()
  for d, (mark, letters) in DIACRITICS.items():
    for l in letters:
      c = unicodedata.normalize("NFC", l + mark)
      assert len(c) == 1 and c not in seen and ord(c) > 0x7F, (hex(d), l)
      seen.add(c)
  assert token_char("00", [0xC8, ord("a")]) == "ä" and token_char("00", [0xCF, ord("s")]) == "š"
  assert token_char("00", [0xCB, ord("c")]) == "ç" and token_char("00", [0xC2, ord("e")]) == "é"
  # 8859 formulas against a few well-known cells
  assert upper_8859("01", 0xB0) == "А" and upper_8859("01", 0xEF) == "я" and upper_8859("01", 0xA1) == "Ё"
  assert upper_8859("03", 0xC1) == "Α" and upper_8859("03", 0xF9) == "ω" and upper_8859("03", 0xD2) is None
  assert upper_8859("04", 0xE0) == "א" and upper_8859("04", 0xFA) == "ת"
  assert upper_8859("02", 0xC7) == "ا" and upper_8859("02", 0xE4) == "ل"
  # time codes: agrees with the shared integer SMPTE reference where that one is defined, inverse everywhere
  for dfc, (rate, n, d) in DFC.items():
    for c in list(range(0, 4000)) + list(range(17000, 19000)) + [frames_per_day(dfc) - 1, 107892, 1234567]:
      c = min(c, frames_per_day(dfc) - 1)
      l = tc_label(dfc, c)
      assert tc_valid(dfc, l) and tc_frames(dfc, l) == c, (dfc, c, l)
      if rate in rtc.RATES:
        assert tuple(l) == rtc.label(rate, c)
  assert tc_label("STL30.01", 1800) == [0, 1, 0, 2] and tc_label("STL23.01", 24 * 60) == [0, 1, 0, 0]
  assert tc_seconds("STL23.01", [0, 0, 1, 0]) == Fraction(1001, 1000) and tc_seconds("STL25.01", [10, 0, 0, 12]) == 36000 + Fraction(12, 25)
  # assembling: field offsets of Tech 3264
  d = {"gsi": dict(GSI_DEFAULT, tcp=[10, 0, 0, 0], mnr=23), "config": dict(CONFIG_DEFAULT),
       "entries": [{"k": "sub", "sgn": 2, "members": [
         {"sn": 258, "tci": [10, 0, 1, 2], "tco": [10, 0, 3, 4], "vp": 20, "jc": 1, "dh": False,
          "lines": [[0x0B, 0x0B, 0x41, SPACE, [0xC8, 0x61], 0x01, 0x42], [0x43]], "cuts": [4], "trail_nl": False, "ud": False, "junk": None}]}]}
  b = assemble(d)
  assert len(b) == 1024 + 256
  assert b[0:3] == b"850" and b[3:11] == b"STL25.01" and b[11:12] == b"1" and b[12:14] == b"00" and b[14:16] == b"09"
  assert b[238:243] == b"00002" and b[243:248] == b"00001" and b[253:255] == b"23" and b[256:264] == b"10000000"
  t1, t2 = b[1024:1152], b[1152:1280]
  assert t1[0] == 2 and t1[1:3] == b"\x02\x01" and t1[3] == 0 and t1[4] == 0 and t1[5:9] == bytes([10, 0, 1, 2]) and t1[9:13] == bytes([10, 0, 3, 4])
  assert t1[13] == 20 and t1[14] == 1 and t1[15] == 0 and t1[16:20] == b"\x0b\x0bA " and t1[20:] == b"\x8f" * 108
  assert t2[3] == 0xFF and t2[16:23] == b"\xc8a\x01B\x8aC\x8f"
  ex = expected(d)
  cells = ex["groups"][0][1][0]["members"][0]["lines"]
  assert [c[0] for c in cells[0]] == ["A", "ä", "B"] and [c[5] for c in cells[0]] == ["start", "sep", "sep"]
  assert [c[1] for c in cells[0]] == [WHITE, WHITE, RED] and cells[1][0][1] == WHITE and cells[0][0][2] == BLACK
  assert ex["groups"][0][1][0]["members"][0]["begin"] == 36001 + Fraction(2, 25)
  d["config"]["program_start_tc"] = "TCP"
  assert expected(d)["groups"][0][1][0]["members"][0]["begin"] == 1 + Fraction(2, 25)
  d["config"]["program_start_tc"] = "10:00:02:00"
  assert expected(d)["groups"] == []
  # byte-exact reproduction of the TTI blocks of a file bundled with the repository (layout calibration)
  import os
  path = os.path.join(os.environ.get("VT_REPO", "/repo"), "src/test/resources/stl/sandflow/cumulative_set.stl")
  if os.path.exists(path):
    with open(path, "rb") as f:
      ref = f.read()
    def mem(sn, tci, tco, vp, text):
      return {"sn": sn, "tci": tci, "tco": tco, "vp": vp, "jc": 2, "dh": False, "lines": [[0x0D, 0x0B, 0x0B] + list(text) + [0x0A]],
              "cuts": [], "trail_nl": False, "ud": False, "junk": None}
    c = {"gsi": dict(GSI_DEFAULT), "config": dict(CONFIG_DEFAULT), "entries": [
      {"k": "sub", "sgn": 1, "members": [mem(1, [0, 0, 0, 1], [0, 0, 1, 0], 22, b"Not part of cumulative set.")]},
      {"k": "cum", "sgn": 1, "members": [mem(2, [0, 0, 2, 0], [0, 0, 7, 0], 1, b"1 "), mem(3, [0, 0, 3, 0], [0, 0, 7, 0], 3, b"2 "),
                                         mem(4, [0, 0, 4, 0], [0, 0, 7, 0], 5, b"3 "), mem(5, [0, 0, 5, 0], [0, 0, 7, 0], 7, b"4 ")]}]}
    mine = assemble(c)
    assert mine[1024:] == ref[1024:], "TTI layout differs from the bundled cumulative_set.stl"
    assert mine[0:16] == ref[0:16] and mine[253:264] == ref[253:264]
