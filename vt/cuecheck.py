"""Expected SRT / WebVTT cues derived from the reference interpreter, and comparison with strictly parsed writer output.

Shared by C06 (text and intervals) and C07 (grammar, style runs, cue settings).
"""
import re
from fractions import Fraction

import ttconv.style_properties as s
from ttconv.isd import ISD

from vt import cueparse
from vt.ref_isd import Ref, XML_SPACE

WHITE = (255, 255, 255, 255)


def hexcolor(c):
  return "#%02x%02x%02x%02x" % tuple(c.components)


class Ch:
  """one expected output character with the computed style of the text node it comes from"""
  __slots__ = ("c", "bold", "italic", "underline", "color", "bg", "leaf", "bold_anc", "italic_anc", "underline_anc", "oblique")

  def __init__(self, c, st, leaf):
    self.c = c
    self.leaf = leaf
    (self.bold, self.italic, self.underline, self.color, self.bg, self.bold_anc, self.italic_anc, self.underline_anc,
     self.oblique) = st


def leaf_style(sn, leaf):
  """(bold, italic, underline, colour or None, background or None, ...ancestor flags) for a text leaf"""
  kinds = [(eid, sn.elements[eid][0]["kind"], sn.elements[eid][1]) for eid in leaf.chain]
  cc = kinds[-1][2]
  bold = cc["FontWeight"] is s.FontWeightType.bold
  italic = cc["FontStyle"] is s.FontStyleType.italic
  oblique = cc["FontStyle"] is s.FontStyleType.oblique
  underline = bool(cc["TextDecoration"][0])
  color = None if tuple(cc["Color"].components) == WHITE else hexcolor(cc["Color"])
  bg = None
  spans = [c for (_e, k, c) in kinds if k == "span"]
  for c in spans:
    if tuple(c["BackgroundColor"].components) != (0, 0, 0, 0):   # differs from the default (transparent black)
      bg = hexcolor(c["BackgroundColor"])
  anc = spans[:-1] if kinds[-1][1] == "span" else spans
  return (bold, italic, underline, color, bg,
          any(c["FontWeight"] is s.FontWeightType.bold for c in anc),
          any(c["FontStyle"] is s.FontStyleType.italic for c in anc),
          any(c["TextDecoration"][0] for c in anc), oblique)


def collapse_chars(chars):
  """TTML default white-space handling of one line given as a list of Ch: runs of XML white space -> one space, none at the edges"""
  out = []
  pending = None
  for ch in chars:
    if ch.c in XML_SPACE:
      if out and pending is None:
        pending = ch
      continue
    if pending is not None:
      pending.c = " "
      out.append(pending)
      pending = None
    out.append(ch)
  return out


class Para:
  def __init__(self, pid):
    self.pid = pid
    self.lines = [[]]
    self.exact = True        # all text in default white-space mode: the exact text is determined
    self.text_align = None
    self.direction = None
    self.flags = set()
    self.hidden = set()     # word tokens of text with computed tts:visibility hidden


def region_paragraphs(sn):
  """paragraphs of one reference region snapshot with their expected lines (lists of Ch)"""
  kinds = {eid: n["kind"] for eid, (n, _c) in sn.elements.items()}
  paras = []
  cur = None
  div_seen = []
  for leaf in sn.leaves:
    ks = [kinds[e] for e in leaf.chain if e in kinds]
    if "p" not in ks:
      continue
    if any(k in ("rt", "rtc", "rp") for k in ks):
      continue                                  # ruby annotation and delimiters are not part of the visible base text
    pid = [e for e in leaf.chain if kinds.get(e) == "p"][-1]
    if cur is None or cur.pid != pid:
      cur = Para(pid)
      cc = sn.elements[pid][1]
      cur.text_align, cur.direction = cc["TextAlign"], cc["Direction"]
      divs = [e for e in leaf.chain if kinds.get(e) == "div"]
      if len(divs) > 1:
        cur.flags.add("nested-div")
      if divs and divs[0] not in div_seen:
        div_seen.append(divs[0])
      if divs and div_seen.index(divs[0]) > 0:
        cur.flags.add("second-div")
      paras.append(cur)
    if leaf.kind == "br":
      cur.lines.append([])
      continue
    if leaf.preserve:
      cur.exact = False
    if sn.elements[leaf.chain[-1]][1].get("Visibility") is s.VisibilityType.hidden:
      # tts:visibility="hidden": the text keeps its place in the layout but is not visible; the white space around it is not asserted
      cur.exact = False
      cur.hidden.update(tokens_of(leaf.text))
      continue
    st = leaf_style(sn, leaf)
    in_rb = any(k in ("rb", "rbc", "ruby") for k in ks)
    for c in leaf.text:
      ch = Ch(c, st, (leaf.chain, "ruby-base" if in_rb else None))
      if leaf.preserve and c in "\n\r":        # CR: a line terminator in both output formats, see cueparse
        if c == "\r":
          cur.flags.add("cr")
        cur.lines.append([])
      else:
        cur.lines[-1].append(ch)
  for p in paras:
    if p.exact:
      p.lines = [collapse_chars(l) for l in p.lines]
  return paras


class ECue:
  def __init__(self, begin, end, unbounded):
    self.begin, self.end, self.unbounded = begin, end, unbounded
    self.lines = []       # list of list of Ch
    self.exact = True
    self.paras = []
    self.region = None
    self.region_index = 0
    self.p_count = 0        # number of active, associated, displayed p elements in the region(s) this cue stands for


def round_ms(t):
  """the millisecond values nearest to t (two candidates at an exact half)"""
  x = t * 1000
  f = x.numerator // x.denominator
  r = x - f
  if r * 2 < 1:
    return {Fraction(f, 1000)}
  if r * 2 > 1:
    return {Fraction(f + 1, 1000)}
  return {Fraction(f, 1000), Fraction(f + 1, 1000)}


HIDDEN_TOKENS = set()    # word tokens hidden by tts:visibility in the document of the last expected_cues() call


def expected_cues(doc, spec, per_region):
  """expected cues, in order: one per significant interval (and per region when per_region) holding non-blank text"""
  HIDDEN_TOKENS.clear()
  ref = Ref(spec)
  sig = list(ISD.significant_times(doc))
  out = []
  for i, t in enumerate(sig):
    end = sig[i + 1] if i + 1 < len(sig) else None
    snaps = [sn for sn in ref.snapshot(t)]
    groups = []
    nonempty = 0
    for sn in snaps:
      paras = region_paragraphs(sn)
      if not paras:
        continue
      nonempty += 1
      if nonempty > 1:
        for p in paras:
          p.flags.add("second-region")
      npar = sum(1 for (n, _c) in sn.elements.values() if n["kind"] == "p")
      if per_region or not groups:
        groups.append([sn, list(paras), npar])
      else:
        groups[0][1].extend(paras)
        groups[0][2] += npar
    if not per_region and groups:
      groups[0][2] = sum(1 for x in snaps for (n, _c) in x.elements.values() if n["kind"] == "p")
    for gi, (sn, paras, npar) in enumerate(groups):
      cue = ECue(t, end, end is None)
      cue.p_count = npar
      cue.region = sn
      cue.region_index = gi
      cue.paras = paras
      HIDDEN_TOKENS.update(t for p in paras for t in p.hidden)
      for p in paras:
        cue.exact = cue.exact and p.exact
        for l in p.lines:
          if l:
            cue.lines.append(l)
            for ch in l:
              ch.leaf = ch.leaf + (tuple(sorted(p.flags)),)
      text = "\n".join("".join(ch.c for ch in l) for l in cue.lines)
      if text == "" or text.isspace():
        continue
      out.append(cue)
  return out, sig


def resolve_sub_ms(exp):
  """(cues that must be written, number of cues that cannot be written, ambiguous): a cue whose begin and end round to the same
  millisecond has no SRT / WebVTT representation (begin < end is required) and is left out; one that is shorter than a millisecond
  but crosses a rounding boundary is written with a duration of 1 ms.  Ambiguous = an end point sits exactly on a half millisecond
  and one of its two roundings would make the cue empty."""
  keep, dropped, ambiguous = [], 0, False
  for c in exp:
    if c.unbounded:
      keep.append(c)
      continue
    b, e = round_ms(c.begin), round_ms(c.end)
    if b & e:
      if len(b) == 1 and len(e) == 1:
        dropped += 1
      else:
        ambiguous = True
      continue
    keep.append(c)
  return keep, dropped, ambiguous


def tokens_of(text):
  return re.findall(r"w\d+", text)


def compare_text(exp, cues, res, fmt, grouped):
  """C06: number, order, times and payload lines of the cues"""
  # a cue without any non-blank character (only tags and white space, e.g. "<i> </i>") stands for an interval in which no non-blank
  # text is visible: the statement has no such cue.  Lines of that kind inside a cue that also holds text are ignored on both sides.
  blank = [c for c in cues if not any(l.strip() for l in c.lines)]
  if blank:
    res.fail("%s:blank-cue" % fmt, "cue %s --> %s holds no non-blank text: %r" % (blank[0].begin, blank[0].end, blank[0].raw_lines))
  cues = [c for c in cues if any(l.strip() for l in c.lines)]
  for c in cues:
    keep = [i for i, l in enumerate(c.lines) if l.strip() != ""]
    c.lines = [c.lines[i] for i in keep]
    c.styles = [c.styles[i] for i in keep]
  for e in exp:
    e.lines = [l for l in e.lines if "".join(ch.c for ch in l).strip() != ""]
  from collections import Counter
  etoks = [t for c in exp for l in c.lines for t in tokens_of("".join(ch.c for ch in l))]
  otoks = [t for c in cues for l in c.lines for t in tokens_of(l)]
  if etoks != otoks:
    ce, co = Counter(etoks), Counter(otoks)
    lost = sorted((ce - co).elements())
    extra = sorted((co - ce).elements())
    if lost:
      where = "other"
      for c in exp:
        for l in c.lines:
          txt = "".join(ch.c for ch in l)
          for t in lost:
            k = txt.find(t)
            if k >= 0 and not txt[k + len(t):k + len(t) + 1].isdigit():
              ch = l[k]
              flags = set(ch.leaf[2]) | ({ch.leaf[1]} if ch.leaf[1] else set())
              for f in ("ruby-base", "second-region", "second-div", "nested-div"):
                if f in flags:
                  where = f
                  break
              break
          if where != "other":
            break
        if where != "other":
          break
      res.fail("%s:lost-text:%s" % (fmt, where), "lost %r" % lost[:5])
    elif extra and set(extra) <= HIDDEN_TOKENS:
      res.fail("%s:hidden-text-written" % fmt, "text with computed tts:visibility=hidden is in the output: %r" % extra[:5])
    elif extra:
      res.fail("%s:%s" % (fmt, "repeated-text" if set(extra) <= set(etoks) else "invented-text"), "extra %r" % extra[:5])
    else:
      res.fail("%s:order" % fmt, "expected %r got %r" % (etoks[:8], otoks[:8]))
    return False
  if len(exp) != len(cues):
    res.fail("%s:cue-count" % fmt, "expected %d cues, got %d: %r vs %r" % (
      len(exp), len(cues), [(str(c.begin), ["".join(ch.c for ch in l) for l in c.lines]) for c in exp][:4], cues[:4]))
    return False
  ok = True
  for e, c in zip(exp, cues):
    if c.begin not in round_ms(e.begin):
      res.fail("%s:time:begin" % fmt, "cue begins %s, interval begins %s" % (c.begin, e.begin))
      ok = False
    if e.unbounded:
      if c.end != c.begin + 10:
        res.fail("%s:default-end" % fmt, "unbounded cue %s --> %s" % (c.begin, c.end))
        ok = False
    elif c.end not in round_ms(e.end):
      res.fail("%s:time:end" % fmt, "cue ends %s, interval ends %s" % (c.end, e.end))
      ok = False
    elines = ["".join(ch.c for ch in l) for l in e.lines]
    if e.exact:
      if elines != c.lines:
        res.fail("%s:line-structure" % fmt if [x for l in elines for x in tokens_of(l)] == [x for l in c.lines for x in tokens_of(l)]
                 and "".join(elines).replace(" ", "") == "".join(c.lines).replace(" ", "") else "%s:text" % fmt,
                 "expected lines %r got %r" % (elines, c.lines))
        ok = False
    else:
      a = "".join(ch for l in elines for ch in l if not ch.isspace())
      b = "".join(ch for l in c.lines for ch in l if not ch.isspace())
      if a != b:
        res.fail("%s:text:preserve" % fmt, "expected %r got %r" % (elines, c.lines))
        ok = False
  return ok


def compare_styles(exp, cues, res, fmt, css=None, text_formatting=True):
  """C07 clause 2/3: per-character style runs recovered from the tags vs the computed styles"""
  for e, c in zip(exp, cues):
    echars = [ch for l in e.lines for ch in l if not ch.c.isspace()]
    ochars = [(ch, st) for l, sts in zip(c.lines, c.styles) for ch, st in zip(l, sts) if not ch.isspace()]
    if [x.c for x in echars] != [x[0] for x in ochars]:
      return          # text mismatch is C06's business
    for x, (ch, st) in zip(echars, ochars):
      if not text_formatting:
        if st["bold"] or st["italic"] or st["underline"] or st["color"] or st["bg"]:
          res.fail("%s:style:tags-with-formatting-disabled" % fmt, repr(c.raw_lines)[:200])
        continue
      for name, want, got, anc in (("bold", x.bold, st["bold"], x.bold_anc), ("italic", x.italic, st["italic"], x.italic_anc),
                                   ("underline", x.underline, st["underline"], x.underline_anc)):
        if name == "italic" and x.oblique:
          continue
        if want != got:
          feature = "missing" if want else ("reset-inside-styled-parent" if anc else "spurious")
          res.fail("%s:style:%s:%s" % (fmt, name, feature), "char %r in %r: computed %s, tags say %s" % (ch, c.raw_lines, want, got))
      got_color = st["color"]
      got_bg = st["bg"]
      if fmt == "vtt":
        got_color = cueparse.vtt_class_color(got_color, css, "color") if got_color else None
        got_bg = cueparse.vtt_class_color(got_bg, css, "background-color") if got_bg else None
        if st["color"] and got_color is None:
          res.fail("vtt:style:class-without-rule", "class %s has no ::cue rule in the STYLE block: %r" % (st["color"], c.raw_lines))
        if st["bg"] and got_bg is None:
          res.fail("vtt:style:class-without-rule", "class %s has no ::cue rule in the STYLE block: %r" % (st["bg"], c.raw_lines))
      if got_color == "#ffffffff":
        got_color = None
      if (x.color or None) != (got_color or None):
        res.fail("%s:style:color:%s" % (fmt, "missing" if x.color and not got_color else "wrong"),
                 "char %r in %r: computed %s, tags say %s" % (ch, c.raw_lines, x.color, got_color))
      if fmt == "vtt" and (x.bg or None) != (got_bg or None):
        res.fail("vtt:style:background:%s" % ("missing" if x.bg and not got_bg else "wrong"),
                 "char %r in %r: computed %s, tags say %s" % (ch, c.raw_lines, x.bg, got_bg))
