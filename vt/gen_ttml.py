"""TTML descriptions: Hypothesis strategies, XML serialisation and an independent TTML2/IMSC 1.1 translation into a DocSpec.

A *description* is plain data (dict / list / str / Fraction / ttconv style value types):

  desc  = {"ns": {...prefixes, quote, pretty}, "tt": {...document parameters}, "initials": [[attr...]...],
           "styles": [{"id", "refs": [id...], "attrs": [attr...]}...], "regions": [elem...], "body": elem | None}
  elem  = {"kind": body|div|p|span|br|region, "id", "ruby": None|tts:ruby token, "tc": None|"par"|"seq",
           "begin"/"dur"/"end": None | time, "region": None|id, "refs": [style id...], "attrs": [attr...], "nested": [[attr...]...],
           "space": None|"default"|"preserve", "lang": None|str, "sets": [{"begin","dur","end","attr"}...], "kids": [elem|text...],
           "spare": time}            (spare: a positive duration the generator uses when it has to make an element definite)
  text  = {"kind": "text", "text": str}
  attr  = {"p": PropName, "v": model value meant, "x": the attribute value as written}
  time  = {"v": Fraction (seconds) meant, "x": the time expression as written}

Every value is generated *structured* ("v") and written in one of its legal syntactic forms ("x") at generation time, so the meaning
of the XML is known by construction and no parser is needed on the oracle side.

  to_xml(desc, corrupt=None) -> str        string building, independent of ElementTree
  to_docspec(desc)           -> DocSpec    TTML2 section 12 (timing, SMIL par/seq), 10.4 (style resolution), IMSC 1.1

Nothing in here imports the IMSC reader; only the style value *types* of ttconv.style_properties are used.
"""
from fractions import Fraction as F
import dataclasses
import math

import random

from hypothesis import strategies as hst

import ttconv.style_properties as s

from vt import gen_model

U = s.LengthType.Units

# namespaces, written from TTML2 section 5.1 / IMSC 1.1 section 5.3 / EBU-TT-D
NSURI = {
  "tt": "http://www.w3.org/ns/ttml",
  "ttp": "http://www.w3.org/ns/ttml#parameter",
  "tts": "http://www.w3.org/ns/ttml#styling",
  "ttm": "http://www.w3.org/ns/ttml#metadata",
  "ittp": "http://www.w3.org/ns/ttml/profile/imsc1#parameter",
  "itts": "http://www.w3.org/ns/ttml/profile/imsc1#styling",
  "ebutts": "urn:ebu:tt:style",
}
FOREIGN_NS = "http://example.com/ns/vt-extension"

# style attribute of each model property: (namespace key, local name)
PROP_ATTR = {n: ("tts", n[0].lower() + n[1:]) for n in gen_model.ALL_PROPS}
PROP_ATTR["FillLineGap"] = ("itts", "fillLineGap")
PROP_ATTR["LinePadding"] = ("ebutts", "linePadding")
PROP_ATTR["MultiRowAlign"] = ("ebutts", "multiRowAlign")

# enumerated style values: TTML2 / IMSC 1.1 tokens (hand written; selftest() checks that every model enum member is covered)
TOKENS = {
  "Direction": ["ltr", "rtl"],
  "Display": ["auto", "none"],
  "DisplayAlign": ["before", "center", "after"],
  "FontStyle": ["normal", "italic", "oblique"],
  "FontWeight": ["normal", "bold"],
  "MultiRowAlign": ["start", "center", "end", "auto"],
  "Overflow": ["visible", "hidden"],
  "RubyAlign": ["center", "spaceAround"],
  "RubyPosition": ["before", "after", "outside"],
  "ShowBackground": ["always", "whenActive"],
  "TextAlign": ["start", "center", "end"],
  "TextCombine": ["none", "all"],
  "UnicodeBidi": ["normal", "embed", "bidiOverride"],
  "Visibility": ["visible", "hidden"],
  "WrapOption": ["wrap", "noWrap"],
  "WritingMode": ["lrtb", "rltb", "tbrl", "tblr"],
}
ENUM_TYPE = {
  "Direction": s.DirectionType, "Display": s.DisplayType, "DisplayAlign": s.DisplayAlignType, "FontStyle": s.FontStyleType,
  "FontWeight": s.FontWeightType, "MultiRowAlign": s.MultiRowAlignType, "Overflow": s.OverflowType, "RubyAlign": s.RubyAlignType,
  "RubyPosition": s.AnnotationPositionType, "ShowBackground": s.ShowBackgroundType, "TextAlign": s.TextAlignType,
  "TextCombine": s.TextCombineType, "UnicodeBidi": s.UnicodeBidiType, "Visibility": s.VisibilityType,
  "WrapOption": s.WrapOptionType, "WritingMode": s.WritingModeType,
}
# TTML2 10.2.x aliases: tts:writingMode lr = lrtb, rl = rltb, tb = tbrl; tts:textAlign left/right = start/end (left-to-right only)
ALIASES = {("WritingMode", "lrtb"): "lr", ("WritingMode", "rltb"): "rl", ("WritingMode", "tbrl"): "tb",
           ("TextAlign", "start"): "left", ("TextAlign", "end"): "right"}
# TTML2 10.3.? <named-color>
NAMED = {
  (0, 0, 0, 0): ["transparent"], (0, 0, 0, 255): ["black"], (192, 192, 192, 255): ["silver"], (128, 128, 128, 255): ["gray"],
  (255, 255, 255, 255): ["white"], (128, 0, 0, 255): ["maroon"], (255, 0, 0, 255): ["red"], (128, 0, 128, 255): ["purple"],
  (255, 0, 255, 255): ["fuchsia", "magenta"], (0, 128, 0, 255): ["green"], (0, 255, 0, 255): ["lime"], (128, 128, 0, 255): ["olive"],
  (255, 255, 0, 255): ["yellow"], (0, 0, 128, 255): ["navy"], (0, 0, 255, 255): ["blue"], (0, 128, 128, 255): ["teal"],
  (0, 255, 255, 255): ["aqua", "cyan"],
}
RUBY_TOKEN = {"ruby": "container", "rb": "base", "rt": "text", "rp": "delimiter", "rbc": "baseContainer", "rtc": "textContainer"}

LATTICE = [F(0), F(1, 3), F(1, 2), F(1), F(3, 2), F(2), F(5, 2), F(3), F(4), F(5), F(7), F(10)]
LATTICE_POS = LATTICE[1:]

REGION_PROPS = ["BackgroundColor", "Display", "DisplayAlign", "Extent", "Opacity", "Origin", "Overflow", "Padding", "Position",
                "ShowBackground", "Visibility", "WritingMode", "LuminanceGain", "Disparity"]
CONTENT_PROPS = [p for p in gen_model.ALL_PROPS if p not in ("Extent", "Origin", "Position", "Disparity", "LuminanceGain", "Overflow",
                                                              "ShowBackground", "DisplayAlign", "Padding", "WritingMode")]

DEFAULT_PROFILE = dict(
  p_time=0.35,            # probability of each of begin / dur / end on a timed element
  p_seq=0.3,              # probability of timeContainer="seq"
  p_inverted=0.3,         # probability that an element with begin and end keeps end < begin
  p_arbitrary=0.15,       # probability of an off-lattice time value
  frames=True,            # ttp:frameRate (and multiplier) present and frame syntaxes used
  ticks=True,             # ttp:tickRate present and tick syntax used
  attrs=(0, 1),           # inline style attributes per element
  n_styles=(0, 3),        # style elements in head/styling
  style_attrs=(1, 2),     # attributes per style element
  style_refs=(0, 1),      # style references per style element
  elem_refs=(0, 1),       # style references per content element / region
  p_missing_ref=0.05,     # reference to an id that does not exist
  initials=(0, 1),        # initial elements
  regions=(0, 2),
  nested=(0, 1),          # nested style children per region
  sets=(0, 0, 0, 1),      # set children per element (sampled)
  props=None,             # properties used (None = all 36)
  hiding=True,
  ruby=False,
  preserve=True,
  langs=True,
  max_nodes=28,
  fanout=3,
  avoid_r1=True,          # never build the trigger of reader finding R-1 (offset par container with a definite implicit end)
  avoid_r2=True,          # never build the trigger of reader finding R-2 (seq child after a sibling of indefinite duration)
  force_r1=False,         # build the trigger of finding R-1 on purpose (part r1)
  exotic=(),              # legal value shapes kept out of the main parts because they hit reader findings; exactly one is injected
  doc_params=True,
)


def profile(**kw):
  p = dict(DEFAULT_PROFILE)
  for k in kw:
    if k not in p:
      raise KeyError(k)
  p.update(kw)
  return p


# ---------------------------------------------------------------------------------------------- numbers and times

def dec(q, max_frac=9):
  """decimal numeral of the rational q (>= 0) if it has one with at most max_frac fraction digits, else None"""
  q = F(q)
  if q < 0:
    return None
  d = q.denominator
  k = 0
  while d % 10 == 0:
    d //= 10
    k += 1
  t = d
  n2 = n5 = 0
  while t % 2 == 0:
    t //= 2
    n2 += 1
  while t % 5 == 0:
    t //= 5
    n5 += 1
  if t != 1:
    return None
  k += max(n2, n5)
  if k > max_frac:
    return None
  scaled = q * 10 ** k
  assert scaled.denominator == 1
  digits = str(scaled.numerator).rjust(k + 1, "0")
  return digits if k == 0 else digits[:-k] + "." + digits[-k:]


def eff_fps(tt):
  if tt.get("fps") is None:
    return None
  r = F(tt["fps"])
  if tt.get("frm") is not None:
    r = r * F(tt["frm"][0], tt["frm"][1])
  return r


def eff_tick(tt):
  """TTML2 ttp:tickRate: the specified value; else the effective frame rate if ttp:frameRate is specified; else 1"""
  if tt.get("tick") is not None:
    return F(tt["tick"])
  if tt.get("fps") is not None:
    return eff_fps(tt)
  return F(1)


def spellings(v, tt):
  """every supported way of writing the time v exactly: list of (syntax, text).  TTML2 12.3.1 <time-expression>, and
  TTML2 appendix on the media time base: frames count at frameRate * frameRateMultiplier, ticks at tickRate."""
  out = []
  d = dec(v)
  if d is not None:
    out.append(("s", d + "s"))
    whole = int(v)
    frac = d.split(".")[1] if "." in d else ""
    hh, mm, ss = whole // 3600, (whole // 60) % 60, whole % 60
    out.append(("clock", "%02d:%02d:%02d%s" % (hh, mm, ss, "." + frac if frac else "")))
    if not frac:
      out.append(("clock", "%02d:%02d:%02d.0" % (hh, mm, ss)))
      out.append(("s", d + ".00s"))
  d = dec(v * 1000, 6)
  if d is not None:
    out.append(("ms", d + "ms"))
  d = dec(v / 60, 6)
  if d is not None:
    out.append(("m", d + "m"))
  d = dec(v / 3600, 6)
  if d is not None:
    out.append(("h", d + "h"))
  eff = eff_fps(tt)
  if eff is not None:
    d = dec(v * eff, 4)
    if d is not None:
      out.append(("f", d + "f", v * eff))
    whole = math.floor(v)
    ff = (v - whole) * eff
    if ff.denominator == 1 and ff < tt["fps"]:
      out.append(("clockf", "%02d:%02d:%02d:%02d" % (whole // 3600, (whole // 60) % 60, whole % 60, ff.numerator), (whole, ff.numerator)))
  d = dec(v * eff_tick(tt), 3)
  if d is not None:
    out.append(("t", d + "t", v * eff_tick(tt)))
  return out


def reinterpret(desc):
  """recomputes the meaning of every frame- and tick-based time expression from the document's current parameters (TTML2 defaults:
  ttp:frameRate 30, ttp:frameRateMultiplier 1 1; ttp:tickRate = the effective frame rate when ttp:frameRate is given, else 1) - used when a parameter is taken away"""
  tt = desc["tt"]
  eff = F(tt["fps"] if tt["fps"] is not None else 30)
  if tt["frm"] is not None:
    eff = eff * F(tt["frm"][0], tt["frm"][1])
  tick = F(tt["tick"]) if tt["tick"] is not None else eff if tt["fps"] is not None else F(1)

  def fix(t):
    if t is None:
      return
    if t["syn"] == "f":
      t["v"] = F(t["q"]) / eff
    elif t["syn"] == "t":
      t["v"] = F(t["q"]) / tick
    elif t["syn"] == "clockf":
      t["v"] = F(t["q"][0]) + F(t["q"][1]) / eff

  for n in walk_desc(desc):
    for k in ("begin", "dur", "end"):
      fix(n[k])
    fix(n.get("spare"))
    for stp in n["sets"]:
      for k in ("begin", "dur", "end"):
        fix(stp[k])


def num_forms(q, signed=True):
  """legal spellings of the non-negative number q (TTML2 <length> scalar / <number>)"""
  base = dec(q)
  if base is None:
    raise ValueError("not a decimal: %r" % (q,))
  out = [base, base]
  out.append(base + "0" if "." in base else base + ".0")
  out.append("0" + base)
  if base.startswith("0.") :
    out.append(base[1:])
  if signed:
    out.append("+" + base)
  return out


# ---------------------------------------------------------------------------------------------- style values -> text

class Picker:
  """deterministic chooser driven by a list of integers drawn by Hypothesis"""

  def __init__(self, ints):
    self.ints = ints or [0]
    self.i = 0

  def __call__(self, options):
    k = self.ints[self.i % len(self.ints)]
    self.i += 1
    return options[k % len(options)]


def w_num(v, pick, signed=False):
  if isinstance(v, float) and v != v:
    raise ValueError("nan")
  neg = v < 0
  q = abs(F(str(v))) if isinstance(v, float) else abs(F(v))     # the shortest decimal that reads back as this float
  forms = num_forms(q, signed and not neg)
  t = pick(forms)
  return "-" + t if neg else t


def w_len(l, pick):
  return w_num(l.value, pick, signed=True) + l.units.value


def w_color(c, pick, functional=True):
  r, g, b, a = c.components
  forms = ["#%02x%02x%02x%02x" % (r, g, b, a), "#%02X%02X%02X%02X" % (r, g, b, a)]
  if functional:
    forms.append("rgba(%d,%d,%d,%d)" % (r, g, b, a))
  if a == 255:
    forms += ["#%02x%02x%02x" % (r, g, b), "#%02X%02X%02X" % (r, g, b)]
    if functional:
      forms.append("rgb(%d,%d,%d)" % (r, g, b))
  forms += NAMED.get((r, g, b, a), []) * 3
  return pick(forms)


def w_family_item(f, pick):
  if isinstance(f, s.GenericFontFamilyType):
    return f.name
  plain = all(ch.isalnum() or ch == " " for ch in f) and len(f) >= 2 and f == f.strip() and "  " not in f \
    and f not in s.GenericFontFamilyType.__members__
  dq = '"' + f.replace("\\", "\\\\").replace('"', '\\"') + '"'
  sq = "'" + f.replace("\\", "\\\\").replace("'", "\\'") + "'"
  return pick([f, dq, sq] if plain else [dq, sq])


def is_pct(l, value):
  return l.units is U.pct and F(l.value) == value


def w_position(v, pick):
  """TTML2 10.3.? <position>: one to four components"""
  he, ve = v.h_edge.value, v.v_edge.value
  ho, vo = v.h_offset, v.v_offset
  forms = ["%s %s %s %s" % (he, w_len(ho, pick), ve, w_len(vo, pick))] * 2
  forms.append("%s %s %s %s" % (ve, w_len(vo, pick), he, w_len(ho, pick)))
  # horizontal / vertical components usable in the one and two component forms
  hc, vc = [], []
  if he == "left":
    hc.append(w_len(ho, pick))
    if is_pct(ho, 50):
      hc.append("center")
  if is_pct(ho, 0):
    hc.append(he)
  if ve == "top":
    vc.append(w_len(vo, pick))
    if is_pct(vo, 50):
      vc.append("center")
  if is_pct(vo, 0):
    vc.append(ve)
  for h in hc:
    for vv in vc:
      forms.append("%s %s" % (h, vv))
      if h in ("left", "right", "center") and vv in ("top", "bottom", "center") and not (h == "center" and vv == "center"):
        forms.append("%s %s" % (vv, h))
  if ve == "top" and is_pct(vo, 50):
    forms += hc
  if he == "left" and is_pct(ho, 50):
    forms += [x for x in vc if x in ("top", "bottom")]
  # three components
  if is_pct(vo, 0):
    forms.append("%s %s %s" % (he, w_len(ho, pick), ve))
  if ve == "top" and is_pct(vo, 50):
    forms.append("%s %s center" % (he, w_len(ho, pick)))
  if is_pct(ho, 0):
    forms.append("%s %s %s" % (he, ve, w_len(vo, pick)))
  if he == "left" and is_pct(ho, 50):
    forms.append("center %s %s" % (ve, w_len(vo, pick)))
  return pick(forms)


def write_value(name, v, pick, aliases=True):
  """one legal written form of the model value v of property `name`"""
  if name in TOKENS:
    tok = v.name
    if tok not in TOKENS[name]:
      raise ValueError("no token for %s %r" % (name, v))
    forms = [tok, tok]
    if aliases and (name, tok) in ALIASES:
      forms.append(ALIASES[(name, tok)])
    return pick(forms)
  if name in ("BackgroundColor", "Color"):
    return w_color(v, pick)
  if name in ("FontSize", "Disparity", "LinePadding"):
    return w_len(v, pick)
  if name == "LineHeight":
    return "normal" if v is s.SpecialValues.normal else w_len(v, pick)
  if name == "Extent":
    return "%s %s" % (w_len(v.width, pick), w_len(v.height, pick))
  if name == "Origin":
    forms = ["%s %s" % (w_len(v.x, pick), w_len(v.y, pick))] * 3
    if is_pct(v.x, 0) and is_pct(v.y, 0):
      forms.append("auto")
    return pick(forms)
  if name == "Position":
    return w_position(v, pick)
  if name == "Padding":
    b, e, a, st_ = v.before, v.end, v.after, v.start
    forms = ["%s %s %s %s" % (w_len(b, pick), w_len(e, pick), w_len(a, pick), w_len(st_, pick))]
    if e == st_:
      forms.append("%s %s %s" % (w_len(b, pick), w_len(e, pick), w_len(a, pick)))
      if b == a:
        forms.append("%s %s" % (w_len(b, pick), w_len(e, pick)))
        if b == e:
          forms.append(w_len(b, pick))
    return forms[-1] if len(forms) > 1 and pick([0, 1, 1]) else pick(forms)
  if name == "FillLineGap":
    return "true" if v else "false"
  if name in ("LuminanceGain", "Opacity"):
    return w_num(v, pick)
  if name == "Shear":
    return w_num(v, pick) + "%"
  if name == "FontFamily":
    # TTML2 <font-families>: white space may precede and follow the comma
    sep = pick([", ", ",", ", ", " , ", " ,"])
    return sep.join(w_family_item(f, pick) for f in v)
  if name == "RubyReserve":
    if v is s.SpecialValues.none:
      return "none"
    return v.position.name + ("" if v.length is None else " " + w_len(v.length, pick))
  if name == "TextDecoration":
    toks = []
    for flag, on, off in ((v.underline, "underline", "noUnderline"), (v.line_through, "lineThrough", "noLineThrough"),
                          (v.overline, "overline", "noOverline")):
      if flag is not None:
        toks.append(on if flag else off)
    if not toks:
      raise ValueError("empty text decoration")
    if toks == ["noUnderline", "noLineThrough", "noOverline"] and pick([0, 1]):
      return "none"
    k = pick([0, 1, 2])
    toks = toks[k % len(toks):] + toks[:k % len(toks)]
    return " ".join(toks)
  if name == "TextEmphasis":
    if v is s.SpecialValues.none:
      return "none"
    parts = []
    if v.style is s.TextEmphasisType.Style.auto:
      parts.append("auto")
    else:
      fill, shape = v.style.value.split(" ")
      parts.append(pick(["%s %s" % (fill, shape), "%s %s" % (shape, fill)] + ([shape] if fill == "filled" else [])))
    if v.color is not None:
      parts.append(w_color(v.color, pick))
    elif pick([0, 0, 1]):
      parts.append("current")
    if v.position is not s.TextEmphasisType.Position.outside or pick([0, 1]):
      parts.append(v.position.name)
    k = pick([0, 0, 1, 2])
    parts = parts[k % len(parts):] + parts[:k % len(parts)]
    return " ".join(parts)
  if name == "TextOutline":
    if v is s.SpecialValues.none:
      return "none"
    return ("" if v.color is None else w_color(v.color, pick) + " ") + w_len(v.thickness, pick)
  if name == "TextShadow":
    if v is s.SpecialValues.none:
      return "none"
    items = []
    for sh in v.shadows:
      t = "%s %s" % (w_len(sh.x_offset, pick), w_len(sh.y_offset, pick))
      if sh.blur_radius is not None:
        t += " " + w_len(sh.blur_radius, pick)
      if sh.color is not None:
        # rgb() / rgba() inside a shadow list is kept for the dedicated part (reader finding R-4c: the list is split at every comma)
        t += " " + w_color(sh.color, pick, functional=False)
      items.append(t)
    return ",".join(items)
  raise KeyError(name)


def map_lengths(v, fn):
  """copy of the style value v with fn applied to every LengthType in it"""
  if isinstance(v, s.LengthType):
    return fn(v)
  if dataclasses.is_dataclass(v) and not isinstance(v, type):
    return dataclasses.replace(v, **{f.name: map_lengths(getattr(v, f.name), fn) for f in dataclasses.fields(v)})
  if isinstance(v, tuple):
    return tuple(map_lengths(x, fn) for x in v)
  return v


# ---------------------------------------------------------------------------------------------- strategies

VALUE_PROFILE = gen_model.profile(exotic_numbers=False)
VALUE_PROFILE_NOHIDE = gen_model.profile(exotic_numbers=False, hiding=False)
POS_OFFSETS = [s.LengthType(0, U.pct), s.LengthType(50, U.pct), s.LengthType(10, U.pct), s.LengthType(100, U.pct), s.LengthType(2, U.c),
               s.LengthType(12.5, U.pct), s.LengthType(0, U.c)]


class st:   # pylint: disable=invalid-name
  """Structural choices are made with a random.Random seeded by ONE Hypothesis-drawn integer (so every random choice still comes from
  the strategy and a case is reproducible from its data), not with one Hypothesis draw each: a description needs ~600 choices, which
  made generation three times as expensive as checking, and inside large composites Hypothesis' mutation phase skews draws heavily
  towards small values (measured: integers(0, 999) < 350 with probability 0.59), which made documents dense and mostly silent.
  This class mimics the few strategy constructors used below; _G.d() evaluates them.  Style *values* are real Hypothesis draws."""

  @staticmethod
  def sampled_from(seq):
    return ("pick", list(seq))

  @staticmethod
  def integers(lo, hi):
    return ("int", lo, hi)

  @staticmethod
  def booleans():
    return ("bool",)

  @staticmethod
  def lists(elem, min_size=0, max_size=0, unique=False):
    return ("list", elem, min_size, max_size, unique)

  @staticmethod
  def permutations(seq):
    return ("perm", list(seq))

  @staticmethod
  def one_of(*alts):
    return ("one_of", alts)

  @staticmethod
  def tuples(*parts):
    return ("tuples", parts)


def _ev(rng, spec):
  k = spec[0]
  if k == "pick":
    return spec[1][rng.randrange(len(spec[1]))]
  if k == "int":
    return rng.randint(spec[1], spec[2])
  if k == "bool":
    return rng.random() < 0.5
  if k == "list":
    _, elem, lo, hi, unique = spec
    n = rng.randint(lo, hi)
    if unique:
      assert elem[0] == "pick"
      pool = list(dict.fromkeys(elem[1]))
      return rng.sample(pool, min(n, len(pool)))
    return [_ev(rng, elem) for _ in range(n)]
  if k == "perm":
    l = list(spec[1])
    rng.shuffle(l)
    return l
  if k == "one_of":
    return _ev(rng, spec[1][rng.randrange(len(spec[1]))])
  if k == "tuples":
    return tuple(_ev(rng, x) for x in spec[1])
  raise KeyError(k)


class _G:
  def __init__(self, draw, prof):
    self.draw = draw
    self.prof = prof
    self.rng = None
    self.n = 0
    self.nodes = 0
    self.words = 0
    self.props = list(prof["props"] or gen_model.ALL_PROPS)
    self.tt = None
    self.ltr_only = True
    self.region_ids = []
    self.style_ids = []

  def d(self, strat):
    if isinstance(strat, tuple):
      return _ev(self.rng, strat)
    return self.draw(strat)

  def chance(self, p):
    return self.rng.random() < p

  def nid(self, kind):
    self.n += 1
    return "%s%d" % (kind[0] if kind != "region" else "r", self.n)

  # -------------------------------------------------------------------------------- values
  def picker(self):
    return Picker(self.d(st.lists(st.integers(0, 11), min_size=6, max_size=6)))

  def attr(self, name):
    prof = self.prof
    if name == "Position":
      v = s.PositionType(h_offset=self.d(st.sampled_from(POS_OFFSETS)), v_offset=self.d(st.sampled_from(POS_OFFSETS)),
                         h_edge=self.d(st.sampled_from(list(s.PositionType.HEdge))), v_edge=self.d(st.sampled_from(list(s.PositionType.VEdge))))
    else:
      v = self.d(gen_model.value_strategy(name, VALUE_PROFILE if prof["hiding"] else VALUE_PROFILE_NOHIDE))
    written = None
    if name == "LinePadding":
      v = s.LengthType(v.value, U.c)                     # ebutts:linePadding is expressed in c only
    elif name == "TextDecoration" and v == s.TextDecorationType(None, None, None):
      v = s.TextDecorationType(True, None, None)         # the empty token list cannot be written
    elif name == "FontFamily":
      written = v
      # IMSC 1.1 (fontFamily): the generic family name "default" is mapped to monospaceSerif
      v = tuple(s.GenericFontFamilyType.monospaceSerif if f is s.GenericFontFamilyType.default else f for f in v)
    elif name == "TextShadow" and v is not s.SpecialValues.none:
      # shadows with neither blur radius nor colour are kept for the dedicated part (reader finding R-4)
      v = s.TextShadowType(tuple(sh if (sh.blur_radius is not None or sh.color is not None)
                                 else dataclasses.replace(sh, color=s.NamedColors.red.value) for sh in v.shadows))
    elif self.ltr_only and name == "Direction":
      v = s.DirectionType.ltr
    elif self.ltr_only and name == "WritingMode":
      v = s.WritingModeType.lrtb
    if self.tt["extent"] is None:
      # IMSC 1.1: px lengths require tts:extent on tt
      v = map_lengths(v, lambda l: s.LengthType(l.value, U.c) if l.units is U.px else l)
      if written is not None:
        written = map_lengths(written, lambda l: s.LengthType(l.value, U.c) if l.units is U.px else l)
    x = write_value(name, v if written is None else written, self.picker(), aliases=self.ltr_only)
    return {"p": name, "v": v, "x": x}

  def attrs(self, lo_hi, pool, exclude=()):
    lo, hi = lo_hi
    pool = [p for p in pool if p in self.props and p not in exclude]
    if not pool:
      return []
    hi = min(hi, len(pool))
    names = self.d(st.lists(st.sampled_from(pool), min_size=min(lo, hi), max_size=hi, unique=True))
    return [self.attr(n) for n in names]

  # -------------------------------------------------------------------------------- times
  def time(self, positive=False):
    tt = self.tt
    if self.chance(self.prof["p_arbitrary"]):
      kinds = ["ms"] + (["f", "cf"] if tt["fps"] else []) + ["t"]
      k = self.d(st.sampled_from(kinds))
      lo = 1 if positive else 0
      if k == "cf":
        # hh:mm:ss:ff by construction: with a fractional effective frame rate only whole seconds before the first one have
        # such a spelling by value; the frame field is biased to its two ends (0 and ttp:frameRate - 1)
        whole = self.d(st.integers(0, 12))
        ff = self.d(st.sampled_from([0, tt["fps"] - 1, tt["fps"] - 1, self.d(st.integers(0, tt["fps"] - 1))]))
        if positive and whole == 0 and ff == 0:
          whole = 1
        v = F(whole) + F(ff) / eff_fps(tt)
        return {"v": v, "x": "%02d:%02d:%02d:%02d" % (whole // 3600, (whole // 60) % 60, whole % 60, ff), "syn": "clockf", "q": (whole, ff)}
      if k == "ms":
        v = F(self.d(st.integers(lo, 12000)), 1000)
      elif k == "f":
        v = F(self.d(st.integers(lo, 12 * tt["fps"]))) / eff_fps(tt)
      else:
        tk = eff_tick(tt)
        v = F(self.d(st.integers(lo, int(12 * min(tk, 1000)))) * max(1, int(tk) // 1000)) / tk
    else:
      v = self.d(st.sampled_from(LATTICE_POS if positive else LATTICE))
    cands = spellings(v, tt)
    if not cands:
      # e.g. 1/3 s without a frame or tick rate that divides it: take the nearest millisecond
      v = F(round(v * 1000), 1000)
      cands = spellings(v, tt)
    fams = sorted({c[0] for c in cands})
    # frame and tick syntaxes are preferred when available so that they occur often
    weighted = [f for f in fams for _ in range(3 if f in ("f", "t", "clockf") else 1)]
    fam = self.d(st.sampled_from(weighted))
    c = self.d(st.sampled_from([c for c in cands if c[0] == fam]))
    return {"v": v, "x": c[1], "syn": fam, "q": c[2] if len(c) > 2 else None}

  def opt_time(self, p=None, positive=False):
    if not self.chance(self.prof["p_time"] if p is None else p):
      return None
    # a zero dur / end silences the whole subtree: kept, but rare
    return self.time(positive=positive and not self.chance(0.08))

  def timing(self, n, p=None):
    n["begin"] = self.opt_time(p)
    n["dur"] = self.opt_time(p, positive=True)
    n["end"] = self.opt_time(p, positive=True)
    if n["begin"] is not None and n["end"] is not None and n["end"]["v"] < n["begin"]["v"] and not self.chance(self.prof["p_inverted"]):
      n["begin"], n["end"] = n["end"], n["begin"]

  # -------------------------------------------------------------------------------- text
  def word(self):
    self.words += 1
    return "w%d" % self.words

  def text(self, nonblank=False):
    pieces = []
    if nonblank:
      pieces.append(self.word())
    for _ in range(self.d(st.integers(0 if nonblank else 1, 3))):
      k = self.d(st.integers(0, 9))
      if k <= 5:
        pieces.append(self.word())
      elif k <= 8:
        pieces.append(self.d(st.sampled_from([" ", "  ", "\t", "\n", " \n "])))
      else:
        pieces.append(self.d(st.sampled_from(["&", "<", ">", '"', "'", "]]>", "é", "中"])))
    if not any(x.startswith("w") for x in pieces) and not (pieces and all(x.strip(" \t\n") == "" for x in pieces)):
      pieces.append(self.word())        # the comparators identify text nodes by their (unique) non-white-space content
    t = "".join(pieces)
    out = {"kind": "text", "text": t if t else self.word()}
    if self.chance(0.04):
      # an XML comment or processing instruction inside the character data: not content, the text node stays one node
      out["cm"] = (self.d(st.integers(0, len(out["text"]))), self.d(st.sampled_from(["<!-- note -->", "<?vt-pi x?>", "<!---->"])))
    return out

  # -------------------------------------------------------------------------------- elements
  def blank(self, kind):
    return dict(kind=kind, id=self.nid(kind), ruby=None, tc=None, begin=None, dur=None, end=None, region=None, refs=[], attrs=[],
                nested=[], space=None, lang=None, sets=[], kids=[], spare=None)

  def refs(self, lo_hi):
    k = self.d(st.integers(*lo_hi))
    out = []
    for _ in range(k):
      if self.style_ids and not self.chance(self.prof["p_missing_ref"]):
        out.append(self.d(st.sampled_from(self.style_ids)))
      elif self.chance(0.5 if self.style_ids else 2 * self.prof["p_missing_ref"]):
        out.append("nosuch%d" % self.d(st.integers(0, 1)))
    return out

  def sets(self, n, pool):
    k = self.d(st.sampled_from(self.prof["sets"]))
    pool = [p for p in pool if p in self.props]
    for _ in range(k if pool else 0):
      stp = dict(begin=self.opt_time(0.5), dur=self.opt_time(0.3), end=self.opt_time(0.5), attr=self.attr(self.d(st.sampled_from(pool))))
      if stp["begin"] is not None and stp["end"] is not None and stp["end"]["v"] < stp["begin"]["v"]:
        stp["begin"], stp["end"] = stp["end"], stp["begin"]
      n["sets"].append(stp)

  def common(self, n):
    prof = self.prof
    if prof["preserve"] and self.chance(0.25):
      n["space"] = self.d(st.sampled_from(["preserve", "preserve", "default"]))
    if prof["langs"] and self.chance(0.25):
      n["lang"] = self.d(st.sampled_from(["en", "fr-CA", "ja", ""]))

  def elem(self, kind, depth, assoc, plain=False):
    prof = self.prof
    self.nodes += 1
    n = self.blank(kind)
    if kind == "br":
      return n
    self.common(n)
    if not plain:
      if self.chance(prof["p_seq"] * (1 if kind in ("body", "div") else 0.5)):   # text in a seq p / span is never shown
        n["tc"] = "seq"
      elif self.chance(0.15):
        n["tc"] = "par"
      self.timing(n, prof["p_time"] * (0.4 if kind == "body" else 0.7 if kind == "div" else 1))
      n["spare"] = self.time(positive=True)
      p_ref = 0.15 if assoc else {"body": 0.3, "div": 0.5, "p": 0.7}.get(kind, 0.3)
      if self.region_ids and self.chance(p_ref):
        n["region"] = self.d(st.sampled_from(self.region_ids))
    assoc = assoc or n["region"] is not None or not self.region_ids
    if kind == "span" and n["ruby"] is None and self.chance(0.06):
      n["ruby"] = "none"              # tts:ruby="none", the initial value: an ordinary span
    n["refs"] = self.refs(prof["elem_refs"])
    n["attrs"] = self.attrs(prof["attrs"], CONTENT_PROPS, exclude=("Display",) if plain else ())
    if not plain and n["tc"] != "seq":
      self.sets(n, CONTENT_PROPS)
    budget_ok = self.nodes < prof["max_nodes"]
    fan = prof["fanout"]

    def kids(choices, lo, hi):
      if lo == 0 and budget_ok and self.chance(0.85):
        lo = 1
      k = self.d(st.integers(lo, max(lo, hi if budget_ok else lo)))
      for _ in range(k):
        ck = self.d(st.sampled_from(choices))
        if ck == "text" and n["kids"] and n["kids"][-1]["kind"] == "text":
          ck = "span" if depth < 4 else "br"
        if depth >= 4 and ck == "span":
          ck = "text" if not (n["kids"] and n["kids"][-1]["kind"] == "text") else "br"
        if ck == "ruby" and not (assoc and prof["ruby"] and depth <= 2):
          ck = "span"
        if ck == "text":
          n["kids"].append(self.text())
        elif ck == "ruby":
          n["kids"].append(self.ruby(depth + 1))
        else:
          n["kids"].append(self.elem(ck, depth + 1, assoc))

    if kind == "body":
      kids(["div"], 0, fan)
    elif kind == "div":
      kids(["div", "p", "p", "p"] if depth < 2 else ["p"], 0, fan)
    elif kind == "p":
      kids(["span", "span", "text", "text", "br", "ruby"], 0, fan + 1)
    elif kind == "span":
      kids(["span", "text", "text", "text", "br"], 0, fan)
    return n

  def ruby_part(self, role, depth):
    """rb / rt / rp: untimed, non-blank text either directly (anonymous span) or in a span"""
    self.nodes += 1
    n = self.blank("span")
    n["ruby"] = RUBY_TOKEN[role]
    self.common(n)
    n["attrs"] = self.attrs((0, 1), CONTENT_PROPS, exclude=("Display",))
    if self.chance(0.5):
      n["kids"].append(self.text(nonblank=True))
    else:
      sp = self.blank("span")
      self.nodes += 1
      sp["kids"].append(self.text(nonblank=True))
      n["kids"].append(sp)
    return n

  def ruby(self, depth):
    self.nodes += 1
    n = self.blank("span")
    n["ruby"] = RUBY_TOKEN["ruby"]
    self.common(n)
    self.timing(n)
    n["spare"] = self.time(positive=True)
    n["attrs"] = self.attrs((0, 1), ["RubyAlign", "Color", "BackgroundColor", "Opacity"])
    pat = self.d(st.sampled_from([["rb", "rt"], ["rb", "rp", "rt", "rp"], ["rbc", "rtc"], ["rbc", "rtc", "rtc"]]))
    for role in pat:
      if role in ("rb", "rt", "rp"):
        n["kids"].append(self.ruby_part(role, depth + 1))
      else:
        c = self.blank("span")
        self.nodes += 1
        c["ruby"] = RUBY_TOKEN[role]
        if role == "rbc":
          sub = ["rb"] * self.d(st.integers(1, 2))
        else:
          sub = self.d(st.sampled_from([["rt"], ["rt", "rt"], ["rp", "rt", "rp"]]))
          c["attrs"] = self.attrs((0, 1), ["RubyPosition", "Color"])
        c["kids"] = [self.ruby_part(r, depth + 2) for r in sub]
        n["kids"].append(c)
    return n

  def region(self, i):
    prof = self.prof
    n = self.blank("region")
    n["id"] = "r%d" % i
    self.common(n)
    self.timing(n, prof["p_time"] * 0.4)
    used = set()
    n["attrs"] = self.attrs((prof["attrs"][0], max(3, prof["attrs"][1])), REGION_PROPS + ["Color", "FontSize", "TextAlign", "Direction"])
    used.update(a["p"] for a in n["attrs"])
    for _ in range(self.d(st.integers(*prof["nested"]))):
      # nested style children never repeat a property among siblings (DESIGN C04 soundness note); they may repeat an inline one
      at = self.attrs((1, 2), REGION_PROPS + ["Color", "FontSize", "LineHeight", "TextEmphasis", "FontStyle", "TextOutline"], exclude=[a["p"] for ns_ in n["nested"] for a in ns_])
      if at:
        n["nested"].append(at)
    n["refs"] = self.refs(prof["elem_refs"])
    self.sets(n, ["BackgroundColor", "Opacity", "Display", "Visibility", "Color", "Origin", "Extent"])
    return n


def fix_timing(n, parent_tc, sync, prof):
  """Construction-time pass that keeps the generated tree inside the domain the main parts assert:
   * (avoid_r2) every non-last child of a seq container has a definite end (an explicit dur is added otherwise);
   * (avoid_r1) a par container that begins at a non-zero offset and whose implicit duration is definite and positive gets an
     explicit dur;
   * an element whose end precedes its begin stays only where no implicit duration depends on it.
  Returns the resolved (begin, end) of n relative to its parent's begin (see Timing.resolve)."""
  if n["kind"] == "text" or n["kind"] == "br":
    return (sync, None if parent_tc == "par" else sync)
  begin = n["begin"]["v"] if n["begin"] is not None else F(0)
  b = sync + begin
  tc = n["tc"] or "par"
  ends = []
  cur = F(0)
  elems = [k for k in n["kids"]]
  for i, k in enumerate(elems):
    last = i == len(elems) - 1
    if k["kind"] not in ("text", "br") and k["begin"] is not None and k["end"] is not None and k["end"]["v"] < k["begin"]["v"]:
      if tc == "seq" or (n["dur"] is None and n["end"] is None):
        k["begin"], k["end"] = k["end"], k["begin"]
    kb, ke = fix_timing(k, tc, cur if tc == "seq" else F(0), prof)
    if tc == "seq":
      if ke is None and not last and prof["avoid_r2"] and k["kind"] not in ("text",):
        k["dur"] = k["spare"]
        ke = kb + k["dur"]["v"]
      if k["kind"] not in ("text", "br") and k["sets"] and k["dur"] is None and k["end"] is None and not last:
        k["dur"] = k["spare"]      # whether set children extend an implicit duration is not asserted: make it explicit
        ke = kb + k["dur"]["v"]
      cur = ke
      if cur is None:
        break
    else:
      if not (k["kind"] == "text" and tc == "seq"):
        ends.append(ke)
  if n["sets"] and n["dur"] is None and n["end"] is None and n["kind"] != "region" and (tc == "seq" or all(e is not None for e in ends)):
    # whether set children extend the implicit duration of their parent (they do in SMIL, and in the reader) is not asserted:
    # an element with set children whose implicit duration would otherwise be definite gets an explicit dur
    n["dur"] = n["spare"]
  for stp in n["sets"]:
    ends.append(_set_iv(stp)[1])
  if tc == "seq":
    impl = cur
  elif not ends:
    impl = F(0)
  elif any(e is None for e in ends):
    impl = None
  else:
    impl = max(ends + [F(0)])
  if prof["avoid_r1"] and tc == "par" and n["dur"] is None and n["end"] is None and b != 0 and impl is not None and impl > 0:
    n["dur"] = n["spare"]
  cands = []
  if n["dur"] is not None:
    cands.append(b + n["dur"]["v"])
  if n["end"] is not None:
    cands.append(sync + n["end"]["v"])
  if cands:
    e = min(cands)
  else:
    e = None if impl is None else b + impl
  return (b, e)


def _set_iv(stp):
  b = stp["begin"]["v"] if stp["begin"] is not None else F(0)
  cands = []
  if stp["dur"] is not None:
    cands.append(b + stp["dur"]["v"])
  if stp["end"] is not None:
    cands.append(stp["end"]["v"])
  return (b, min(cands) if cands else None)


@hst.composite
def descs(draw, prof=None):
  prof = prof or DEFAULT_PROFILE
  g = _G(draw, prof)
  g.rng = random.Random(draw(hst.integers(0, 2 ** 62)))
  d = g.d
  ns = dict(tt=d(st.sampled_from(["", "", "tt", "ttml"])), tts=d(st.sampled_from(["tts", "tts", "s", "style"])),
            ttp=d(st.sampled_from(["ttp", "p"])), ittp=d(st.sampled_from(["ittp", "ip"])), itts=d(st.sampled_from(["itts", "is"])),
            ebutts=d(st.sampled_from(["ebutts", "ebu"])), quote=d(st.sampled_from(['"', '"', "'"])), pretty=d(st.booleans()))
  tt = dict(lang=d(st.sampled_from(["en", "", "ja", "de-CH"])), space=None, cell=None, extent=None, active_area=None, aspect=None,
            fps=None, frm=None, tick=None)
  if prof["preserve"] and g.chance(0.2):
    tt["space"] = d(st.sampled_from(["preserve", "default"]))
  if prof["doc_params"]:
    if g.chance(0.5):
      tt["cell"] = d(st.one_of(st.sampled_from([(32, 15), (40, 23), (52, 19), (1, 1)]), st.tuples(st.integers(1, 99), st.integers(1, 99))))
    if g.chance(0.5):
      tt["extent"] = d(st.one_of(st.sampled_from([(1920, 1080), (640, 480), (1280, 720)]), st.tuples(st.integers(1, 4000), st.integers(1, 3000))))
    if g.chance(0.25):
      tt["active_area"] = d(st.sampled_from([(F(0), F(0), F(100), F(100)), (F(10), F(25, 2), F(80), F(75)), (F(0), F(0), F(50), F(50)),
                                             (F(5, 2), F(5), F(95), F(181, 2))]))
    if g.chance(0.3):
      tt["aspect"] = (d(st.sampled_from(["ttp", "ittp"])),) + d(st.sampled_from([(16, 9), (4, 3), (1, 1), (64, 27)]))
  if prof["frames"] and g.chance(0.8):
    tt["fps"] = d(st.sampled_from([24, 25, 30, 50, 60]))
    if g.chance(0.4):
      tt["frm"] = d(st.sampled_from([(1000, 1001), (999, 1000), (1, 1)]))
  if prof["ticks"] and g.chance(0.7):
    tt["tick"] = d(st.sampled_from([1, 1000, 10000000, 90000]))
  g.tt = tt
  g.ltr_only = d(st.booleans())
  # style elements: references only go from a lower to a higher rank, so the graph is acyclic while document order is arbitrary
  ns_ = d(st.integers(*prof["n_styles"]))
  g.style_ids = []
  ranks = d(st.permutations(list(range(ns_)))) if ns_ else []
  styles = []
  for i in range(ns_):
    styles.append({"id": "s%d" % i, "refs": [], "attrs": g.attrs(prof["style_attrs"], gen_model.ALL_PROPS)})
  for i in range(ns_):
    higher = [styles[j]["id"] for j in range(ns_) if ranks[j] > ranks[i]]
    k = d(st.integers(*prof["style_refs"]))
    for _ in range(k):
      if g.chance(prof["p_missing_ref"]) or not higher:
        if higher or g.chance(0.3):
          styles[i]["refs"].append("nosuch0")
      else:
        styles[i]["refs"].append(d(st.sampled_from(higher)))
  # two styles referenced by one style element rarely disagree on a property by chance (36 properties): steer half of the
  # multi-reference style elements into such a disagreement on a property the referencing element does not set itself
  by_sid = {x["id"]: x for x in styles}
  for x in styles:
    rs = [r for r in dict.fromkeys(x["refs"]) if r in by_sid]
    if len(rs) >= 2 and g.chance(0.5):
      a_id, b_id = d(st.permutations(rs))[:2]
      own = {a["p"] for a in x["attrs"]}
      cand = [a["p"] for a in by_sid[a_id]["attrs"] if a["p"] not in own and a["p"] not in {b["p"] for b in by_sid[b_id]["attrs"]}]
      if cand:
        by_sid[b_id]["attrs"].append(g.attr(d(st.sampled_from(cand))))
  g.style_ids = [x["id"] for x in styles]
  initials = []
  used = set()
  for _ in range(d(st.integers(*prof["initials"]))):
    # an initial tts:display="none" silences the whole document: legal, kept rare
    at = g.attrs((1, 2), gen_model.ALL_PROPS, exclude=used | (set() if g.chance(0.1) else {"Display"}))
    used.update(a["p"] for a in at)
    if at:
      initials.append(at)
  nreg = d(st.integers(*prof["regions"]))
  g.region_ids = ["r%d" % i for i in range(nreg)]
  regions = [g.region(i) for i in range(nreg)]
  body = g.elem("body", 0, False) if g.chance(0.97) else None
  if body is not None:
    fix_timing(body, "par", F(0), prof)
    if prof["force_r1"]:
      hosts = [n for n in walk_desc(dict(regions=[], body=body)) if n["kind"] == "div" and any(k["kind"] != "text" for k in n["kids"])]
      if hosts:
        host = g.d(st.sampled_from(hosts))
        host.update(begin=g.time(positive=True), dur=None, end=None, tc=None)
        for k in host["kids"]:
          if k["dur"] is None and k["end"] is None:
            k["dur"] = k["spare"]
  desc = dict(ns=ns, tt=tt, initials=initials, styles=styles, regions=regions, body=body)
  if prof["exotic"]:
    inject_exotic(g, desc, d(st.sampled_from(list(prof["exotic"]))))
  return desc


EXOTIC = ("shadow-two-lengths", "shadow-rgb-function", "shadow-comma-space", "extent-auto", "fontFamily-one-letter")


def inject_exotic(g, desc, feature):
  """adds one attribute whose (legal) written form belongs to `feature`; desc["exotic"] names it"""
  d = g.d
  pick = g.picker()
  red, blue = s.NamedColors.red.value, s.ColorType((0, 0, 255, 128))
  l1, l2, l3 = s.LengthType(10, U.pct), s.LengthType(0.5, U.em), s.LengthType(1, U.c)
  Sh = s.TextShadowType.Shadow
  if feature == "extent-auto":
    # TTML2 tts:extent: auto on a region = the extent of the root container
    name, v, x = "Extent", s.ExtentType(height=s.LengthType(100, U.pct), width=s.LengthType(100, U.pct)), "auto"
    hosts = list(desc["regions"])
  else:
    hosts = [n for n in walk_desc(desc) if n["kind"] in ("p", "span") and n["ruby"] is None] or \
      [n for n in walk_desc(desc) if n["kind"] in ("div", "body")]
    if feature == "shadow-two-lengths":
      name, v = "TextShadow", s.TextShadowType((Sh(l1, l2, None, None),))
      x = "%s %s" % (w_len(l1, pick), w_len(l2, pick))
      if d(st.booleans()):
        v = s.TextShadowType((Sh(l1, l2, None, None), Sh(l3, l1, l2, red)))
        x += ",%s %s %s red" % (w_len(l3, pick), w_len(l1, pick), w_len(l2, pick))
    elif feature == "shadow-rgb-function":
      name, v = "TextShadow", s.TextShadowType((Sh(l1, l2, d(st.sampled_from([None, l3])), blue),))
      sh = v.shadows[0]
      x = "%s %s%s %s" % (w_len(l1, pick), w_len(l2, pick), "" if sh.blur_radius is None else " " + w_len(l3, pick),
                          d(st.sampled_from(["rgba(0,0,255,128)"])))
      if d(st.booleans()):
        name, v, x = "TextShadow", s.TextShadowType((Sh(l1, l2, l3, red),)), "%s %s %s rgb(255,0,0)" % (w_len(l1, pick), w_len(l2, pick), w_len(l3, pick))
    elif feature == "shadow-comma-space":
      # TTML2 tts:textShadow: <shadow> (<lwsp>? "," <lwsp>? <shadow>)*
      name, v = "TextShadow", s.TextShadowType((Sh(l1, l2, l3, red), Sh(l3, l1, None, red)))
      x = "%s %s %s red%s%s %s #ff0000" % (w_len(l1, pick), w_len(l2, pick), w_len(l3, pick), d(st.sampled_from([", ", " ,", " , "])),
                                          w_len(l3, pick), w_len(l1, pick))
    elif feature == "fontFamily-one-letter":
      name, v, x = "FontFamily", ("A", s.GenericFontFamilyType.serif), d(st.sampled_from(["A, serif", "A,serif"]))
      if d(st.booleans()):
        v, x = ("X",), "X"
    else:
      raise KeyError(feature)
  if not hosts:
    desc["exotic"] = None
    return
  host = d(st.sampled_from(hosts))
  host["attrs"] = [a for a in host["attrs"] if a["p"] != name] + [{"p": name, "v": v, "x": x}]
  desc["exotic"] = feature


# ---------------------------------------------------------------------------------------------- XML

def esc_text(t):
  return t.replace("&", "&amp;").replace("<", "&lt;").replace(">", "&gt;")


def esc_attr(t, q):
  t = t.replace("&", "&amp;").replace("<", "&lt;").replace("\n", "&#10;").replace("\t", "&#9;")
  return t.replace('"', "&quot;") if q == '"' else t.replace("'", "&apos;")


class _X:
  def __init__(self, desc, corrupt):
    self.ns = desc["ns"]
    self.q = self.ns["quote"]
    self.corrupt = corrupt or {}
    self.nl = "\n" if self.ns["pretty"] else ""

  def tag(self, local):
    p = self.ns["tt"]
    return "%s:%s" % (p, local) if p else local

  def qn(self, nskey, local):
    return "%s:%s" % (self.ns[nskey], local)

  def a(self, name, value):
    return " %s=%s%s%s" % (name, self.q, esc_attr(value, self.q), self.q)

  def attr_list(self, owner, pairs):
    """pairs: [(key, qname, value)]; applies the corruption {owner, key, value | add: (qname, value)}"""
    c = self.corrupt
    out = ""
    hit = c.get("owner") == owner
    for key, qname, value in pairs:
      if hit and c.get("key") == key and "value" in c:
        value = c["value"]
      out += self.a(qname, value)
    if hit and c.get("add") is not None:
      out += self.a(self.resolve_name(c["add"][0]), c["add"][1])
    return out

  def resolve_name(self, name):
    """'tts|foo' -> prefixed name using this document's prefixes; 'x|foo' -> foreign namespace; 'foo' -> unqualified"""
    if "|" in name:
      k, local = name.split("|")
      if k == "x":
        return "vtx:" + local
      return self.qn(k, local)
    return name

  def style_pairs(self, attrs):
    return [("style:" + a["p"], self.qn(*PROP_ATTR[a["p"]]), a["x"]) for a in attrs]

  def time_pairs(self, n):
    return [(k, k, n[k]["x"]) for k in ("begin", "dur", "end") if n.get(k) is not None]

  def elem(self, n):
    if n["kind"] == "text":
      if n.get("cm"):
        pos, markup = n["cm"]
        return esc_text(n["text"][:pos]) + markup + esc_text(n["text"][pos:])
      return esc_text(n["text"])
    pairs = [("id", "xml:id", n["id"])]
    if n["ruby"] is not None:
      pairs.append(("ruby", self.qn("tts", "ruby"), n["ruby"]))
    if n["tc"] is not None:
      pairs.append(("tc", "timeContainer", n["tc"]))
    pairs += self.time_pairs(n)
    if n["region"] is not None:
      pairs.append(("region", "region", n["region"]))
    if n["refs"]:
      pairs.append(("refs", "style", " ".join(n["refs"])))
    if n["space"] is not None:
      pairs.append(("space", "xml:space", n["space"]))
    if n["lang"] is not None:
      pairs.append(("lang", "xml:lang", n["lang"]))
    pairs += self.style_pairs(n["attrs"])
    head = "<%s%s" % (self.tag(n["kind"]), self.attr_list(n["id"], pairs))
    inner = ""
    for i, stp in enumerate(n["sets"]):
      sp = self.time_pairs(stp) + self.style_pairs([stp["attr"]] if stp["attr"] is not None else [])
      inner += "<%s%s/>" % (self.tag("set"), self.attr_list("%s/set%d" % (n["id"], i), sp))
    for i, at in enumerate(n["nested"]):
      inner += "<%s%s/>" % (self.tag("style"), self.attr_list("%s/nested%d" % (n["id"], i), self.style_pairs(at)))
    mixed = n["kind"] in ("p", "span") and n["ruby"] not in ("container", "baseContainer", "textContainer")
    sep = "" if mixed else self.nl
    for k in n["kids"]:
      inner += sep + self.elem(k)
    if not inner:
      return head + "/>"
    return head + ">" + inner + (sep if n["kids"] else "") + "</%s>" % self.tag(n["kind"])


def to_xml(desc, corrupt=None):
  """the document as XML text.  corrupt = {"owner": element / style / "tt" / "initialN" id, "key": attribute key, "value": text}
  replaces one attribute value; {"owner", "add": (name, value)} adds an attribute."""
  x = _X(desc, corrupt)
  ns, tt = desc["ns"], desc["tt"]
  nl = x.nl
  decl = []
  decl.append(("xmlns:%s" % ns["tt"] if ns["tt"] else "xmlns", NSURI["tt"]))
  for k in ("tts", "ttp", "ittp", "itts", "ebutts"):
    decl.append(("xmlns:%s" % ns[k], NSURI[k]))
  decl.append(("xmlns:vtx", FOREIGN_NS))
  pairs = []
  if tt["lang"] is not None:
    pairs.append(("lang", "xml:lang", tt["lang"]))
  if tt["space"] is not None:
    pairs.append(("space", "xml:space", tt["space"]))
  if tt["cell"] is not None:
    pairs.append(("cell", x.qn("ttp", "cellResolution"), "%d %d" % tuple(tt["cell"])))
  if tt["extent"] is not None:
    pairs.append(("extent", x.qn("tts", "extent"), "%dpx %dpx" % tuple(tt["extent"])))
  if tt["active_area"] is not None:
    pairs.append(("active_area", x.qn("ittp", "activeArea"), " ".join(dec(v) + "%" for v in tt["active_area"])))
  if tt["aspect"] is not None:
    which, a, b = tt["aspect"]
    pairs.append(("aspect", x.qn("ttp", "displayAspectRatio") if which == "ttp" else x.qn("ittp", "aspectRatio"), "%d %d" % (a, b)))
  if tt["fps"] is not None:
    pairs.append(("fps", x.qn("ttp", "frameRate"), "%d" % tt["fps"]))
  if tt["frm"] is not None:
    pairs.append(("frm", x.qn("ttp", "frameRateMultiplier"), "%d %d" % tuple(tt["frm"])))
  if tt["tick"] is not None:
    pairs.append(("tick", x.qn("ttp", "tickRate"), "%d" % tt["tick"]))
  out = '<?xml version="1.0" encoding="UTF-8"?>\n<%s' % x.tag("tt")
  out += "".join(x.a(k, v) for k, v in decl) + x.attr_list("tt", pairs) + ">" + nl
  head = ""
  styling = ""
  for i, at in enumerate(desc["initials"]):
    styling += "<%s%s/>%s" % (x.tag("initial"), x.attr_list("initial%d" % i, x.style_pairs(at)), nl)
  for sty in desc["styles"]:
    sp = [("id", "xml:id", sty["id"])]
    if sty["refs"]:
      sp.append(("refs", "style", " ".join(sty["refs"])))
    sp += x.style_pairs(sty["attrs"])
    styling += "<%s%s/>%s" % (x.tag("style"), x.attr_list(sty["id"], sp), nl)
  if styling:
    head += "<%s>%s%s</%s>%s" % (x.tag("styling"), nl, styling, x.tag("styling"), nl)
  if desc["regions"]:
    head += "<%s>%s%s</%s>%s" % (x.tag("layout"), nl, "".join(x.elem(r) + nl for r in desc["regions"]), x.tag("layout"), nl)
  if head:
    out += "<%s>%s%s</%s>%s" % (x.tag("head"), nl, head, x.tag("head"), nl)
  if desc["body"] is not None:
    out += x.elem(desc["body"]) + nl
  out += "</%s>\n" % x.tag("tt")
  return out


# ---------------------------------------------------------------------------------------------- translation into a DocSpec

RUBY_KIND = dict({v: k for k, v in RUBY_TOKEN.items()}, none="span")


class Timing:
  """TTML2 12.2 / SMIL 3.0 5.4: resolved begin and end of every element relative to its parent's begin.

  par children are measured from the parent's begin, seq children from the end of the previous sibling (the parent's begin for the
  first); active end = min(begin + dur, syncbase + end); without dur and end the implicit duration applies: par = latest end of the
  children (indefinite if one is indefinite, zero without children), seq = end of the last child, text and br = indefinite in a par
  parent and zero in a seq parent; set and region = indefinite.  An indefinite end is resolved by the parent's end (clipping is done by
  the reference interpreter).  A seq child whose predecessor never ends never begins."""

  def __init__(self, desc):
    self.iv = {}           # element id -> (begin, end) | None (never begins)
    self.text_iv = {}      # (parent id, kid index) -> same for text nodes
    self.r1_sites = []     # par containers at a non-zero offset with a definite, positive implicit duration and no dur / end
    self.r2_sites = []     # seq children whose previous sibling has an indefinite end
    self.ambiguous = []    # elements with end < begin on which a sibling's begin or the parent's implicit duration depends
    self.feat = set()
    if desc["body"] is not None:
      self.resolve(desc["body"], "par", F(0))
    for r in desc["regions"]:
      self.resolve(r, "par", F(0))

  def resolve(self, n, parent_tc, sync, parent=None, index=None):
    if n["kind"] == "text":
      r = None if sync is None else (sync, None if parent_tc == "par" else sync)
      self.text_iv[(parent["id"], index)] = r
      return r
    if sync is None:
      self.mark_never(n)
      return None
    if n["kind"] == "br":
      r = (sync, None if parent_tc == "par" else sync)
      self.iv[n["id"]] = r
      return r
    begin = n["begin"]["v"] if n["begin"] is not None else F(0)
    b = sync + begin
    tc = n["tc"] or "par"
    if n["kind"] == "region":
      impl = None
    elif tc == "par":
      ends = []
      for i, k in enumerate(n["kids"]):
        r = self.resolve(k, "par", F(0), n, i)
        ends.append(r[1])
      for stp in n["sets"]:
        ends.append(_set_iv(stp)[1])
      if not ends:
        impl = F(0)
      elif any(e is None for e in ends):
        impl = None
      else:
        impl = max(ends + [F(0)])
      if n["dur"] is None and n["end"] is None and b != 0 and impl is not None and impl > 0:
        self.r1_sites.append(n["id"])
    else:
      cur = F(0)
      for i, k in enumerate(n["kids"]):
        if cur is None and k["kind"] != "text":
          self.r2_sites.append(k.get("id"))
        r = self.resolve(k, "seq", cur, n, i)
        if k["kind"] == "text":
          continue             # zero duration: the sync base does not move
        cur = None if r is None else r[1]
      impl = cur
      self.feat.add("seq")
      if len([k for k in n["kids"] if k["kind"] != "text"]) >= 2:
        self.feat.add("seq>=2")
    cands = []
    if n["dur"] is not None:
      cands.append(b + n["dur"]["v"])
      self.feat.add("dur")
    if n["end"] is not None:
      cands.append(sync + n["end"]["v"])
    if cands:
      e = min(cands)
      if len(cands) == 2:
        self.feat.add("dur+end")
      if e < b and parent is not None and ((parent["tc"] or "par") == "seq" or (parent["dur"] is None and parent["end"] is None)):
        # SMIL: an interval that ends before it begins is not a valid interval; whether its end still counts for the parent's
        # implicit duration / the next seq sibling is not asserted
        self.ambiguous.append(n["id"])
    else:
      e = None if impl is None else b + impl
      if impl is not None and n["kind"] != "region" and n["kids"]:
        self.feat.add("implicit-end")
    if b != 0 and any(k["kind"] not in ("text", "br") and (k["begin"] or k["dur"] or k["end"]) for k in n["kids"]):
      self.feat.add("offset-container")
    self.iv[n["id"]] = (b, e)
    return (b, e)

  def mark_never(self, n):
    self.feat.add("never-begins")
    if n["kind"] == "text":
      return
    self.iv[n["id"]] = None
    for k in n["kids"]:
      if k["kind"] != "text":
        self.mark_never(k)


def style_table(desc, conflicts_out=None):
  """TTML2 10.4.1.3 chained referential styling: flattened attribute set of each style element.  Referenced styles are applied in the
  order of reference (each with its own chain first), so later references override earlier ones; the style's own attributes come last."""
  by_id = {}
  for sty in desc["styles"]:
    by_id.setdefault(sty["id"], sty)
  memo = {}
  conflicts = set()

  def flat(sid, stack):
    if sid in memo:
      return memo[sid]
    if sid in stack:
      raise ValueError("style reference loop")
    out = {}
    depth = 1
    for r in by_id[sid]["refs"]:
      if r in by_id:
        sub, dp = flat(r, stack + (sid,))
        own = {a["p"] for a in by_id[sid]["attrs"]}
        if any(k in out and out[k] != sub[k] and k not in own for k in sub):
          conflicts.add(sid)
        out.update(sub)
        depth = max(depth, dp + 1)
    for a in by_id[sid]["attrs"]:
      out[a["p"]] = a["v"]
    memo[sid] = (out, depth)
    return memo[sid]

  out = {sid: flat(sid, ()) for sid in by_id}
  if conflicts_out is not None:
    conflicts_out.update(conflicts)
  return out


def to_docspec(desc, info=None):
  """DocSpec meant by the description (see the module docstring); `info`, when given, receives the feature set, the R-1 / R-2
  trigger sites and the expected kind / lang / space of every element id."""
  tt = desc["tt"]
  timing = Timing(desc)
  chain_conflicts = set()
  table = style_table(desc, chain_conflicts)
  feat = set(timing.feat)
  spec = dict(lang=tt["lang"] if tt["lang"] is not None else "", cell=tuple(tt["cell"]) if tt["cell"] is not None else (32, 15),
              px=tuple(tt["extent"]) if tt["extent"] is not None else (1920, 1080), active_area=None, dar=None, initials={}, regions=[],
              body=None)
  if tt["active_area"] is not None:
    spec["active_area"] = tuple(v / 100 for v in tt["active_area"])
  if tt["aspect"] is not None:
    spec["dar"] = F(tt["aspect"][1], tt["aspect"][2])
  for at in desc["initials"]:
    for a in at:
      spec["initials"][a["p"]] = a["v"]
  region_ids = {r["id"] for r in desc["regions"]}
  root_space = tt["space"] or "default"
  root_lang = spec["lang"]

  def specified(n):
    """TTML2 10.4.1: referential (in order of reference) < nested < inline"""
    out = {}
    src = {}
    maxdepth = 0
    for r in n["refs"]:
      if r in table:
        sub, dp = table[r]
        if r in chain_conflicts:
          feat.add("chain-ref-order")
        for k in sub:
          if k in out and out[k] != sub[k]:
            feat.add("later-ref-overrides")
        out.update(sub)
        maxdepth = max(maxdepth, dp)
        if dp >= 2:
          feat.add("chain>=2")
        if dp >= 3:
          feat.add("chain>=3")
        feat.add("referential")
      else:
        feat.add("missing-ref")
    for at in n["nested"]:
      for a in at:
        if a["p"] in out:
          feat.add("nested-overrides-ref")
        out[a["p"]] = a["v"]
        feat.add("nested")
    for a in n["attrs"]:
      if a["p"] in out:
        feat.add("inline-overrides")
      out[a["p"]] = a["v"]
    return out

  def anims(n):
    out = []
    for stp in n["sets"]:
      b, e = _set_iv(stp)
      if stp["attr"] is None:
        continue           # a set without style attribute animates nothing (it still is a timed child of its parent)
      out.append((stp["attr"]["p"], b if b != 0 else None, e, stp["attr"]["v"]))
      feat.add("set")
    return out

  def node(n, space, lang):
    """DocSpec node of element n, or None when it never begins or has zero duration (never active: omitted)"""
    iv = timing.iv[n["id"]]
    if iv is None:
      return None
    b, e = iv
    if e is not None and b == e:
      feat.add("zero-duration")
      return None
    if e is not None and e < b:
      feat.add("inverted")
    sp = n["space"] or space
    lg = n["lang"] if n["lang"] is not None else lang
    kind = n["kind"] if n["ruby"] is None else RUBY_KIND[n["ruby"]]
    if n["ruby"] == "none":
      feat.add("ruby-none-span")
    elif n["ruby"] is not None:
      feat.add("ruby")
    out = dict(kind=kind, id=n["id"], begin=None if (b == 0 or kind == "br") else b, end=None if kind == "br" else e, region=None,
               styles=specified(n), anims=anims(n), kids=[], space=sp, lang=lg)
    if n["region"] is not None and n["region"] in region_ids:
      out["region"] = n["region"]
    tc = n["tc"] or "par"
    for i, k in enumerate(n["kids"]):
      if k["kind"] == "text":
        if k.get("cm"):
          feat.add("comment-or-pi-in-text")
        if tc == "seq" or timing.text_iv.get((n["id"], i)) is None:
          feat.add("text-in-seq")
          continue
        t = dict(kind="text", id=None, begin=None, end=None, region=None, styles={}, anims=[], kids=[], space="default", lang="",
                 text=k["text"])
        if kind == "span":
          out["kids"].append(t)
        else:
          # text directly in p (or in a ruby base / text / delimiter): anonymous span inheriting lang and space
          feat.add("anonymous-span")
          out["kids"].append(dict(kind="span", id="%s.a%d" % (n["id"], i), begin=None, end=None, region=None, styles={}, anims=[],
                                  kids=[t], space=sp, lang=lg))
      else:
        c = node(k, sp, lg)
        if c is not None:
          out["kids"].append(c)
    return out

  for r in desc["regions"]:
    iv = timing.iv[r["id"]]
    b, e = iv
    spec["regions"].append(dict(kind="region", id=r["id"], begin=None if b == 0 else b, end=e, region=None, styles=specified(r),
                                anims=anims(r), kids=[], space=r["space"] or root_space,
                                lang=r["lang"] if r["lang"] is not None else root_lang))
  if desc["body"] is not None:
    spec["body"] = node(desc["body"], root_space, root_lang)
    if spec["body"] is None:
      # a body that is never active: keep an empty body so that the document still declares one
      spec["body"] = dict(kind="body", id=desc["body"]["id"], begin=F(0), end=F(0), region=None, styles={}, anims=[], kids=[],
                          space=root_space, lang=root_lang, never=True)
  for n in walk_desc(desc):
    for k in ("begin", "dur", "end"):
      if n.get(k) is not None:
        feat.add("syn:" + n[k].get("syn", "?"))
        if n[k].get("syn") == "clockf" and tt["fps"] and n[k]["q"][1] == tt["fps"] - 1 and eff_fps(tt).denominator != 1:
          feat.add("clockf-last-frame-fractional-rate")
    for stp in n.get("sets", ()):
      for k in ("begin", "dur", "end"):
        if stp.get(k) is not None:
          feat.add("syn:" + stp[k].get("syn", "?"))
  if desc["initials"]:
    feat.add("initial")
  if info is not None:
    info["feat"] = feat
    info["r1_sites"] = timing.r1_sites
    info["r2_sites"] = timing.r2_sites
    info["ambiguous"] = timing.ambiguous
  return spec


def walk_desc(desc):
  def w(n):
    if n["kind"] == "text":
      return
    yield n
    for k in n["kids"]:
      yield from w(k)
  for r in desc["regions"]:
    yield r
  if desc["body"] is not None:
    yield from w(desc["body"])


# ---------------------------------------------------------------------------------------------- self test

def selftest():
  for name, toks in TOKENS.items():
    members = [m.name for m in ENUM_TYPE[name]]
    if sorted(members) != sorted(toks):
      raise AssertionError("token table of %s does not cover the model enumeration: %r vs %r" % (name, toks, members))
  for comps, names in NAMED.items():
    for nm in names:
      if tuple(s.NamedColors[nm].value.components) != comps:
        raise AssertionError("named colour %s" % nm)
  assert dec(F(3, 2)) == "1.5" and dec(F(1, 3)) is None and dec(F(0)) == "0" and dec(F(1, 8)) == "0.125" and dec(F(10)) == "10"
  tt = dict(fps=30, frm=(1000, 1001), tick=90000)
  sp = {c[0]: c[1] for c in spellings(F(1001, 1000), tt)}
  assert sp.get("f") == "30f" and sp.get("t") == "90090t" and sp.get("ms") == "1001ms", sp
  assert ("clockf", "00:00:01:15", (1, 15)) in spellings(F(3, 2), dict(fps=30, frm=None, tick=None))

  # timing examples worked by hand from TTML2 12.2 / SMIL par-seq semantics
  def e(kind, eid, kids=(), **kw):
    n = dict(kind=kind, id=eid, ruby=None, tc=None, begin=None, dur=None, end=None, region=None, refs=[], attrs=[], nested=[],
             space=None, lang=None, sets=[], kids=list(kids), spare=None)
    for k, v in kw.items():
      n[k] = {"v": F(v), "x": "%ss" % v} if k in ("begin", "dur", "end") else v
    return n

  def t(x):
    return {"kind": "text", "text": x}

  base = dict(ns=None, tt=dict(lang="en", space=None, cell=None, extent=None, active_area=None, aspect=None, fps=None, frm=None, tick=None),
              initials=[], styles=[], regions=[])
  # <body><div begin=10><p end=5>a</p></div></body>: p is active during [10, 15) and so is div (implicit par duration)
  d1 = dict(base, body=e("body", "b", [e("div", "d", [e("p", "p", [t("a")], end=5)], begin=10)]))
  tm = Timing(d1)
  assert tm.iv["d"] == (F(10), F(15)) and tm.iv["p"] == (F(0), F(5)) and tm.r1_sites == ["d"], tm.iv
  # seq: second child starts when the first ends; dur and end: the earlier wins; text in seq has zero duration
  d2 = dict(base, body=e("body", "b", [e("div", "d", [e("p", "p1", [t("a")], dur=2), e("p", "p2", [t("b")], begin=1, dur=5, end=4),
                                                    e("p", "p3", [t("c")])], tc="seq", begin=1)]))
  tm = Timing(d2)
  assert tm.iv["p1"] == (F(0), F(2)) and tm.iv["p2"] == (F(3), F(6)) and tm.iv["p3"] == (F(6), None) and tm.iv["d"] == (F(1), None), tm.iv
  assert tm.iv["b"] == (F(0), None) and not tm.r2_sites
  d3 = dict(base, body=e("body", "b", [e("div", "d", [e("p", "p1", [t("a")]), e("p", "p2", [t("b")])], tc="seq")]))
  tm = Timing(d3)
  assert tm.r2_sites == ["p2"] and tm.iv["p2"] is None
  # style resolution: chained < later chained < own; referential in order; inline last
  red, blue, green = s.NamedColors.red.value, s.NamedColors.blue.value, s.NamedColors.green.value

  def at(p, v):
    return {"p": p, "v": v, "x": "?"}
  d4 = dict(base, styles=[{"id": "s0", "refs": ["s1", "s2"], "attrs": [at("Opacity", 0.5)]},
                          {"id": "s1", "refs": [], "attrs": [at("Color", red), at("Opacity", 1.0), at("BackgroundColor", red)]},
                          {"id": "s2", "refs": ["s3"], "attrs": [at("Color", blue)]},
                          {"id": "s3", "refs": [], "attrs": [at("Color", green), at("FontStyle", s.FontStyleType.italic)]}],
            body=e("body", "b", [], refs=["s1", "s0", "nosuch"], attrs=[at("BackgroundColor", green)], end=1))
  sp = to_docspec(d4)
  assert sp["body"]["styles"] == {"Color": blue, "Opacity": 0.5, "BackgroundColor": green, "FontStyle": s.FontStyleType.italic}, sp["body"]["styles"]
