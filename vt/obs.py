"""Observation of ttconv ISDs as plain data and comparison with the reference interpreter's snapshots."""
from fractions import Fraction as F

import ttconv.model as m
import ttconv.style_properties as s

from vt.gen_model import PROP, KIND_OF
from vt import ref_isd
from vt.ref_isd import UNKNOWN, APPLICABLE, nonspace


def num(x):
  return x if isinstance(x, F) else F(x)


def tl(l):
  return (num(l.value), l.units.value)


def conv(name, v):
  """ttconv style value -> the reference's plain-data form"""
  if v is None:
    return None
  if name in ("FontSize", "LinePadding", "Disparity"):
    return tl(v)
  if name == "Extent":
    return (tl(v.height), tl(v.width))
  if name == "Origin":
    return (tl(v.x), tl(v.y))
  if name == "Position":
    if v.h_edge is s.PositionType.HEdge.left and v.v_edge is s.PositionType.VEdge.top:
      return (tl(v.h_offset), tl(v.v_offset))
    return ("edges", v.h_edge.value, v.v_edge.value, tl(v.h_offset), tl(v.v_offset))
  if name == "Padding":
    return (tl(v.before), tl(v.end), tl(v.after), tl(v.start))
  if name == "LineHeight":
    return "normal" if v is s.SpecialValues.normal else tl(v)
  if name == "RubyReserve":
    return "none" if v is s.SpecialValues.none else (v.position, tl(v.length) if v.length is not None else None)
  if name == "TextOutline":
    return "none" if v is s.SpecialValues.none else (v.color, tl(v.thickness))
  if name == "TextShadow":
    return "none" if v is s.SpecialValues.none else tuple(
      (tl(x.x_offset), tl(x.y_offset), None if x.blur_radius is None else tl(x.blur_radius), x.color) for x in v.shadows)
  if name == "TextEmphasis":
    return "none" if v is s.SpecialValues.none else (v.style, v.color, v.position)
  if name == "TextDecoration":
    return (bool(v.underline), bool(v.line_through), bool(v.overline))
  return v


def close(a, b):
  if isinstance(a, tuple) and isinstance(b, tuple):
    return len(a) == len(b) and all(close(x, y) for x, y in zip(a, b))
  if isinstance(a, bool) or isinstance(b, bool):
    return a == b
  if isinstance(a, (int, float, F)) and isinstance(b, (int, float, F)):
    a, b = num(a), num(b)
    return abs(a - b) <= F(1, 10 ** 9) * max(1, abs(a), abs(b))
  return a == b


def kind_of(e):
  if isinstance(e, m.Region):
    return "region"
  return KIND_OF.get(type(e), type(e).__name__)


class IsdRegion:
  """plain view of one ISD region"""

  def __init__(self, region):
    self.id = region.get_id()
    self.element = region
    self.leaves = []      # (kind, text, chain ids)
    self.elements = {}    # id -> element (containers, document order preserved in self.order)
    self.order = []
    self.dup_ids = []
    for body in region:
      self._walk(body, ())

  def _walk(self, e, chain):
    if isinstance(e, m.Text):
      self.leaves.append(("text", e.get_text(), chain))
      return
    if isinstance(e, m.Br):
      self.leaves.append(("br", None, chain + (e.get_id(),)))
      return
    eid = e.get_id()
    if eid in self.elements:
      self.dup_ids.append(eid)
    self.elements[eid] = e
    self.order.append(eid)
    for c in e:
      self._walk(c, chain + (eid,))


def observe(isd):
  return [IsdRegion(r) for r in isd.iter_regions()]


def fmt(v):
  if isinstance(v, tuple):
    return "(" + ", ".join(fmt(x) for x in v) + ")"
  if isinstance(v, F):
    return str(float(v)) if v.denominator > 1000 else str(v)
  if hasattr(v, "name") and hasattr(v, "value") and not isinstance(v, (int, float)):
    return str(getattr(v, "name"))
  if isinstance(v, s.ColorType):
    return "#%02x%02x%02x%02x" % tuple(v.components)
  return repr(v)


def ruby_flags(sn):
  """For one reference region snapshot: (ids of rb/rbc elements of rubies that do not keep all their children in the snapshot,
  ids of those rubies, set of leaf node object ids that are optional).

  The data model cannot hold a ruby without its annotation (or an rtc with an unpaired delimiter): when a child of a ruby is not
  presented (inactive, display none, not associated, or without any text left) ttconv presents the base text in a span that takes
  the place of the ruby.  For such a ruby the base text stays required, annotation and delimiter text become optional, and the
  rb / rbc levels are ignored in ancestor chains.  Text of an unpaired delimiter (rp) inside an rtc is optional too."""
  kid_leaves = {}
  for l in sn.leaves:
    for eid in l.chain:
      kid_leaves.setdefault(eid, []).append(l)

  def has_content(eid):
    for l in kid_leaves.get(eid, ()):
      if l.kind == "br" or nonspace(l.text) or (l.preserve and l.text != ""):
        return True
    return False

  def survives(n):
    if n["id"] not in sn.elements:
      return False
    if n["kind"] in ("rb", "rbc"):
      return True
    if n["kind"] in ("rt", "rp"):
      return has_content(n["id"])
    if n["kind"] == "rtc":
      return any(survives(k) for k in n["kids"] if k["kind"] == "rt") or \
             (len([k for k in n["kids"] if k["kind"] == "rp" and survives(k)]) == 2)
    return True

  strip, rubies, optional = set(), set(), set()
  for eid, (n, _cc) in sn.elements.items():
    if n["kind"] == "rtc":
      rps = [k for k in n["kids"] if k["kind"] == "rp"]
      if rps and not all(survives(k) for k in rps):
        for k in rps:
          optional.update(id(l.node) for l in kid_leaves.get(k["id"], ()))
    if n["kind"] != "ruby":
      continue
    if all(survives(k) for k in n["kids"]):
      continue
    rubies.add(eid)
    for k in n["kids"]:
      if k["kind"] in ("rb", "rbc"):
        strip.add(k["id"])
        strip.update(x["id"] for x in k["kids"] if x["kind"] == "rb")
      else:
        optional.update(id(l.node) for l in kid_leaves.get(k["id"], ()))
  return strip, rubies, optional


def compare_presence(ref_snaps, isd_regions, res, default_region):
  """C01 clauses: nothing lost, nothing added, once and in order, ancestors intact, text content."""
  got = {r.id: r for r in isd_regions}
  if len(got) != len(isd_regions):
    res.fail("presence:duplicate-region-id", [r.id for r in isd_regions])
  ref_ids = [sn.id for sn in ref_snaps]
  order = [r.id for r in isd_regions if r.id in ref_ids]
  if order != [i for i in ref_ids if i in got]:
    res.fail("presence:region-order", "isd %r reference %r" % (order, ref_ids))
  seen_text = {}
  for sn in ref_snaps:
    strip, rubies, optional = ruby_flags(sn)
    g = got.get(sn.id)
    if strip or optional:
      res.labels["ruby-with-pruned-child"] += 1
    if g is not None and (strip or optional):
      g.leaves = [(k, x, tuple(i for i in c if i not in strip)) for (k, x, c) in g.leaves]
      present = {(k, nonspace(x), c) for (k, x, c) in g.leaves}
    else:
      present = set()
    rl = []
    for l in sn.leaves:
      c = tuple(i for i in l.chain if i not in strip)
      if id(l.node) in optional and (l.kind, nonspace(l.text), c) not in present:
        continue                  # optional leaf that ttconv does not present
      rl.append((l.kind, nonspace(l.text), c))
    want_t = [(c, x) for (k, x, c) in rl if k == "text" and x]
    want_b = [c for (k, x, c) in rl if k == "br"]
    g = got.pop(sn.id, None)
    if g is None:
      if want_t or want_b:
        what = "default-region" if default_region else "region"
        res.fail("presence:lost:%s-missing" % what, "region %s should present %r" % (sn.id, want_t[:4] or want_b[:4]))
      continue
    if g.dup_ids:
      res.fail("presence:duplicate-element", "region %s ids %r" % (sn.id, g.dup_ids))
    gl = [(k, nonspace(x), c) for (k, x, c) in g.leaves]
    got_t = [(c, x) for (k, x, c) in gl if k == "text" and x]
    got_b = [c for (k, x, c) in gl if k == "br"]
    if got_t != want_t:
      gs, ws = set(got_t), set(want_t)
      if ws - gs:
        res.fail("presence:lost:text", "region %s lost %r" % (sn.id, sorted(ws - gs)[:3]))
      if gs - ws:
        gtx, wtx = {x for _c, x in got_t}, {x for _c, x in want_t}
        if gtx - wtx:
          res.fail("presence:added:text", "region %s shows %r" % (sn.id, sorted(gs - ws)[:3]))
        else:
          res.fail("presence:ancestors:text", "region %s %r" % (sn.id, sorted(gs - ws)[:3]))
      if gs == ws:
        if len(got_t) != len(want_t):
          res.fail("presence:duplicated:text", "region %s %r vs %r" % (sn.id, got_t[:6], want_t[:6]))
        else:
          res.fail("presence:order:text", "region %s %r vs %r" % (sn.id, got_t[:6], want_t[:6]))
    if got_b != want_b:
      gs, ws = set(got_b), set(want_b)
      if ws - gs:
        res.fail("presence:lost:br", "region %s lost %r" % (sn.id, sorted(ws - gs)[:3]))
      elif gs - ws:
        res.fail("presence:added:br", "region %s shows %r" % (sn.id, sorted(gs - ws)[:3]))
      else:
        res.fail("presence:order:br", "region %s %r vs %r" % (sn.id, got_b[:6], want_b[:6]))
    # relative order of text and br leaves
    mixed_g = [(k, c if k == "br" else (c, x)) for (k, x, c) in gl if k == "br" or x]
    mixed_w = [(k, c if k == "br" else (c, x)) for (k, x, c) in rl if k == "br" or x]
    if got_t == want_t and got_b == want_b and mixed_g != mixed_w:
      res.fail("presence:order:text-vs-br", "region %s %r vs %r" % (sn.id, mixed_g[:8], mixed_w[:8]))
    # under xml:space=preserve every character of a presented text node is content: none may be lost (or added)
    raw = {}
    for (k, x, c) in g.leaves:
      if k == "text" and nonspace(x):
        raw.setdefault((c, nonspace(x)), x)
    for l in sn.leaves:
      if l.kind == "text" and l.preserve and nonspace(l.text):
        x = raw.get((tuple(i for i in l.chain if i not in strip), nonspace(l.text)))
        if x is not None and x != l.text:
          res.fail("presence:%s:preserved-character" % ("lost" if len(x) < len(l.text) else "changed"), "region %s: %r presented as %r" % (sn.id, l.text, x))
    for c, x in got_t:
      if x in seen_text and seen_text[x] != sn.id:
        res.fail("presence:text-in-two-regions", "%r in %s and %s" % (x, seen_text[x], sn.id))
      seen_text[x] = sn.id
    # containers: only active, associated, displayed source elements, in document order
    extra = [i for i in g.order if i not in sn.elements and i not in strip]
    if extra:
      res.fail("presence:added:container", "region %s contains %r" % (sn.id, extra[:4]))
    ro = [i for i in sn.order if i in g.elements]
    if [i for i in g.order if i in sn.elements] != ro:
      res.fail("presence:order:container", "region %s" % sn.id)
    for eid, e in g.elements.items():
      if eid in sn.elements and kind_of(e) != sn.elements[eid][0]["kind"] and not ((eid in rubies or eid in strip) and kind_of(e) == "span"):
        res.fail("presence:kind-changed", "%s is %s, source %s" % (eid, kind_of(e), sn.elements[eid][0]["kind"]))
  for rid, g in got.items():
    res.fail("presence:added:region", "region %s is not active/displayed in the reference (leaves %r)" % (rid, g.leaves[:3]))


def style_cells(sn, g):
  """yields (element id, kind, isd element, computed dict) for the region and every container present on both sides"""
  yield sn.id, "region", g.element, sn.computed
  for eid, e in g.elements.items():
    if eid in sn.elements and kind_of(e) == sn.elements[eid][0]["kind"]:     # a ruby presented as a span (pruned annotation) is skipped
      yield eid, sn.elements[eid][0]["kind"], e, sn.elements[eid][1]


def compare_styles(ref_snaps, isd_regions, res, stats=None):
  """C03: get_style(prop) == reference computed value for every applicable property of every element."""
  got = {r.id: r for r in isd_regions}
  for sn in ref_snaps:
    g = got.get(sn.id)
    if g is None:
      continue
    for eid, kind, e, cc in style_cells(sn, g):
      for name in APPLICABLE[kind]:
        rv = cc[name]
        if rv is UNKNOWN:
          if stats is not None:
            stats["unasserted:" + name] += 1
          continue
        try:
          gv = conv(name, e.get_style(PROP[name]))
        except AttributeError as ex:
          res.fail("style:%s:malformed-value" % name, "%s %s: %r (%s)" % (kind, eid, e.get_style(PROP[name]), ex))
          continue
        src = cc["__src"][name]
        if stats is not None:
          stats["cell:%s:%s" % (name, src)] += 1
        ok = close(gv, rv)
        if not ok:
          ok = any(close(gv, alt) for alt in cc["__alt"].get(name, ()))
        if not ok:
          res.fail(style_bucket(name, src, cc, gv, rv), "%s %s %s: ttconv %s reference %s (source %s)" % (
            kind, eid, name, fmt(gv), fmt(rv), src))


def style_bucket(name, src, cc, gv, rv):
  raw = cc["__raw"].get(name)
  feature = src
  if name in ("Position", "Origin") and cc["__raw"].get("Position") is not None:
    p = cc["__raw"]["Position"]
    feature = "position-edges:%s-%s" % (p.h_edge.value, p.v_edge.value)
  elif name == "Direction":
    feature = "direction:" + src
  elif isinstance(raw, s.LengthType):
    feature = "%s:%s" % (src, raw.units.name)
  elif name == "Padding" and raw is not None:
    feature = "%s:%s:%s" % (src, "vertical" if cc["WritingMode"] in ref_isd.VERTICAL else "horizontal",
                            "+".join(sorted({x.units.name for x in (raw.before, raw.end, raw.after, raw.start)})))
  if gv is None:
    feature += ":missing"
  return "style:%s:%s" % (name, feature)
