"""Integer-only SMPTE ST 12-1 label arithmetic, written independently of ttconv.time_code.

A rate is (nominal N, drop D): D = 0 for integer rates, 2 for 30000/1001, 4 for 60000/1001.
Drop-frame counting skips labels ff < D at second 0 of every minute not divisible by 10.
"""
from fractions import Fraction

RATES = {
  Fraction(24): (24, 0), Fraction(25): (25, 0), Fraction(30): (30, 0), Fraction(50): (50, 0), Fraction(60): (60, 0),
  Fraction(30000, 1001): (30, 2), Fraction(60000, 1001): (60, 4),
}


def frames_per_day(rate):
  n, d = RATES[rate]
  return 24 * 6 * (600 * n - 9 * d)


def label(rate, count):
  """(h, m, s, f) of frame number `count` (0-based)"""
  n, d = RATES[rate]
  if d == 0:
    s, f = divmod(count, n)
    m, s = divmod(s, 60)
    h, m = divmod(m, 60)
    return (h, m, s, f)
  fp10 = 600 * n - 9 * d
  fpm = 60 * n - d
  tens, rem = divmod(count, fp10)
  if rem < 60 * n:
    mi, fim = 0, rem
  else:
    q, r = divmod(rem - 60 * n, fpm)
    mi, fim = 1 + q, r + d
  minutes = tens * 10 + mi
  h, m = divmod(minutes, 60)
  s, f = divmod(fim, n)
  return (h, m, s, f)


def count(rate, h, m, s, f):
  n, d = RATES[rate]
  minutes = 60 * h + m
  return n * (3600 * h + 60 * m + s) + f - d * (minutes - minutes // 10)


def is_skipped(rate, h, m, s, f):
  n, d = RATES[rate]
  return d > 0 and s == 0 and f < d and m % 10 != 0


def selftest():
  for rate, (n, d) in RATES.items():
    total = frames_per_day(rate)
    assert label(rate, 0) == (0, 0, 0, 0)
    assert label(rate, total - 1) == (23, 59, 59, n - 1), (rate, label(rate, total - 1))
    prev = None
    for c in list(range(0, 40000)) + list(range(total - 40000, total)):
      l = label(rate, c)
      assert count(rate, *l) == c
      assert not is_skipped(rate, *l)
      assert l[1] < 60 and l[2] < 60 and l[3] < n
      if prev is not None and c and c != total - 40000:
        assert l > prev
      prev = l
  # SMPTE 12M example: 29.97 DF, one minute in: 00:00:59;29 is followed by 00:01:00;02
  r = Fraction(30000, 1001)
  assert label(r, 1799) == (0, 0, 59, 29) and label(r, 1800) == (0, 1, 0, 2)
  assert label(r, 17981) == (0, 9, 59, 29) and label(r, 17982) == (0, 10, 0, 0)
  # one hour of 29.97 DF is 107892 frames
  assert label(r, 107892) == (1, 0, 0, 0)
  r = Fraction(60000, 1001)
  assert label(r, 3599) == (0, 0, 59, 59) and label(r, 3600) == (0, 1, 0, 4)
  assert label(r, 215784) == (1, 0, 0, 0)
