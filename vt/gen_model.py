"""DocSpec: JSON-serialisable description of a canonical-model document, Hypothesis strategies for it, and build()/spec_of().

A DocSpec is
  {"lang", "cell": (cols, rows), "px": (w, h), "active_area": None|(l, t, w, h), "dar": None|Fraction,
   "initials": {PropName: value}, "regions": [node...], "body": node|None}
and a node is
  {"kind", "id", "begin", "end", "region", "styles": {PropName: value}, "anims": [(PropName, begin, end, value)...],
   "kids": [node...], "space": "default"|"preserve", "lang": str, "text": str (text nodes only)}
Style values are instances of the ttconv.style_properties value types (plain frozen dataclasses / enums).
"""
from fractions import Fraction as F

from hypothesis import strategies as st

import ttconv.model as m
import ttconv.style_properties as s

SP = s.StyleProperties
L = s.LengthType
U = L.Units
ALL_PROPS = sorted(p.__name__ for p in SP.ALL)
PROP = {n: getattr(SP, n) for n in ALL_PROPS}
KINDS = {"body": m.Body, "div": m.Div, "p": m.P, "span": m.Span, "br": m.Br, "text": m.Text, "ruby": m.Ruby, "rb": m.Rb,
         "rt": m.Rt, "rp": m.Rp, "rbc": m.Rbc, "rtc": m.Rtc, "region": m.Region}
KIND_OF = {v: k for k, v in KINDS.items()}
TIMES = [F(0), F(1, 3), F(1, 2), F(1), F(3, 2), F(2), F(5, 2), F(3), F(4), F(5), F(7), F(10)]

DEFAULT_PROFILE = dict(
  ruby=True,            # ruby containers
  ruby_full=False,      # ruby bases are also plain and non-blank (every ruby part always has text)
  ruby_timed=False,     # timing / region / display on ruby annotation parts (ttconv finding I-3)
  animation=True,
  br_styles=False,      # styles on br
  max_regions=3,
  hiding=True,          # display / visibility / opacity values that hide content
  style_density=(0, 4), # specified properties per element
  props=None,           # restrict the properties used (None = all 36)
  edges=True,           # tts:position with right/bottom edges
  exotic_numbers=True,  # floats / Fractions as numeric values
  extreme_numbers=False,  # also numeric values below 1e-4 and above 1e6
  arbitrary_times=True,
  max_depth=5,
  fanout=3,
  preserve=True,
  text_markup=False,    # markup-significant characters in text
  text_unicode=False,   # non-BMP / combining characters
  xml_safe=False,       # only XML 1.0 Chars (no CR) in text
  doc_params=True,
  disparity=True,
  body_prob=0.95,
  timed_regions=True,
  region_refs=0.35,
  time_shifts=None,     # offsets one of which is added to the body's interval (None: times stay below about 40 s)
  text_ws=True,
  max_nodes=40,
  anim_counts=(0, 0, 0, 1, 2, 3),
  initial_counts=(0, 0, 1, 2, 4),
  nested_region_refs=True,  # region references below an element that already references a region
  time_density=4,       # one in `time_density` begin/end attributes is set
  body_divs=None,       # (lo, hi) number of div children of body, overriding fanout
  dense=True,           # containers usually have children and content is usually associated with a region
  anim_on_offset=True,  # animation steps on elements / regions whose own begin is non-zero (ttconv finding I-1)
)


def profile(**kw):
  p = dict(DEFAULT_PROFILE)
  for k in kw:
    if k not in p:
      raise KeyError(k)
  p.update(kw)
  return p


# ---------------------------------------------------------------------------------------------- values

def numbers(prof, lo=0, hi=100):
  base = st.sampled_from([0, 1, 2, 10, 50, 100, 0.5, 12.5, 33, 80, 5, 25, 150])
  if not prof["exotic_numbers"]:
    return base
  pool = [base, base, st.integers(lo, hi), st.floats(max(lo, 0.0078125), hi, allow_nan=False, allow_infinity=False, width=32).map(float),
          st.fractions(lo, hi, max_denominator=12)]
  if prof["extreme_numbers"]:
    # magnitudes that '%g' prints with an exponent
    pool.append(st.sampled_from([0.00001, 0.00002, 1234567, 2500000.5]))
  return st.one_of(*pool)


def lengths(prof, units):
  return st.builds(L, numbers(prof), st.sampled_from(units))


def colors():
  named = st.sampled_from([c.value for c in (s.NamedColors.red, s.NamedColors.white, s.NamedColors.transparent, s.NamedColors.black,
                                             s.NamedColors.yellow, s.NamedColors.blue)])
  return st.one_of(named, st.tuples(*[st.integers(0, 255)] * 4).map(s.ColorType))


FS_U = [U.pct, U.em, U.c, U.px, U.rh, U.rw]
H_U = [U.pct, U.px, U.c, U.rh]
W_U = [U.pct, U.px, U.c, U.rw]
ANY_U = [U.pct, U.em, U.c, U.px, U.rh, U.rw]


def enum_of(e):
  return st.sampled_from(list(e))


def value_strategy(name, prof):
  """strategy for valid values of style property `name` (every enum member, every accepted unit, special values)"""
  if name in ("BackgroundColor", "Color"):
    return colors()
  if name == "Direction":
    return enum_of(s.DirectionType)
  if name == "Disparity":
    return lengths(prof, [U.pct, U.px, U.c, U.rw, U.em])
  if name == "Display":
    return st.sampled_from([s.DisplayType.auto, s.DisplayType.auto, s.DisplayType.none] if prof["hiding"] else [s.DisplayType.auto])
  if name == "DisplayAlign":
    return enum_of(s.DisplayAlignType)
  if name == "Extent":
    return st.builds(s.ExtentType, height=lengths(prof, H_U), width=lengths(prof, W_U))
  if name == "FillLineGap":
    return st.booleans()
  if name == "FontFamily":
    item = st.one_of(enum_of(s.GenericFontFamilyType), st.sampled_from(["Arial", "A b", "Courier New", "x'y", "a,b", "a\\b", "q\"r", "e\\", "n\nl"]))
    return st.lists(item, min_size=1, max_size=3).map(tuple)
  if name == "FontSize":
    return lengths(prof, FS_U)
  if name == "FontStyle":
    return enum_of(s.FontStyleType)
  if name == "FontWeight":
    return enum_of(s.FontWeightType)
  if name == "LineHeight":
    return st.one_of(st.just(s.SpecialValues.normal), lengths(prof, FS_U))
  if name == "LinePadding":
    return lengths(prof, [U.c, U.rh, U.rw])
  if name == "LuminanceGain":
    return st.sampled_from([1.0, 2.5, 0, 1, 0.25])
  if name == "MultiRowAlign":
    return enum_of(s.MultiRowAlignType)
  if name == "Opacity":
    return st.sampled_from([1.0, 0.5, 0, 1, 0.25] if prof["hiding"] else [1.0, 0.5, 1, 0.25])
  if name == "Origin":
    return st.builds(s.CoordinateType, x=lengths(prof, W_U), y=lengths(prof, H_U))
  if name == "Overflow":
    return enum_of(s.OverflowType)
  if name == "Padding":
    # four independent lengths, or the patterns that the one- to three-component shorthands of tts:padding stand for
    def shaped(a, b, c, d, k):
      before, end, after, start = [(a, b, c, d), (a, a, a, a), (a, b, a, b), (a, b, c, b), (a, b, a, d), (a, a, c, d)][k]
      return s.PaddingType(before, end, after, start)
    return st.builds(shaped, *[lengths(prof, ANY_U)] * 4, st.sampled_from([0, 0, 0, 1, 2, 3, 4, 5]))
  if name == "Position":
    he = enum_of(s.PositionType.HEdge) if prof["edges"] else st.just(s.PositionType.HEdge.left)
    ve = enum_of(s.PositionType.VEdge) if prof["edges"] else st.just(s.PositionType.VEdge.top)
    return st.builds(s.PositionType, h_offset=lengths(prof, W_U), v_offset=lengths(prof, H_U), h_edge=he, v_edge=ve)
  if name == "RubyAlign":
    return enum_of(s.RubyAlignType)
  if name == "RubyPosition":
    return enum_of(s.AnnotationPositionType)
  if name == "RubyReserve":
    return st.one_of(st.just(s.SpecialValues.none),
                     st.builds(s.RubyReserveType, enum_of(s.RubyReserveType.Position), st.one_of(st.none(), lengths(prof, FS_U))))
  if name == "Shear":
    return st.sampled_from([0.0, 16.7, -10, 100, 0] + ([0.00001, -0.00002] if prof["extreme_numbers"] else []))
  if name == "ShowBackground":
    return enum_of(s.ShowBackgroundType)
  if name == "TextAlign":
    return enum_of(s.TextAlignType)
  if name == "TextCombine":
    return enum_of(s.TextCombineType)
  if name == "TextDecoration":
    tri = st.sampled_from([None, True, False])
    return st.builds(s.TextDecorationType, tri, tri, tri)
  if name == "TextEmphasis":
    return st.one_of(st.just(s.SpecialValues.none),
                     st.builds(s.TextEmphasisType, enum_of(s.TextEmphasisType.Style), st.one_of(st.none(), colors()),
                               enum_of(s.TextEmphasisType.Position)))
  if name == "TextOutline":
    return st.one_of(st.just(s.SpecialValues.none), st.builds(s.TextOutlineType, lengths(prof, FS_U), st.one_of(st.none(), colors())))
  if name == "TextShadow":
    shadow = st.builds(s.TextShadowType.Shadow, lengths(prof, FS_U), lengths(prof, FS_U), st.one_of(st.none(), lengths(prof, FS_U)),
                       st.one_of(st.none(), colors()))
    return st.one_of(st.just(s.SpecialValues.none), st.lists(shadow, min_size=1, max_size=3).map(lambda x: s.TextShadowType(tuple(x))))
  if name == "UnicodeBidi":
    return enum_of(s.UnicodeBidiType)
  if name == "Visibility":
    return enum_of(s.VisibilityType) if prof["hiding"] else st.just(s.VisibilityType.visible)
  if name == "WrapOption":
    return enum_of(s.WrapOptionType)
  if name == "WritingMode":
    return enum_of(s.WritingModeType)
  raise KeyError(name)


def times(prof):
  lattice = st.sampled_from(TIMES)
  if not prof["arbitrary_times"]:
    return lattice
  return st.one_of(lattice, lattice, lattice, lattice, st.fractions(0, 12, max_denominator=30030))


def opt_time(prof, p_none=0.75):
  """None most of the time: one draw in prof["time_density"] (one in two when p_none < 0.7) is a time"""
  k = prof["time_density"] if p_none >= 0.7 else 2
  return st.integers(0, k - 1).flatmap(lambda i: times(prof) if i == 0 else st.none())


class _Ctx:
  def __init__(self, prof):
    self.prof = prof
    self.n = 0
    self.nodes = 0
    self.props = [p for p in (prof["props"] or ALL_PROPS) if prof["disparity"] or p != "Disparity"]

  def nid(self, kind):
    self.n += 1
    return "%s%d" % (kind, self.n)


def _styles(draw, ctx, lo_hi=None):
  lo, hi = lo_hi or ctx.prof["style_density"]
  hi = min(hi, len(ctx.props))
  lo = min(lo, hi)
  names = draw(st.lists(st.sampled_from(ctx.props), min_size=lo, max_size=hi, unique=True))
  return {n: draw(value_strategy(n, ctx.prof)) for n in names}


def _anims(draw, ctx):
  if not ctx.prof["animation"]:
    return []
  n = draw(st.sampled_from(ctx.prof["anim_counts"]))
  out = []
  for _ in range(n):
    name = draw(st.sampled_from(ctx.props))
    out.append((name, draw(opt_time(ctx.prof, 0.5)), draw(opt_time(ctx.prof, 0.5)), draw(value_strategy(name, ctx.prof))))
  return out


WS_PIECES = [" ", "  ", "\t", "\n", " \n ", ""]


def _text(draw, ctx, nonblank=False):
  prof = ctx.prof
  pieces = []
  if nonblank:
    ctx.n += 1
    pieces.append("w%d" % ctx.n)
  for _ in range(draw(st.integers(0, 4))):
    k = draw(st.integers(0, 9))
    if k <= 4 or not prof["text_ws"]:
      ctx.n += 1
      pieces.append("w%d" % ctx.n)
      if not prof["text_ws"] and k > 6:
        pieces.append(" ")
    elif k <= 8:
      pieces.append(draw(st.sampled_from(WS_PIECES)))
    elif prof["text_markup"]:
      pieces.append(draw(st.sampled_from(["&", "<", ">", '"', "-->", "{", "&amp;", "<b>", "}", "\\"])))
    elif prof["text_unicode"]:
      pieces.append(draw(st.sampled_from(["\U0001F600", "e\u0301", "\u00e9", "\u4e2d", "\u05d0", "\u00a0", "\u2028", "\u3000", "\u0085",
                                          "\u2029", "\u2003"])))
    elif not prof["xml_safe"]:
      pieces.append(draw(st.sampled_from(["\r", "\r\n", "\r ", "\r\r", "\n\r"])))
  return "".join(pieces)


def _node(draw, ctx, kind, depth, regions, in_ruby_annot=False, plain_self=False, assoc=False):
  prof = ctx.prof
  ctx.nodes += 1
  n = dict(kind=kind, id=None, begin=None, end=None, region=None, styles={}, anims=[], kids=[], space="default", lang="")
  if kind == "text":
    n["text"] = _text(draw, ctx, in_ruby_annot and not prof["ruby_timed"])
    return n
  n["id"] = ctx.nid(kind)
  if prof["preserve"]:
    n["space"] = draw(st.sampled_from(["default", "default", "preserve"]))
  n["lang"] = draw(st.sampled_from(["", "", "en", "fr-CA"]))
  if kind == "br":
    if prof["br_styles"] and draw(st.integers(0, 3)) == 0:
      n["styles"] = _styles(draw, ctx, (1, 2))
    if prof["br_styles"] and prof["animation"] and draw(st.integers(0, 4)) == 0:
      # a set child of br (the IMSC reader accepts it): a colour, which changes nothing about the line break
      n["anims"] = [("Color", draw(opt_time(prof, 0.5)), draw(opt_time(prof, 0.5)), draw(value_strategy("Color", prof)))]
    return n
  plain = (in_ruby_annot or plain_self) and not prof["ruby_timed"]
  if not plain:
    n["begin"] = draw(opt_time(prof))
    n["end"] = draw(opt_time(prof))
    p_ref = prof["region_refs"]
    if not assoc and prof["dense"]:
      p_ref = max(p_ref, {"body": 0.3, "div": 0.5, "p": 0.6}.get(kind, p_ref))
    if regions and draw(st.integers(0, 99)) < 100 * p_ref and (prof["nested_region_refs"] or not assoc):
      n["region"] = draw(st.sampled_from(regions))
  if kind == "ruby" and regions and not assoc and n["region"] is None and not prof["ruby_timed"]:
    n["region"] = draw(st.sampled_from(regions))   # an unassociated ruby loses its annotation text: ttconv finding I-3
  assoc = assoc or n["region"] is not None
  n["styles"] = _styles(draw, ctx)
  n["anims"] = _anims(draw, ctx)
  if n["anims"] and not prof["anim_on_offset"]:
    n["begin"] = None
  if plain:
    n["styles"].pop("Display", None)
    n["anims"] = [a for a in n["anims"] if a[0] != "Display"]
  budget_ok = ctx.nodes < prof["max_nodes"]

  def kids(choices, lo, hi):
    if lo == 0 and prof["dense"] and budget_ok and draw(st.integers(0, 9)) < 8:
      lo = 1
    k = draw(st.integers(lo, hi if budget_ok else lo))
    for _ in range(k):
      ck = draw(st.sampled_from(choices))
      if depth >= prof["max_depth"]:
        if ck == "div":
          ck = "p"
        elif ck == "ruby":
          ck = "br"
        elif ck == "span" and kind == "span":
          ck = "text"
      n["kids"].append(_node(draw, ctx, ck, depth + 1, regions, in_ruby_annot, False, assoc))

  fan = prof["fanout"]
  if kind == "body":
    if prof["body_divs"]:
      kids(["div"], prof["body_divs"][0], prof["body_divs"][1])
    else:
      kids(["div"], 0, fan)
  elif kind == "div":
    kids(["div", "p", "p"], 0, fan)
  elif kind == "p":
    kids(["span", "span", "span", "br", "ruby"] if prof["ruby"] else ["span", "span", "br"], 0, fan + 1)
  elif kind == "span":
    if in_ruby_annot:
      kids(["text"], 1, 2)
    else:
      kids(["span", "text", "text", "text", "br"], 0, fan)
  elif kind == "ruby":
    pat = draw(st.sampled_from([["rb", "rt"], ["rb", "rp", "rt", "rp"], ["rbc", "rtc"], ["rbc", "rtc", "rtc"]]))
    n["kids"] = [_node(draw, ctx, k, depth + 1, regions, prof["ruby_full"] or (k != "rb" and k != "rbc"), True, assoc) for k in pat]
  elif kind in ("rb", "rt", "rp"):
    kids(["span"], 1, 2)
  elif kind == "rbc":
    kids(["rb"], 1, 2)
  elif kind == "rtc":
    pat = draw(st.sampled_from([["rt"], ["rt", "rt"], ["rp", "rt", "rp"]]))
    n["kids"] = [_node(draw, ctx, k, depth + 1, regions, True, False, assoc) for k in pat]
  return n


@st.composite
def docspecs(draw, prof=None):
  prof = prof or DEFAULT_PROFILE
  ctx = _Ctx(prof)
  d = dict(lang="", cell=(32, 15), px=(1920, 1080), active_area=None, dar=None, initials={}, regions=[], body=None)
  if prof["doc_params"]:
    d["lang"] = draw(st.sampled_from(["", "en", "ja"]))
    d["cell"] = draw(st.one_of(st.sampled_from([(32, 15), (40, 23), (1, 1), (52, 19)]), st.tuples(st.integers(1, 99), st.integers(1, 99))))
    d["px"] = draw(st.one_of(st.sampled_from([(1920, 1080), (640, 480), (1, 1)]), st.tuples(st.integers(1, 4000), st.integers(1, 3000))))
    if draw(st.integers(0, 3)) == 0:
      d["active_area"] = draw(st.sampled_from([(0.0, 0.0, 1.0, 1.0), (0.1, 0.125, 0.8, 0.75), (0, 0, 0.5, 0.5), (0.9, 0.7, 0.1, 0.3),
                                                (0.3, 0.6, 0.7, 0.4)]))
    if draw(st.integers(0, 3)) == 0:
      d["dar"] = draw(st.sampled_from([F(16, 9), F(4, 3), F(1)]))
    ni = min(draw(st.sampled_from(prof["initial_counts"])), len(ctx.props))
    names = draw(st.lists(st.sampled_from(ctx.props), min_size=ni, max_size=ni, unique=True))
    d["initials"] = {n: draw(value_strategy(n, prof)) for n in names}
  nreg = draw(st.integers(0, prof["max_regions"]))
  for i in range(nreg):
    # ids in the reverse of declaration order: document order and the order of the ids are different things (seeded change C06-19)
    r = dict(kind="region", id="r%d" % (nreg - 1 - i), begin=None, end=None, region=None, styles=_styles(draw, ctx, (prof["style_density"][0], max(5, prof["style_density"][1]))),
             anims=_anims(draw, ctx), kids=[], space="default", lang="")
    if prof["timed_regions"]:
      r["begin"] = draw(opt_time(prof))
      r["end"] = draw(opt_time(prof))
      if r["anims"] and not prof["anim_on_offset"]:
        r["begin"] = None
    d["regions"].append(r)
  if draw(st.floats(0, 1)) < prof["body_prob"]:
    d["body"] = _node(draw, ctx, "body", 0, [r["id"] for r in d["regions"]])
  if prof["time_shifts"]:
    shift_times(d, draw(st.sampled_from(prof["time_shifts"])))
  return d


def equal_steps_on_siblings(spec, value, offset_second=True):
  """two siblings, the first ending at 2 s, the second beginning at 3 s (or, with offset_second=False, with its parent), each carrying
  the step (Color, begin 1 s, `value`): value-equal animation steps are equal objects for anything keyed by value"""
  if spec["body"] is None:
    return spec
  for n in walk(spec["body"]):
    kids = [k for k in n["kids"] if k["kind"] in ("div", "p", "span")]
    if len(kids) >= 2:
      a, b = kids[0], kids[1]
      a["begin"], a["end"] = None, F(2)
      b["begin"], b["end"] = (F(3) if offset_second else None), None
      for k in (a, b):
        k["anims"] = [x for x in k["anims"] if x[0] != "Color"] + [("Color", F(1), None, value)]
      break
  return spec


def shift_times(spec, shift):
  """moves the whole body later by `shift` seconds (minute / hour fields of written times, carries across them).  Left alone
  when the body carries animation steps or a region is timed or animated with timed steps: their times do not move with the body"""
  body = spec["body"]
  if not shift or body is None or body["anims"]:
    return spec
  for r in spec["regions"]:
    if r["begin"] is not None or r["end"] is not None or any(a[1] is not None or a[2] is not None for a in r["anims"]):
      return spec
  body["begin"] = (body["begin"] or F(0)) + shift
  if body["end"] is not None:
    body["end"] = body["end"] + shift
  return spec


# ---------------------------------------------------------------------------------------------- build / read back

def build(spec):
  """DocSpec -> ContentDocument through the public model API only (a failure here is a harness error)"""
  try:
    return _build(spec)
  except Exception as e:  # pylint: disable=broad-except
    from vt.run import HarnessError
    raise HarnessError("cannot build generated document: %s: %s" % (type(e).__name__, e)) from e


def _build(spec):
  doc = m.ContentDocument()
  doc.set_lang(spec["lang"])
  doc.set_cell_resolution(m.CellResolutionType(columns=spec["cell"][0], rows=spec["cell"][1]))
  doc.set_px_resolution(m.PixelResolutionType(width=spec["px"][0], height=spec["px"][1]))
  if spec.get("active_area") is not None:
    doc.set_active_area(m.ActiveAreaType(*spec["active_area"]))
  if spec.get("dar") is not None:
    doc.set_display_aspect_ratio(spec["dar"])
  for k, v in spec["initials"].items():
    doc.put_initial_value(PROP[k], v)
  regs = {}
  for r in spec["regions"]:
    reg = m.Region(r["id"], doc)
    reg.set_begin(r["begin"])
    reg.set_end(r["end"])
    reg.set_lang(r.get("lang", ""))
    reg.set_space(m.WhiteSpaceHandling(r.get("space", "default")))
    for k, v in r["styles"].items():
      reg.set_style(PROP[k], v)
    for (k, b, e, v) in r["anims"]:
      reg.add_animation_step(m.DiscreteAnimationStep(PROP[k], b, e, v))
    doc.put_region(reg)
    regs[r["id"]] = reg

  def mk(n):
    if n["kind"] == "text":
      return m.Text(doc, n["text"])
    e = KINDS[n["kind"]](doc)
    if not n.get("anon"):      # "anon": the element carries no xml:id in the document (its id only names it inside the DocSpec)
      e.set_id(n["id"])
    e.set_space(m.WhiteSpaceHandling(n["space"]))
    e.set_lang(n["lang"])
    if n["kind"] != "br":
      e.set_begin(n["begin"])
      e.set_end(n["end"])
      if n["region"]:
        e.set_region(regs[n["region"]])
    for k, v in n["styles"].items():
      e.set_style(PROP[k], v)
    for (k, b, en, v) in n["anims"]:
      e.add_animation_step(m.DiscreteAnimationStep(PROP[k], b, en, v))
    ks = [mk(c) for c in n["kids"]]
    if ks:
      e.push_children(ks)
    return e

  if spec["body"] is not None:
    doc.set_body(mk(spec["body"]))
  return doc


def spec_of_element(e):
  kind = KIND_OF[type(e)] if type(e) in KIND_OF else ("region" if isinstance(e, m.Region) else type(e).__name__)
  n = dict(kind=kind, id=e.get_id(), begin=e.get_begin(), end=e.get_end(),
           region=None if e.get_region() is None else e.get_region().get_id(),
           styles={p.__name__: e.get_style(p) for p in e.iter_styles()},
           anims=[(a.style_property.__name__, a.begin, a.end, a.value) for a in e.iter_animation_steps()],
           kids=[spec_of_element(c) for c in e], space=e.get_space().value, lang=e.get_lang())
  if isinstance(e, m.Text):
    n["text"] = e.get_text()
  return n


def spec_of(doc):
  """ContentDocument -> DocSpec through public getters only"""
  cr = doc.get_cell_resolution()
  px = doc.get_px_resolution()
  aa = doc.get_active_area()
  return dict(lang=doc.get_lang(), cell=(cr.columns, cr.rows), px=(px.width, px.height),
              active_area=None if aa is None else (aa.left_offset, aa.top_offset, aa.width, aa.height),
              dar=doc.get_display_aspect_ratio(),
              initials={p.__name__: v for p, v in doc.iter_initial_values()},
              regions=[spec_of_element(r) for r in doc.iter_regions()],
              body=None if doc.get_body() is None else spec_of_element(doc.get_body()))


def walk(n):
  yield n
  for k in n["kids"]:
    yield from walk(k)


def all_nodes(spec):
  for r in spec["regions"]:
    yield r
  if spec["body"] is not None:
    yield from walk(spec["body"])


# ---------------------------------------------------------------------------------------------- shrinking DocSpecs

def _copy(n):
  if isinstance(n, dict):
    return {k: _copy(v) for k, v in n.items()}
  if isinstance(n, list):
    return [_copy(v) for v in n]
  return n


def simplifications(spec):
  """yields simpler variants of a DocSpec (one edit each), most aggressive first; used by the greedy minimiser"""
  if spec["body"] is not None:
    s2 = _copy(spec)
    s2["body"] = None
    yield s2
  for i, r in enumerate(spec["regions"]):
    s2 = _copy(spec)
    rid = s2["regions"].pop(i)["id"]
    for n in all_nodes(s2):
      if n.get("region") == rid:
        n["region"] = None
    yield s2
  for k in list(spec["initials"]):
    s2 = _copy(spec)
    del s2["initials"][k]
    yield s2
  for key, dflt in (("cell", (32, 15)), ("px", (1920, 1080)), ("active_area", None), ("dar", None), ("lang", "")):
    if spec.get(key) != dflt:
      s2 = _copy(spec)
      s2[key] = dflt
      yield s2

  def paths(n, path):
    yield path
    for i, k in enumerate(n["kids"]):
      yield from paths(k, path + (i,))

  def get(s2, root, path):
    n = s2["regions"][root] if isinstance(root, int) else s2["body"]
    for i in path:
      n = n["kids"][i]
    return n

  roots = list(range(len(spec["regions"]))) + (["body"] if spec["body"] is not None else [])
  for root in roots:
    top = spec["regions"][root] if isinstance(root, int) else spec["body"]
    for path in paths(top, ()):
      n = get(spec, root, path)
      if path:
        parent = get(spec, root, path[:-1])
        if parent["kind"] not in ("ruby", "rtc"):
          s2 = _copy(spec)
          del get(s2, root, path[:-1])["kids"][path[-1]]
          yield s2
          if n["kids"] and parent["kind"] == n["kind"]:    # hoist children of a same-kind wrapper
            s2 = _copy(spec)
            p2 = get(s2, root, path[:-1])
            p2["kids"][path[-1]:path[-1] + 1] = get(s2, root, path)["kids"]
            yield s2
      for key in ("begin", "end", "region"):
        if n.get(key) is not None:
          s2 = _copy(spec)
          get(s2, root, path)[key] = None
          yield s2
      for k in list(n["styles"]):
        s2 = _copy(spec)
        del get(s2, root, path)["styles"][k]
        yield s2
      for i in range(len(n["anims"])):
        s2 = _copy(spec)
        del get(s2, root, path)["anims"][i]
        yield s2
      for i, a in enumerate(n["anims"]):
        for j in (1, 2):
          if a[j] is not None:
            s2 = _copy(spec)
            b = list(a)
            b[j] = None
            get(s2, root, path)["anims"][i] = tuple(b)
            yield s2
      if n.get("space") == "preserve":
        s2 = _copy(spec)
        get(s2, root, path)["space"] = "default"
        yield s2
      if n.get("lang"):
        s2 = _copy(spec)
        get(s2, root, path)["lang"] = ""
        yield s2
      if n["kind"] == "text" and len(n["text"]) > 1:
        import re as _re
        toks = _re.findall(r"w\d+", n["text"])
        for repl in ([n["text"].strip()] + toks[:1] + ([] if toks else ["x"])):   # word tokens stay whole (they identify text)
          if repl != n["text"]:
            s2 = _copy(spec)
            get(s2, root, path)["text"] = repl
            yield s2


def case_simplifications(key="spec"):
  """shrinker for cases of the form {key: DocSpec, ...}"""
  def shrinker(case):
    for k, v in case.items():
      if k != key and isinstance(v, list) and v:
        c2 = dict(case)
        c2[k] = []
        yield c2
    for s2 in simplifications(case[key]):
      c2 = dict(case)
      c2[key] = s2
      yield c2
  return shrinker
