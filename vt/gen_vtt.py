"""Structured WebVTT file descriptions for C11: Hypothesis strategies, `render(desc) -> str`, `expected(desc)`.

A *description* is plain JSON-able data (dicts / lists / str / int / bool / None only), so that it survives vt.codec:

  desc   = {"bom": bool, "header": str, "head_gap": int, "blocks": [block...], "final": int}
  block  = {"k": "note", "form": "inline"|"below"|"bare", "lines": [str...], "gap": int}
         | {"k": "style"|"region", "lines": [str...], "gap": int}                (only before the first cue)
         | {"k": "cue", "id": str|None, "begin": ms, "end": ms, "hb": bool, "he": bool, "ws": [str, str, str],
            "settings": {name: value...}, "order": [name...], "nodes": [node...], "gap": int}
  settings: "vertical": "rl"|"lr" ; "line": {"pct": "25" | None, "num": int | None, "align": None|"start"|"center"|"end"} ;
            "position": {"pct": "25", "align": None|"line-left"|"center"|"line-right"} ; "size": "50" ; "align": "start"|...
  node   = {"t": "text", "s": str}                       literal cue span text (never contains & < or a line terminator)
         | {"t": "ent", "raw": "&amp;", "ch": "&"}       character reference and the text it stands for
         | {"t": "ts", "ms": int, "h": bool}             inline timestamp
         | {"t": "nl"}                                    line terminator inside the payload
         | {"t": "tag", "name": "b"|"i"|"u"|"c"|"lang"|"v", "classes": [str...], "annot": [annotpart...]|None, "sep": " "|"\t",
            "kids": [node...]}      (+ "noclose": true on a <v> that is the only component of the cue text: </v> omitted)
         | {"t": "ruby", "classes": [...], "pairs": [{"base": [node...], "rt": [node...]|None, "rtc": [class...], "close": bool}]}
  annotpart = {"t": "text", "s": str} | {"t": "ent", "raw":..., "ch":...}

The meaning of a description is fixed here, together with the text that `render` prints for it: `expected(desc)` returns,
per cue, the begin/end rationals, the per-character attribute stream and the cue-setting geometry facts that WebVTT gives.
The generator is sound first: `validate(desc)` re-checks every grammar constraint and raises AssertionError (= harness
error) when the generator or a shrinking step produced something that is not well-formed WebVTT.
"""
import copy
from fractions import Fraction

from hypothesis import strategies as st

REP = [0, 1, 10, 25, 50, 75, 90, 100]

# WebVTT "Default classes for WebVTT Caption or Subtitle Cue Components"
COLOURS = {
  "white": (255, 255, 255, 255), "lime": (0, 255, 0, 255), "cyan": (0, 255, 255, 255), "red": (255, 0, 0, 255),
  "yellow": (255, 255, 0, 255), "magenta": (255, 0, 255, 255), "blue": (0, 0, 255, 255), "black": (0, 0, 0, 255),
}
OTHER_CLASSES = ["loud", "first", "x1", "Narrator", "übung", "bg_plaid", "reddish"]

# references whose decoding does not depend on the terminating semicolon in HTML's legacy table or that are numeric
ENTITIES_SAFE = [["&amp;", "&"], ["&lt;", "<"], ["&gt;", ">"], ["&nbsp;", "\u00a0"], ["&#x41;", "A"], ["&#65;", "A"],
                 ["&#xe9;", "é"], ["&#x2014;", "—"], ["&#x1F600;", "\U0001F600"], ["&quot;", '"'], ["&eacute;", "é"],
                 ["&#x26;", "&"], ["&#60;", "<"],
                 # an ampersand that starts no reference (followed by a character that cannot continue one) is text; a tag may follow
                 ["& ", "& "], ["&.", "&."], ["& ", "& "]]
# named references that exist only in the semicolon-terminated form (&lrm; is part of the WebVTT cue-text grammar itself)
ENTITIES_SEMI = [["&lrm;", "\u200e"], ["&ndash;", "–"], ["&hellip;", "…"], ["&notin;", "∉"]]

LANGS = ["en", "en-GB", "es-419", "ja", "de-CH-1996"]
VOICES = ["Tom", "Esme Jones", "Élodie", "Speaker 2"]
IDS = ["1", "42", "0", "intro", "cue-7", "Übertitel 3", "id with  spaces", "- dash", "00:01 is not a timing", "b", "<i>"]
ODD_IDS = ["NOTE 1", "NOTE to self", "STYLE-2", "STYLES", "STYLE"]

NOTE_LINES = ["This is a comment", "00:00.000 -- > 00:01.000 is not an arrow", "<b>not a cue</b> &amp;", "line:0 position:10%",
              "STYLE inside a note", "NOTE inside a note", "WEBVTT", "été 日本語", "- ->"]
STYLE_LINES = ["::cue { color: lime; background: none }", "::cue(b) { color: red }", "::cue(.loud) {", "  font-size: 2em;", "}",
               "::cue(v[voice=\"Tom\"]) { color: cyan }", "/* comment */"]
REGION_LINES = ["id:fred", "width:40%", "lines:3", "regionanchor:0%,100%", "viewportanchor:10%,90%", "scroll:up", "id:bill width:50%"]

LINE_ALIGNS = ["start", "center", "end"]
POS_ALIGNS = ["line-left", "center", "line-right"]
TEXT_ALIGNS = ["start", "center", "end", "left", "right"]
SETTING_NAMES = ["vertical", "line", "position", "size", "align"]


# ------------------------------------------------------------------------------------------------ profiles

def profile(**kw):
  """Generator switches.  The defaults describe the `main` part: every construct of the grammar, but the shapes that
  trigger the known shallow reader defects are left to dedicated parts (see vt/props/c11.py PARTS)."""
  p = {
    "max_cues": 4,
    "ts": "safe",            # none | safe (top level only, one per cue - two when the cue starts at 0 -, none in cues with ruby) | full
    "ruby": "top",           # none | top (top level of the payload, text-only base/annotation, </rt> present) | nested (same content,
                             # inside tags too) | structured (top level; tags and line breaks inside base and annotation)
                             # | loose (top level, text only; the last </rt> or the last <rt>...</rt> omitted)
    "entities": "safe",      # none | safe | semi (references that need the semicolon) | all
    "annot_entities": False, # character references inside <v ...> annotations
    "geometry": "safe",      # none | safe (see _safe_settings) | all (every combination) | numbers (line-number ladders)
                             # | fractional (safe shapes with fractional percentages)
    "empty_payload": False,  # cues without payload
    "ws_lines": False,       # payload lines made of spaces / tabs only (not empty, so they do not end the cue)
    "odd_ids": False,        # identifiers that begin like a NOTE / STYLE block
    "blocks": True,          # NOTE / STYLE / REGION blocks
    "depth": 3,
  }
  for k in kw:
    if k not in p:
      raise KeyError(k)
  p.update(kw)
  return p


# ------------------------------------------------------------------------------------------------ printing

def fmt_ts(ms, hours):
  h, r = divmod(ms, 3600000)
  m, r = divmod(r, 60000)
  s, f = divmod(r, 1000)
  if h or hours:
    return "%02d:%02d:%02d.%03d" % (h, m, s, f)
  return "%02d:%02d.%03d" % (m, s, f)


def _classes(cl):
  return "".join("." + c for c in cl)


def render_annot(parts):
  return "".join(p["s"] if p["t"] == "text" else p["raw"] for p in parts)


def annot_text(parts):
  return "".join(p["s"] if p["t"] == "text" else p["ch"] for p in parts)


def render_nodes(nodes):
  out = []
  for n in nodes:
    t = n["t"]
    if t == "text":
      out.append(n["s"])
    elif t == "ent":
      out.append(n["raw"])
    elif t == "ts":
      out.append("<" + fmt_ts(n["ms"], n["h"]) + ">")
    elif t == "nl":
      out.append("\n")
    elif t == "tag":
      a = "" if n["annot"] is None else n["sep"] + render_annot(n["annot"])
      out.append("<" + n["name"] + _classes(n["classes"]) + a + ">" + render_nodes(n["kids"]) + ("" if n.get("noclose") else "</" + n["name"] + ">"))
    elif t == "ruby":
      out.append("<ruby" + _classes(n["classes"]) + ">")
      for p in n["pairs"]:
        out.append(render_nodes(p["base"]))
        if p["rt"] is not None:
          out.append("<rt" + _classes(p["rtc"]) + ">" + render_nodes(p["rt"]) + ("</rt>" if p["close"] else ""))
      out.append("</ruby>")
    else:
      raise AssertionError("unknown node %r" % (n,))
  return "".join(out)


def render_setting(name, v):
  if name in ("vertical", "align"):
    return name + ":" + v
  if name == "size":
    return "size:" + v + "%"
  if name == "line":
    s = (v["pct"] + "%") if v["pct"] is not None else str(v["num"])
    return "line:" + s + ("," + v["align"] if v["align"] else "")
  if name == "position":
    return "position:" + v["pct"] + "%" + ("," + v["align"] if v["align"] else "")
  raise AssertionError(name)


def settings_key(cue):
  """order-insensitive identity of a cue-settings list"""
  return sorted(render_setting(k, v) for k, v in cue["settings"].items())


def render_block(b):
  k = b["k"]
  if k == "note":
    if b["form"] == "inline":
      return "\n".join(["NOTE " + b["lines"][0]] + b["lines"][1:])
    if b["form"] == "below":
      return "\n".join(["NOTE"] + b["lines"])
    return "NOTE"
  if k == "style":
    return "\n".join(["STYLE"] + b["lines"])
  if k == "region":
    return "\n".join(["REGION"] + b["lines"])
  if k == "cue":
    out = []
    if b["id"] is not None:
      out.append(b["id"])
    tl = fmt_ts(b["begin"], b["hb"]) + b["ws"][0] + "-->" + b["ws"][1] + fmt_ts(b["end"], b["he"])
    names = [n for n in b["order"] if n in b["settings"]]
    for n in names:
      tl += b["ws"][2] + render_setting(n, b["settings"][n])
    out.append(tl)
    if b["nodes"]:
      out.append(render_nodes(b["nodes"]))
    return "\n".join(out)
  raise AssertionError(k)


def render(desc):
  out = [("\ufeff" if desc["bom"] else "") + "WEBVTT" + desc["header"] + "\n" + "\n" * desc["head_gap"]]
  blocks = desc["blocks"]
  for i, b in enumerate(blocks):
    out.append(render_block(b))
    if i + 1 < len(blocks):
      out.append("\n" + "\n" * b["gap"])
    else:
      out.append("\n" * desc["final"])
  return "".join(out)


# ------------------------------------------------------------------------------------------------ tree utilities

def walk_nodes(nodes):
  """document-order iterator over (node, parent_list, depth) including nodes inside tags and rubies"""
  for n in nodes:
    yield n
    if n["t"] == "tag":
      yield from walk_nodes(n["kids"])
    elif n["t"] == "ruby":
      for p in n["pairs"]:
        yield from walk_nodes(p["base"])
        if p["rt"] is not None:
          yield from walk_nodes(p["rt"])


def depth_of(nodes):
  d = 0
  for n in nodes:
    if n["t"] == "tag":
      d = max(d, 1 + depth_of(n["kids"]))
    elif n["t"] == "ruby":
      for p in n["pairs"]:
        d = max(d, 1 + depth_of(p["base"]), (2 + depth_of(p["rt"])) if p["rt"] is not None else 0)
  return d


def _clean_nl(nodes, state):
  """drops line terminators that would produce an empty payload line (at the start, doubled) and those beyond `budget`"""
  out = []
  for n in nodes:
    t = n["t"]
    if t == "nl":
      if state["boundary"] or state["budget"] <= 0:
        continue
      state["boundary"] = True
      state["budget"] -= 1
      out.append(n)
      state["last_nl"] = (out, n)
      continue
    if t == "tag":
      n = dict(n)
      state["boundary"] = False      # the start tag is a non-blank character on this raw line
      n["kids"] = _clean_nl(n["kids"], state)
      if not n.get("noclose"):
        state["boundary"] = False    # so is the end tag
    elif t == "ruby":
      n = dict(n)
      state["boundary"] = False
      pairs = []
      for p in n["pairs"]:
        p = dict(p)
        p["base"] = _clean_nl(p["base"], state)
        if p["rt"] is not None:
          state["boundary"] = False
          p["rt"] = _clean_nl(p["rt"], state)
          if p["close"]:
            state["boundary"] = False
        pairs.append(p)
      n["pairs"] = pairs
      state["boundary"] = False
    else:
      # text / ent / ts: text never is white space only (see validate), so the raw line is not blank
      state["boundary"] = False
    out.append(n)
  return out


def normalise_nodes(nodes, max_lines=4):
  """idempotent: returns a payload whose raw lines are all non-blank and number at most max_lines"""
  state = {"boundary": True, "budget": max_lines - 1, "last_nl": None}
  out = _clean_nl(copy.deepcopy(nodes), state)
  if state["boundary"] and state["last_nl"] is not None:
    lst, n = state["last_nl"]
    for i, x in enumerate(lst):
      if x is n:
        del lst[i]
        break
  return out


def has_kind(nodes, kind):
  return any(n["t"] == kind for n in walk_nodes(nodes))


def _assign(cue, ci, prof, seeds):
  """words, timestamp values; removes timestamps that do not fit the profile or the cue interval"""
  nodes = cue["nodes"]
  # --- timestamps
  all_ts = [n for n in walk_nodes(nodes) if n["t"] == "ts"]
  limit = min(3, cue["end"] - cue["begin"] - 1)
  if prof["ts"] == "safe":
    limit = min(limit, 1 if cue["begin"] != 0 else 2)
    if has_kind(nodes, "ruby"):
      limit = 0
  elif prof["ts"] == "none":
    limit = 0
  keep = all_ts[:max(0, limit)]
  if len(keep) != len(all_ts):
    ids = set(id(n) for n in keep)
    nodes = _filter(nodes, lambda n: n["t"] != "ts" or id(n) in ids)
    keep = [n for n in walk_nodes(nodes) if n["t"] == "ts"]
  k = len(keep)
  if k:
    avail = cue["end"] - cue["begin"] - 1
    vals = sorted(s % avail for s in seeds[:k])
    for j in range(1, k):
      vals[j] = max(vals[j], vals[j - 1] + 1)
    for j in range(k - 1, -1, -1):
      vals[j] = min(vals[j], avail - 1 - (k - 1 - j))
    for n, v in zip(keep, vals):
      n["ms"] = cue["begin"] + 1 + v
  # --- words
  c = [0]

  def word():
    c[0] += 1
    return "%s%d" % (chr(97 + ci % 26) * (1 + ci // 26), c[0])

  for n in walk_nodes(nodes):
    if n["t"] == "text" and "s" not in n:
      n["s"] = n.pop("pre") + " ".join(word() for _ in range(n.pop("n"))) + n.pop("post")
  cue["nodes"] = nodes


def _filter(nodes, pred):
  out = []
  for n in nodes:
    if not pred(n):
      continue
    if n["t"] == "tag":
      n["kids"] = _filter(n["kids"], pred)
    elif n["t"] == "ruby":
      for p in n["pairs"]:
        p["base"] = _filter(p["base"], pred)
        if p["rt"] is not None:
          p["rt"] = _filter(p["rt"], pred)
    out.append(n)
  return out


# ------------------------------------------------------------------------------------------------ strategies: cue text

def _text_node():
  return st.fixed_dictionaries({"t": st.just("text"), "pre": st.sampled_from(["", "", "", " "]),
                                "post": st.sampled_from(["", "", "", "", "", "", " ", " ", ".", ".", "!", " >", "'s", ", ", ", ",
                                                         # characters that Unicode calls line boundaries but WebVTT does not (only LF, CR, CR LF)
                                                         "\u2028z", "\u0085y", "\x0bx", "\x0cv", "\x1cu"]),
                                "n": st.sampled_from([1, 1, 1, 2])})


def _entity(prof):
  pool = []
  if prof["entities"] in ("safe", "all"):
    pool += ENTITIES_SAFE
  if prof["entities"] in ("semi", "all"):
    pool += ENTITIES_SEMI * (3 if prof["entities"] == "all" else 1)
  return st.sampled_from(pool).map(lambda e: {"t": "ent", "raw": e[0], "ch": e[1]})


@st.composite
def _class_list(draw, name):
  cl = []
  if name == "c":
    if draw(st.integers(0, 3)) > 0:
      cl.append(draw(st.sampled_from(sorted(COLOURS))))
    if draw(st.integers(0, 2)) == 0:
      cl.append("bg_" + draw(st.sampled_from(sorted(COLOURS))))
    if draw(st.integers(0, 3)) == 0:
      cl.append(draw(st.sampled_from(OTHER_CLASSES)))
    if len(cl) > 1 and draw(st.booleans()):
      cl.reverse()
  elif draw(st.integers(0, 4)) == 0:
    cl.append(draw(st.sampled_from(OTHER_CLASSES)))
    if draw(st.integers(0, 3)) == 0:
      cl.append(draw(st.sampled_from(OTHER_CLASSES)))
  return cl


@st.composite
def _annotation(draw, name, prof):
  if name == "lang":
    return [{"t": "text", "s": draw(st.sampled_from(LANGS))}]
  parts = [{"t": "text", "s": draw(st.sampled_from(VOICES))}]
  if prof["annot_entities"] and draw(st.integers(0, 2)) > 0:
    e = draw(st.sampled_from(ENTITIES_SAFE[:4] + ENTITIES_SAFE[4:6]))
    parts.append({"t": "ent", "raw": e[0], "ch": e[1]})
    if draw(st.booleans()):
      parts.append({"t": "text", "s": " " + draw(st.sampled_from(VOICES))})
    if draw(st.booleans()):
      parts.insert(0, {"t": "text", "s": "Dr "})
  return parts


@st.composite
def _kids(draw, prof, depth, where, min_size=0):
  """children list; where = top | tag | rb | rt"""
  kinds = ["text"] * 5
  if prof["entities"] != "none":
    kinds += ["ent"]
  in_ruby = where in ("rb", "rt", "rb*", "rt*")
  if not in_ruby or where.endswith("*"):
    kinds += ["nl"] * 2
    if depth < prof["depth"]:
      kinds += ["tag"] * 4
    if prof["ts"] == "full":
      kinds += ["ts"] * 3
    elif prof["ts"] == "safe" and depth == 0:
      kinds += ["ts"] * 2
  if not in_ruby and prof["ruby"] != "none" and depth < prof["depth"] and (prof["ruby"] == "nested" or depth == 0):
    kinds += ["ruby"] * (1 if prof["ruby"] == "top" else 3)
  if prof["ws_lines"] and where == "top":
    kinds += ["wsline"] * 3
  n = draw(st.integers(min_size, 5 if depth == 0 else 4 if depth < 2 else 3))
  out = []
  for _ in range(n):
    k = draw(st.sampled_from(kinds))
    if k == "wsline":
      out += [{"t": "nl"}, {"t": "text", "s": draw(st.sampled_from([" ", "\t", "  ", " \t"])), "ws": True}, {"t": "nl"}]
    elif k == "text":
      out.append(draw(_text_node()))
    elif k == "ent":
      out.append(draw(_entity(prof)))
    elif k == "nl":
      out.append({"t": "nl"})
    elif k == "ts":
      out.append({"t": "ts", "ms": 0, "h": draw(st.booleans())})
    elif k == "tag":
      name = draw(st.sampled_from(["b", "i", "u", "c", "c", "lang", "v"]))
      out.append({"t": "tag", "name": name, "classes": draw(_class_list(name)),
                  "annot": draw(_annotation(name, prof)) if name in ("lang", "v") else None,
                  "sep": draw(st.sampled_from([" ", " ", "\t"])),
                  "kids": draw(_kids(prof, depth + 1, where if in_ruby else "tag"))})
    else:
      # flavour of this ruby: plain text content, or (profile "content") one of the exotic-but-legal shapes
      flavour = {"structured": ["structured"], "loose": ["open-rt", "open-rt", "base-without-rt"]}.get(prof["ruby"], ["plain"])
      flavour = draw(st.sampled_from(flavour))
      full = flavour == "structured"
      pairs = []
      for i in range(draw(st.integers(2 if flavour == "base-without-rt" else 1, 3))):
        pairs.append({"base": draw(_kids(prof, depth + 1, "rb*", min_size=1)) if full else [draw(_text_node())],
                      "rt": draw(_kids(prof, depth + 2, "rt*")) if full else [draw(_text_node())] + ([draw(_entity(prof))] if prof["entities"] != "none" and draw(st.integers(0, 3)) == 0 else []),
                      "rtc": draw(_class_list("rt")) if flavour != "plain" else [], "close": True})
      if flavour == "open-rt":
        pairs[-1]["close"] = False
      elif flavour == "base-without-rt":
        pairs[-1]["rt"] = None
      out.append({"t": "ruby", "classes": draw(_class_list("ruby")), "pairs": pairs})
  return out


# ------------------------------------------------------------------------------------------------ strategies: settings

def auto_position_alignment(align):
  """WebVTT 'computed position alignment' for position alignment auto (base direction left-to-right)"""
  if align in ("start", "left"):
    return "line-left"
  if align in ("end", "right"):
    return "line-right"
  return "center"


def maximum_size(pos, pa):
  """WebVTT 7.2 'maximum size' for a computed position and computed position alignment"""
  if pa == "line-left":
    return 100 - pos
  if pa == "line-right":
    return pos
  return 2 * pos if pos <= 50 else 2 * (100 - pos)


FRACTIONS = ["12.5", "37.5", "0.5", "99.5", "50.0", "62.25", "25"]


@st.composite
def _safe_settings(draw, fractional=False):
  """settings lists outside the trigger classes of the known reader defects (see vt/props/c11.py): no line in vertical:rl, no
  centre line alignment in vertical cues, line numbers 1..15, size only together with a position it fits to, position without
  size only where the reader's default extent fits.  fractional=True: the same shapes with fractional percentages"""
  vals = [Fraction(v) for v in (FRACTIONS if fractional else REP)]
  txt = {Fraction(v): str(v) for v in (FRACTIONS if fractional else REP)}
  s = {}
  vert = draw(st.sampled_from([None, None, None, "lr", "rl"]))
  if vert:
    s["vertical"] = vert
  al = draw(st.sampled_from([None] + TEXT_ALIGNS))
  if al:
    s["align"] = al
  if vert != "rl":
    kind = draw(st.sampled_from(["none", "pct", "pct", "num"] if not fractional else ["none", "pct", "pct"]))
    if kind == "pct":
      s["line"] = {"pct": txt[draw(st.sampled_from(vals))], "num": None,
                   "align": draw(st.sampled_from([None, "start", "end"] + ([] if vert else ["center"])))}
    elif kind == "num":
      s["line"] = {"pct": None, "num": draw(st.sampled_from([1, 2, 3, 5, 10, 15])),
                   "align": draw(st.sampled_from([None, None, "start", "end"] + ([] if vert else ["center"])))}
  mode = draw(st.sampled_from(["none", "none", "pos", "pos+size", "pos+size"] if not fractional else ["none", "pos+size", "pos+size"]))
  if mode != "none":
    k = draw(st.sampled_from(POS_ALIGNS))
    explicit = True if auto_position_alignment(al) != k else draw(st.booleans())
    if mode == "pos":
      pos = Fraction(draw(st.sampled_from({"line-left": [0, 1], "center": [50], "line-right": [100]}[k])))
    else:
      pos = draw(st.sampled_from(vals))
      s["size"] = txt[draw(st.sampled_from([v for v in vals if v <= maximum_size(pos, k)]))]
    s["position"] = {"pct": txt[pos], "align": k if explicit else None}
  return s


@st.composite
def _all_settings(draw):
  pcts = [str(v) for v in REP]
  s = {}
  if draw(st.integers(0, 2)) == 0:
    s["vertical"] = draw(st.sampled_from(["rl", "lr"]))
  if draw(st.booleans()):
    s["align"] = draw(st.sampled_from(TEXT_ALIGNS))
  k = draw(st.sampled_from(["none", "pct", "pct", "num"]))
  if k == "pct":
    s["line"] = {"pct": draw(st.sampled_from(pcts)), "num": None, "align": draw(st.sampled_from([None] + LINE_ALIGNS))}
  elif k == "num":
    s["line"] = {"pct": None, "num": draw(st.sampled_from([0, 1, 2, 5, 10, 25, 50, 100, -1, -2, -5, -10, -25, -100])),
                 "align": draw(st.sampled_from([None, None] + LINE_ALIGNS))}
  if draw(st.booleans()):
    s["position"] = {"pct": draw(st.sampled_from(pcts)), "align": draw(st.sampled_from([None] + POS_ALIGNS))}
  if draw(st.booleans()):
    s["size"] = draw(st.sampled_from(pcts))
  return s


@st.composite
def _number_settings(draw):
  """line numbers only (ladders for the monotonicity clause); alignment absent so that the line alignment is the default"""
  return {"line": {"pct": None, "num": draw(st.sampled_from([0, 0, 1, 2, 3, 5, 10, -1, -1, -2, -3, -5, -10])), "align": None}}


def _settings(prof):
  g = prof["geometry"]
  if g == "none":
    return st.just({})
  if g == "safe":
    return st.one_of(st.just({}), _safe_settings(), _safe_settings(), _safe_settings(), _safe_settings())
  if g == "all":
    return _all_settings()
  if g == "fractional":
    return _safe_settings(fractional=True)
  if g == "numbers":
    return _number_settings()
  raise KeyError(g)


# ------------------------------------------------------------------------------------------------ strategies: file

BEGINS = [0, 0, 1, 100, 1500, 59999, 60000, 61001, 3599999, 3600000, 3661001, 360000000]


@st.composite
def _note(draw):
  form = draw(st.sampled_from(["inline", "inline", "below", "bare"]))
  lines = [] if form == "bare" else draw(st.lists(st.sampled_from(NOTE_LINES), min_size=1, max_size=3))
  return {"k": "note", "form": form, "lines": lines, "gap": draw(st.sampled_from([1, 1, 2]))}


@st.composite
def descs(draw, prof=None):
  prof = prof or profile()
  ncues = draw(st.integers(1, prof["max_cues"]))
  blocks = []
  if prof["blocks"]:
    for _ in range(draw(st.sampled_from([0, 0, 1, 2]))):
      k = draw(st.sampled_from(["note", "style", "region"]))
      if k == "note":
        blocks.append(draw(_note()))
      else:
        pool = STYLE_LINES if k == "style" else REGION_LINES
        blocks.append({"k": k, "lines": draw(st.lists(st.sampled_from(pool), min_size=1, max_size=4)), "gap": draw(st.sampled_from([1, 1, 2]))})
  # per file: a small pool of settings lists so that cues share them
  vert_all = None
  if prof["geometry"] == "numbers":
    vert_all = draw(st.sampled_from([None, None, "lr", "rl"]))
  pool = draw(st.lists(_settings(prof), min_size=1, max_size=3))
  t = draw(st.one_of(st.just(0), st.sampled_from(BEGINS), st.integers(0, 2 * 3600 * 1000)))
  for ci in range(ncues):
    if prof["blocks"] and draw(st.integers(0, 3)) == 0:
      blocks.append(draw(_note()))
    begin = t
    dur = draw(st.one_of(st.sampled_from([1, 2, 1000, 2500, 100]), st.integers(1, 10000)))
    t = begin + draw(st.one_of(st.just(0), st.integers(0, 5000), st.sampled_from([3600000, 60000])))
    settings = copy.deepcopy(draw(st.sampled_from(pool)) if draw(st.integers(0, 3)) else draw(_settings(prof)))
    if vert_all:
      settings["vertical"] = vert_all
    order = draw(st.permutations(SETTING_NAMES))
    ident = None
    if prof["odd_ids"] and draw(st.booleans()):
      ident = draw(st.sampled_from(ODD_IDS))
    elif draw(st.integers(0, 2)) == 0:
      ident = draw(st.sampled_from(IDS))
    if prof["empty_payload"] and draw(st.integers(0, 2)) == 0:
      nodes = []
    elif draw(st.integers(0, 11)) == 0:
      # the whole cue text is one voice span (its end tag may then be omitted)
      nodes = [{"t": "tag", "name": "v", "classes": draw(_class_list("v")), "annot": draw(_annotation("v", prof)), "sep": " ",
                "kids": draw(_kids(prof, 1, "tag", min_size=1))}]
    else:
      nodes = draw(_kids(prof, 0, "top", min_size=1))
    hb = draw(st.booleans())
    cue = {"k": "cue", "id": ident, "begin": begin, "end": begin + dur, "hb": hb, "he": draw(st.booleans()) if draw(st.integers(0, 3)) == 0 else hb,
           "ws": [draw(st.sampled_from([" ", " ", "\t", "  "])), draw(st.sampled_from([" ", " ", "\t", "  "])), draw(st.sampled_from([" ", " ", "\t", "  "]))],
           "settings": settings, "order": list(order), "nodes": nodes, "gap": draw(st.sampled_from([1, 1, 1, 2, 3]))}
    seeds = [draw(st.integers(0, 10 ** 6)) for _ in range(3)]
    if nodes:
      if not has_kind(nodes, "text"):
        nodes.insert(0, draw(_text_node()))
      cue["nodes"] = normalise_nodes(nodes)
      _assign(cue, ci, prof, seeds)
      cue["nodes"] = normalise_nodes(cue["nodes"])
      if len(cue["nodes"]) == 1 and cue["nodes"][0]["t"] == "tag" and cue["nodes"][0]["name"] == "v" and draw(st.booleans()):
        cue["nodes"][0]["noclose"] = True
        cue["nodes"] = normalise_nodes(cue["nodes"])
    blocks.append(cue)
  header = draw(st.sampled_from(["", "", "", " - Title of the file", "\tKind: captions", " ", " -- > x", " 日本語"]))
  desc = {"bom": draw(st.integers(0, 7)) == 0, "header": header, "head_gap": draw(st.sampled_from([1, 1, 2])), "blocks": blocks,
          "final": draw(st.sampled_from([1, 1, 2, 3, 0]))}
  return desc


# ------------------------------------------------------------------------------------------------ validation (soundness of the generator)

def _check_pct(s):
  assert s and all(c in "0123456789." for c in s) and s[0] != "." and s[-1] != "." and s.count(".") <= 1, "percentage syntax %r" % s
  assert 0 <= Fraction(s) <= 100, "percentage range %r" % s


def validate(desc):
  """raises AssertionError when the description does not denote a well-formed WebVTT file (generator / shrinker bug)"""
  assert not any(c in desc["header"] for c in "\r\n") and "-->" not in desc["header"], "header"
  assert desc["header"] == "" or desc["header"][0] in " \t", "header separator"
  assert desc["head_gap"] >= 1
  seen_cue = False
  last_begin = 0
  for i, b in enumerate(desc["blocks"]):
    assert b["gap"] >= 1
    if b["k"] in ("note", "style", "region"):
      assert b["k"] == "note" or not seen_cue, "style/region block after a cue"
      for l in b["lines"]:
        assert l.strip(" \t") and "-->" not in l and "\n" not in l and "\r" not in l, "block line %r" % l
      assert b["k"] != "note" or (b["form"] == "bare") == (not b["lines"])
      continue
    seen_cue = True
    assert b["id"] is None or (b["id"] and "-->" not in b["id"] and "\n" not in b["id"] and "\r" not in b["id"]), "identifier"
    assert 0 <= b["begin"] < b["end"], "cue interval"
    assert b["begin"] >= last_begin, "cue order"
    last_begin = b["begin"]
    assert all(w and set(w) <= set(" \t") for w in b["ws"])
    assert sorted(b["order"]) == sorted(SETTING_NAMES)
    for n, v in b["settings"].items():
      assert n in SETTING_NAMES
      if n == "vertical":
        assert v in ("rl", "lr")
      elif n == "align":
        assert v in TEXT_ALIGNS
      elif n == "size":
        _check_pct(v)
      elif n == "line":
        assert (v["pct"] is None) != (v["num"] is None) and v["align"] in (None, "start", "center", "end")
        if v["pct"] is not None:
          _check_pct(v["pct"])
        else:
          assert isinstance(v["num"], int)
      elif n == "position":
        _check_pct(v["pct"])
        assert v["align"] in (None, "line-left", "center", "line-right")
    raw = render_nodes(b["nodes"])
    assert "-->" not in raw, "arrow in payload"
    if b["nodes"]:
      lines = raw.split("\n")
      assert 1 <= len(lines) <= 4 and all(l != "" for l in lines), "payload lines %r" % (lines,)
      assert all(l.strip(" \t") for l in lines) or any(n.get("ws") for n in b["nodes"]), "payload lines %r" % (lines,)
    last = b["begin"]
    for n in walk_nodes(b["nodes"]):
      if n["t"] == "text":
        assert (n["s"].strip(" ") or n.get("ws")) and not any(c in n["s"] for c in "&<\r\n"), "text %r" % n["s"]
      elif n["t"] == "ts":
        assert last < n["ms"] < b["end"], "timestamp order"
        last = n["ms"]
      elif n["t"] == "tag":
        assert n["name"] in ("b", "i", "u", "c", "lang", "v") and (n["annot"] is not None) == (n["name"] in ("lang", "v"))
        assert not n.get("noclose") or (n["name"] == "v" and len(b["nodes"]) == 1 and b["nodes"][0] is n), "only a sole <v> may omit its end tag"
        if n["annot"] is not None:
          a = render_annot(n["annot"])
          assert a.strip() and not any(c in a for c in "\r\n>") and all("&" not in p["s"] for p in n["annot"] if p["t"] == "text")
        for c in n["classes"]:
          assert c and not any(x in c for x in " \t\r\n.&<>")
      elif n["t"] == "ruby":
        assert n["pairs"]
        for j, p in enumerate(n["pairs"]):
          assert not has_kind(p["base"], "ruby") and (p["rt"] is None or not has_kind(p["rt"], "ruby")), "nested ruby"
          assert p["close"] or j == len(n["pairs"]) - 1, "</rt> may only be omitted before </ruby>"
  assert desc["final"] >= 0


# ------------------------------------------------------------------------------------------------ expectation

def ms_to_fraction(ms):
  return Fraction(ms, 1000)


def _attrs(st_, g):
  return {"b": st_["b"], "i": st_["i"], "u": st_["u"], "fg": st_["fg"], "bg": st_["bg"], "lang": st_["lang"], "role": st_["role"],
          "ts": g["ts"], "tsn": g["tsn"], "leak": g["leak"]}


def _expect_nodes(nodes, st_, g, out):
  for n in nodes:
    t = n["t"]
    if t == "text" or t == "ent":
      s = n["s"] if t == "text" else n["ch"]
      tgt = out["stream"] if st_["role"] is None or st_["role"][0] == "rb" else None
      for ch in s:
        item = [ch, _attrs(st_, g)]
        if tgt is not None:
          tgt.append(item)
        if st_["role"] is not None:
          r = st_["role"]
          out["rubies"][r[1]][r[0]][r[2]].append(item)
    elif t == "nl":
      if st_["role"] is None or st_["role"][0] == "rb":
        out["stream"].append(["\n", None])
      if st_["role"] is not None:
        r = st_["role"]
        out["rubies"][r[1]][r[0]][r[2]].append(["\n", None])
    elif t == "ts":
      g["ts"] = n["ms"]
      g["tsn"] += 1
      if g["open"]:
        g["pending"].update(g["open"])
    elif t == "tag":
      s2 = dict(st_)
      nm = n["name"]
      if nm == "b":
        s2["b"] = True
      elif nm == "i":
        s2["i"] = True
      elif nm == "u":
        s2["u"] = True
      elif nm == "lang":
        s2["lang"] = annot_text(n["annot"])
      elif nm == "c":
        for c in n["classes"]:
          if c in COLOURS:
            s2["fg"] = c
          elif c.startswith("bg_") and c[3:] in COLOURS:
            s2["bg"] = c[3:]
      g["serial"] += 1
      me = g["serial"]
      g["open"].append(me)
      _expect_nodes(n["kids"], s2, g, out)
      g["open"].pop()
      if me in g["pending"]:
        g["leak"] = True
    elif t == "ruby":
      k = len(out["rubies"])
      out["rubies"].append({"rb": [[] for _ in n["pairs"]], "rt": [[] for _ in n["pairs"]], "has_rt": [p["rt"] is not None for p in n["pairs"]]})
      g["serial"] += 1
      me = g["serial"]
      g["open"].append(me)
      for j, p in enumerate(n["pairs"]):
        s2 = dict(st_)
        s2["role"] = ["rb", k, j]
        _expect_nodes(p["base"], s2, g, out)
        if p["rt"] is not None:
          s3 = dict(st_)
          s3["role"] = ["rt", k, j]
          g["serial"] += 1
          me2 = g["serial"]
          g["open"].append(me2)
          _expect_nodes(p["rt"], s3, g, out)
          g["open"].pop()
          if me2 in g["pending"]:
            g["leak"] = True
      g["open"].pop()
      if me in g["pending"]:
        g["leak"] = True


def expected_geometry(settings):
  """facts the WebVTT rendering rules (7.2 'apply WebVTT cue settings' and the positioning steps of 7.3) give for a settings list"""
  v = settings.get("vertical")
  al = settings.get("align")
  e = {"wm": {None: "lrtb", "rl": "tbrl", "lr": "tblr"}[v], "vertical": v,
       "ta": {None: "center", "start": "start", "center": "center", "end": "end", "left": "start", "right": "end"}[al]}
  line = settings.get("line")
  if line is None:
    e["line"] = None
  elif line["pct"] is not None:
    e["line"] = {"kind": "pct", "P": Fraction(line["pct"]), "edge": line["align"] or "start", "explicit_align": line["align"] is not None}
  else:
    e["line"] = {"kind": "num", "n": line["num"], "align": line["align"]}
  pos = settings.get("position")
  size = settings.get("size")
  if pos is None and size is None:
    e["inline"] = None
  else:
    if pos is not None:
      pa = pos["align"] or auto_position_alignment(al)
      P = Fraction(pos["pct"])
    else:
      pa = auto_position_alignment(al)
      P = {"line-left": Fraction(0), "center": Fraction(50), "line-right": Fraction(100)}[pa]
    mx = maximum_size(P, pa)
    e["inline"] = {"anchor": pa, "P": P, "explicit_pos": pos is not None, "explicit_pa": pos is not None and pos["align"] is not None,
                   "size": None if size is None else Fraction(size), "max": mx,
                   "extent": None if size is None else min(Fraction(size), mx)}
  return e


def expected(desc):
  """list of per-cue expectations, in file order"""
  out = []
  for b in desc["blocks"]:
    if b["k"] != "cue":
      continue
    o = {"begin": ms_to_fraction(b["begin"]), "end": ms_to_fraction(b["end"]), "stream": [], "rubies": [], "id": b["id"]}
    g = {"ts": None, "tsn": 0, "leak": False, "open": [], "pending": set(), "serial": 0}
    st_ = {"b": False, "i": False, "u": False, "fg": None, "bg": None, "lang": None, "role": None}
    _expect_nodes(b["nodes"], st_, g, o)
    o["nts"] = g["tsn"]
    o["lines"] = "".join(ch for ch, _ in o["stream"]).split("\n")
    o["geom"] = expected_geometry(b["settings"])
    o["key"] = settings_key(b)
    out.append(o)
  return out


# ------------------------------------------------------------------------------------------------ features and simplification

def cue_features(b):
  """labels describing one cue (used for the evidence histogram and for naming failure buckets by input feature)"""
  f = set()
  nodes = b["nodes"]
  if not nodes:
    f.add("empty-payload")
  if any(not l.strip(" \t") for l in render_nodes(nodes).split("\n")) and nodes:
    f.add("white-space-only-line")
  if b["id"] is not None and (b["id"].startswith("NOTE ") or b["id"].startswith("STYLE")):
    f.add("identifier-like-block-keyword")
  for n in walk_nodes(nodes):
    t = n["t"]
    if t == "tag":
      f.add("tag:" + n["name"])
      if n.get("noclose"):
        f.add("voice-end-tag-omitted")
      if n["classes"]:
        f.add("classes")
      if n["annot"] is not None and any(p["t"] == "ent" for p in n["annot"]):
        f.add("annotation-entity")
    elif t == "ruby":
      f.add("ruby")
      for p in n["pairs"]:
        if p["rt"] is None:
          f.add("ruby-base-without-rt")
        elif not p["close"]:
          f.add("ruby-rt-unclosed")
        if any(x["t"] not in ("text", "ent") for x in p["base"]) or (p["rt"] is not None and any(x["t"] not in ("text", "ent") for x in p["rt"])):
          f.add("ruby-structured-content")
    elif t == "ent":
      f.add("entity")
      if [n["raw"], n["ch"]] in ENTITIES_SEMI:
        f.add("entity-semicolon-only")
    elif t == "ts":
      f.add("timestamp")
  for n in nodes:
    if n["t"] == "tag" and has_kind(n["kids"], "ruby"):
      f.add("ruby-inside-tag")
  return f


def _replace(desc, bi, newblock):
  d = dict(desc)
  d["blocks"] = list(desc["blocks"])
  if newblock is None:
    del d["blocks"][bi]
  else:
    d["blocks"][bi] = newblock
  return d


def _node_simplifications(nodes):
  """yields simpler node lists: delete a node, replace a tag by its children, drop classes, shorten ruby"""
  for i, n in enumerate(nodes):
    yield nodes[:i] + nodes[i + 1:]
    t = n["t"]
    if t == "tag":
      yield nodes[:i] + n["kids"] + nodes[i + 1:]
      if n["classes"]:
        yield nodes[:i] + [dict(n, classes=[])] + nodes[i + 1:]
        if len(n["classes"]) > 1:
          for j in range(len(n["classes"])):
            yield nodes[:i] + [dict(n, classes=n["classes"][:j] + n["classes"][j + 1:])] + nodes[i + 1:]
      if n["annot"] is not None and len(n["annot"]) > 1:
        for j in range(len(n["annot"])):
          a = n["annot"][:j] + n["annot"][j + 1:]
          if render_annot(a).strip():
            yield nodes[:i] + [dict(n, annot=a)] + nodes[i + 1:]
      for k in _node_simplifications(n["kids"]):
        yield nodes[:i] + [dict(n, kids=k)] + nodes[i + 1:]
    elif t == "ruby":
      ps = n["pairs"]
      if len(ps) > 1:
        for j in range(len(ps)):
          q = ps[:j] + ps[j + 1:]
          if all(p["close"] for p in q[:-1]):
            yield nodes[:i] + [dict(n, pairs=q)] + nodes[i + 1:]
      for j, p in enumerate(ps):
        if not p["close"]:
          yield nodes[:i] + [dict(n, pairs=ps[:j] + [dict(p, close=True)] + ps[j + 1:])] + nodes[i + 1:]
        for k in _node_simplifications(p["base"]):
          if k:
            yield nodes[:i] + [dict(n, pairs=ps[:j] + [dict(p, base=k)] + ps[j + 1:])] + nodes[i + 1:]
        if p["rt"] is not None:
          for k in _node_simplifications(p["rt"]):
            yield nodes[:i] + [dict(n, pairs=ps[:j] + [dict(p, rt=k)] + ps[j + 1:])] + nodes[i + 1:]
    elif t == "text" and len(n["s"]) > 2:
      w = n["s"].strip(" ").split(" ")[0].rstrip(".!>',")
      if w and w != n["s"]:
        yield nodes[:i] + [dict(n, s=w)] + nodes[i + 1:]


def simplifications(desc):
  """greedy-minimiser candidates; every candidate is well-formed again (validate() is applied, failures are skipped)"""
  def ok(d):
    try:
      validate(d)
      return True
    except AssertionError:
      return False

  blocks = desc["blocks"]
  cands = []
  for bi, b in enumerate(blocks):
    cands.append(_replace(desc, bi, None))
  if desc["bom"]:
    cands.append(dict(desc, bom=False))
  if desc["header"]:
    cands.append(dict(desc, header=""))
  if desc["head_gap"] != 1:
    cands.append(dict(desc, head_gap=1))
  if desc["final"] != 1:
    cands.append(dict(desc, final=1))
  for bi, b in enumerate(blocks):
    if b["gap"] != 1:
      cands.append(_replace(desc, bi, dict(b, gap=1)))
    if b["k"] != "cue":
      if len(b["lines"]) > 1:
        cands.append(_replace(desc, bi, dict(b, lines=b["lines"][:1])))
      continue
    if b["id"] is not None:
      cands.append(_replace(desc, bi, dict(b, id=None)))
    for name in list(b["settings"]):
      s = dict(b["settings"])
      del s[name]
      cands.append(_replace(desc, bi, dict(b, settings=s)))
    for name in ("line", "position"):
      v = b["settings"].get(name)
      if v is not None and v["align"] is not None:
        cands.append(_replace(desc, bi, dict(b, settings=dict(b["settings"], **{name: dict(v, align=None)}))))
    if b["ws"] != [" ", " ", " "]:
      cands.append(_replace(desc, bi, dict(b, ws=[" ", " ", " "])))
    if b["order"] != SETTING_NAMES:
      cands.append(_replace(desc, bi, dict(b, order=list(SETTING_NAMES))))
    if b["hb"] or b["he"]:
      cands.append(_replace(desc, bi, dict(b, hb=False, he=False)))
    # simpler times: shift the cue (and its timestamps) so that it begins at 0 / 1 s keeping durations
    for nb in (0, 1000):
      if b["begin"] > nb and all(x["k"] != "cue" for x in blocks[:bi]):
        sh = b["begin"] - nb
        nodes = copy.deepcopy(b["nodes"])
        for n in walk_nodes(nodes):
          if n["t"] == "ts":
            n["ms"] -= sh
        cands.append(_replace(desc, bi, dict(b, begin=nb, end=b["end"] - sh, nodes=nodes)))
    for k in _node_simplifications(b["nodes"]):
      if k:
        cands.append(_replace(desc, bi, dict(b, nodes=normalise_nodes(k))))
  for c in cands:
    if any(x["k"] == "cue" for x in c["blocks"]) and ok(c):
      yield c


# ------------------------------------------------------------------------------------------------ self test

def selftest():
  d = {"bom": False, "header": " - t", "head_gap": 1, "final": 1, "blocks": [
    {"k": "note", "form": "inline", "lines": ["hello", "more"], "gap": 1},
    {"k": "cue", "id": "7", "begin": 1500, "end": 3661001, "hb": False, "he": False, "ws": [" ", "\t", " "],
     "settings": {"line": {"pct": None, "num": -1, "align": None}, "position": {"pct": "10", "align": "line-left"}, "size": "50",
                  "align": "left", "vertical": "rl"},
     "order": ["align", "vertical", "line", "position", "size"], "gap": 2,
     "nodes": [{"t": "text", "s": "a1 "},
               {"t": "tag", "name": "c", "classes": ["red", "bg_blue", "loud"], "annot": None, "sep": " ", "kids": [
                 {"t": "text", "s": "a2"}, {"t": "ts", "ms": 2000, "h": False},
                 {"t": "tag", "name": "v", "classes": [], "annot": [{"t": "text", "s": "Tom "}, {"t": "ent", "raw": "&amp;", "ch": "&"}], "sep": "\t",
                  "kids": [{"t": "ent", "raw": "&lt;", "ch": "<"}, {"t": "nl"}, {"t": "text", "s": "a3"}]}]},
               {"t": "text", "s": "a4"},
               {"t": "ruby", "classes": [], "pairs": [{"base": [{"t": "text", "s": "a5"}], "rt": [{"t": "text", "s": "a6"}], "rtc": [], "close": True},
                                                     {"base": [{"t": "text", "s": "a7"}], "rt": [{"t": "text", "s": "a8"}], "rtc": ["x"], "close": False}]}]},
    {"k": "cue", "id": None, "begin": 3600000, "end": 3600001, "hb": True, "he": True, "ws": [" ", " ", " "], "settings": {},
     "order": list(SETTING_NAMES), "gap": 1, "nodes": [{"t": "text", "s": "b1"}]}]}
  validate(d)
  want = ("WEBVTT - t\n\nNOTE hello\nmore\n\n7\n00:01.500 -->\t01:01:01.001 align:left vertical:rl line:-1 position:10%,line-left size:50%\n"
          "a1 <c.red.bg_blue.loud>a2<00:02.000><v\tTom &amp;>&lt;\na3</v></c>a4<ruby>a5<rt>a6</rt>a7<rt.x>a8</ruby>\n\n\n"
          "01:00:00.000 --> 01:00:00.001\nb1\n")
  got = render(d)
  if got != want:
    raise AssertionError("gen_vtt.render self-test:\n%r\n%r" % (got, want))
  e = expected(d)
  assert len(e) == 2 and e[0]["begin"] == Fraction(3, 2) and e[0]["end"] == Fraction(3661001, 1000) and e[1]["begin"] == 3600
  assert e[0]["lines"] == ["a1 a2<", "a3a4a5a7"], e[0]["lines"]
  s = e[0]["stream"]
  assert s[0][1]["fg"] is None and s[3][1]["fg"] == "red" and s[3][1]["bg"] == "blue" and s[3][1]["ts"] is None
  assert s[5][0] == "<" and s[5][1]["ts"] == 2000 and s[5][1]["leak"] is False
  a4 = [x for x in s if x[0] == "4"][0][1]
  assert a4["leak"] is True and a4["fg"] is None and a4["ts"] == 2000
  assert e[0]["rubies"][0]["rt"][1][0][0] == "a" and "".join(c for c, _ in e[0]["rubies"][0]["rt"][1]) == "a8"
  g = e[0]["geom"]
  assert g["wm"] == "tbrl" and g["ta"] == "start" and g["line"] == {"kind": "num", "n": -1, "align": None}
  assert g["inline"]["anchor"] == "line-left" and g["inline"]["max"] == 90 and g["inline"]["extent"] == 50
  assert expected_geometry({"position": {"pct": "75", "align": None}, "size": "90"})["inline"]["extent"] == 50
  assert expected_geometry({"size": "50", "align": "end"})["inline"]["P"] == 100
  # normalisation: leading, doubled and trailing line terminators disappear, at most four lines stay
  n = normalise_nodes([{"t": "nl"}, {"t": "text", "s": "x"}, {"t": "nl"}, {"t": "nl"}, {"t": "tag", "name": "b", "classes": [], "annot": None,
                      "sep": " ", "kids": [{"t": "nl"}, {"t": "text", "s": "y"}, {"t": "nl"}]}, {"t": "nl"}])
  assert render_nodes(n) == "x\n<b>\ny\n</b>", render_nodes(n)
  assert normalise_nodes(n) == n
  n = normalise_nodes([{"t": "text", "s": "x"}, {"t": "nl"}] * 6)
  assert render_nodes(n) == "x\nx\nx\nxxx", render_nodes(n)
  n = normalise_nodes([{"t": "tag", "name": "v", "classes": [], "annot": [{"t": "text", "s": "T"}], "sep": " ", "noclose": True,
                        "kids": [{"t": "text", "s": "x"}, {"t": "nl"}]}])
  assert render_nodes(n) == "<v T>x", render_nodes(n)
  for c in simplifications(d):
    validate(c)
