"""Reference white-space rules (only what properties C13/C06 state; see DESIGN 2.3)."""
import re

XML_WS = re.compile("[ \t\r\n]+")


def collapse(text):
  """words separated by exactly one space, nothing leading or trailing (XML white space only)"""
  return " ".join(x for x in XML_WS.split(text) if x)


def context_of(chain, kind_by_id):
  """(context kind, context id) of a leaf: nearest p, or the rt / rp it sits in (annotation text is processed on its own)"""
  ctx = None
  for eid in chain:
    k = kind_by_id.get(eid)
    if k == "p":
      ctx = ("p", eid)
    elif k in ("rt", "rp"):
      ctx = (k, eid)
  return ctx


def split_contexts(leaves, kind_by_id):
  """leaves: iterable of (kind, text, chain, preserve) -> ordered dict context -> list of leaves"""
  out = {}
  for l in leaves:
    ctx = context_of(l[2], kind_by_id)
    out.setdefault(ctx, []).append(l)
  return out


def segments(leaves):
  """concatenated text between line breaks"""
  segs = [""]
  for l in leaves:
    if l[0] == "br":
      segs.append("")
    else:
      segs[-1] += l[1]
  return segs
