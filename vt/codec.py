"""JSON codec for cases: Fractions, tuples, bytes, enums and dataclasses of ttconv.style_properties / ttconv.model.

Every case explored by a check is plain data; this codec makes it a replay file and an evidence sample.
"""
import base64
import dataclasses
import enum
import hashlib
import json
from fractions import Fraction


def _mods():
  import ttconv.style_properties as s
  import ttconv.model as m
  return {"s": s, "m": m}


def _qual(cls):
  import ttconv.style_properties as s
  mod = "s" if cls.__module__ == s.__name__ else "m"
  return mod + ":" + cls.__qualname__


def _resolve(name):
  mod, qual = name.split(":")
  o = _mods()[mod]
  for part in qual.split("."):
    o = getattr(o, part)
  return o


def enc(o):
  if o is None or isinstance(o, (bool, int, str)):
    return o
  if isinstance(o, float):
    return {"$f": repr(o)}
  if isinstance(o, Fraction):
    return {"$F": "%d/%d" % (o.numerator, o.denominator)}
  if isinstance(o, bytes):
    return {"$B": base64.b64encode(o).decode("ascii")}
  if isinstance(o, tuple):
    return {"$T": [enc(x) for x in o]}
  if isinstance(o, list):
    return [enc(x) for x in o]
  if isinstance(o, dict):
    if all(isinstance(k, str) for k in o):
      return {("$$" + k if k.startswith("$") else k): enc(v) for k, v in o.items()}
    return {"$M": [[enc(k), enc(v)] for k, v in o.items()]}
  if isinstance(o, enum.Enum):
    return {"$E": _qual(type(o)) + "." + o.name}
  if dataclasses.is_dataclass(o) and not isinstance(o, type):
    return {"$D": _qual(type(o)), "f": {f.name: enc(getattr(o, f.name)) for f in dataclasses.fields(o)}}
  if isinstance(o, type):
    return {"$C": _qual(o)}
  if isinstance(o, (set, frozenset)):
    return {"$S": sorted((enc(x) for x in o), key=lambda x: json.dumps(x, sort_keys=True))}
  raise TypeError("cannot encode %r" % (o,))


def dec(j):
  if j is None or isinstance(j, (bool, int, str)):
    return j
  if isinstance(j, float):
    return j
  if isinstance(j, list):
    return [dec(x) for x in j]
  if isinstance(j, dict):
    if len(j) == 1:
      (k, v), = j.items()
      if k == "$f":
        return float(v)
      if k == "$F":
        n, d = v.split("/")
        return Fraction(int(n), int(d))
      if k == "$B":
        return base64.b64decode(v)
      if k == "$T":
        return tuple(dec(x) for x in v)
      if k == "$M":
        return {dec(a): dec(b) for a, b in v}
      if k == "$E":
        cls, _, name = v.rpartition(".")
        return _resolve(cls)[name]
      if k == "$C":
        return _resolve(v)
      if k == "$S":
        return set(dec(x) for x in v)
    if "$D" in j:
      cls = _resolve(j["$D"])
      return cls(**{k: dec(v) for k, v in j["f"].items()})
    return {(k[2:] if k.startswith("$$") else k): dec(v) for k, v in j.items()}
  raise TypeError("cannot decode %r" % (j,))


def dumps(o, **kw):
  return json.dumps(enc(o), sort_keys=True, **kw)


def loads(s):
  return dec(json.loads(s))


def chash(o):
  """stable hash of a case"""
  return hashlib.sha1(dumps(o).encode("utf-8")).hexdigest()[:16]


def brief(o, limit=1800):
  """encoded form abbreviated for evidence samples"""
  j = enc(o)
  s = json.dumps(j, sort_keys=True)
  if len(s) <= limit:
    return j
  return {"abbreviated": s[:limit] + "...", "full_length": len(s), "hash": chash(o)}
