"""Reference TTML2 interpreter over DocSpecs: time containment, region association, style resolution.

Written from TTML2 section 11.3.1 (ISD construction, [associate region]), 12 (timing), 10.4 (style resolution) and the IMSC 1.1
constraints; structured as per-element predicates, not as ttconv's recursive constructor.  Works on plain DocSpec data; the only
things taken from ttconv are the style value *types* (dataclasses / enums) that DocSpecs are made of.

Computed values are plain data:
  length      -> (Fraction, "rh"|"rw")            extent -> (height, width)      origin/position -> (x, y)
  padding     -> (before, end, after, start)      text decoration -> (underline, line_through, overline) booleans
  special values -> "normal" / "none"             UNKNOWN when the property text does not determine the value
"""
from fractions import Fraction as F

import ttconv.style_properties as s

from vt.gen_model import ALL_PROPS, PROP

U = s.LengthType.Units
# transcribed from the "Inherited:" rows of TTML2 10.2 (tts:*), IMSC 1.1 (itts:fillLineGap) and EBU-TT-D (ebutts:linePadding,
# ebutts:multiRowAlign); deliberately not read from ttconv's is_inherited flags, which are part of what C03 judges
INHERITED = frozenset([
  "Color", "Direction", "FillLineGap", "FontFamily", "FontSize", "FontStyle", "FontWeight", "LineHeight", "LinePadding", "MultiRowAlign",
  "RubyAlign", "RubyPosition", "RubyReserve", "Shear", "TextAlign", "TextCombine", "TextDecoration", "TextEmphasis", "TextOutline",
  "TextShadow", "Visibility", "WrapOption"])
assert INHERITED <= set(ALL_PROPS)
VERTICAL = (s.WritingModeType.tblr, s.WritingModeType.tbrl)
UNKNOWN = "<unknown>"
DEFAULT_REGION_ID = "default_region"

APPLICABLE = {
  "body": {"BackgroundColor", "Display", "Opacity", "Visibility"},
  "div": {"BackgroundColor", "Display", "Opacity", "Visibility"},
  "p": {"BackgroundColor", "Direction", "Display", "FillLineGap", "FontFamily", "FontSize", "FontStyle", "FontWeight", "LineHeight",
        "LinePadding", "MultiRowAlign", "Opacity", "RubyReserve", "Shear", "TextAlign", "UnicodeBidi", "Visibility"},
  "span": {"BackgroundColor", "Color", "Direction", "Display", "FontFamily", "FontSize", "FontStyle", "FontWeight", "Opacity",
           "TextCombine", "TextDecoration", "TextEmphasis", "TextOutline", "TextShadow", "UnicodeBidi", "Visibility", "WrapOption"},
  "ruby": {"BackgroundColor", "Direction", "Display", "Opacity", "RubyAlign", "Visibility"},
  "rbc": {"BackgroundColor", "Direction", "Display", "Opacity", "Visibility"},
  "rtc": {"BackgroundColor", "Direction", "Display", "Opacity", "RubyPosition", "Visibility"},
  "region": {"BackgroundColor", "Disparity", "Display", "DisplayAlign", "Extent", "LuminanceGain", "Opacity", "Origin", "Overflow",
             "Padding", "Position", "ShowBackground", "Visibility", "WritingMode"},
  "br": set(), "text": set(),
}
APPLICABLE["rb"] = APPLICABLE["rp"] = set(APPLICABLE["span"])
APPLICABLE["rt"] = APPLICABLE["span"] | {"RubyPosition"}

TTML_DEFAULTS = {
  "BackgroundColor": s.ColorType((0, 0, 0, 0)), "Color": s.ColorType((255, 255, 255, 255)), "Direction": s.DirectionType.ltr,
  "Disparity": s.LengthType(0, U.pct), "Display": s.DisplayType.auto, "DisplayAlign": s.DisplayAlignType.before,
  "Extent": s.ExtentType(s.LengthType(100, U.pct), s.LengthType(100, U.pct)), "FillLineGap": False,
  "FontFamily": (s.GenericFontFamilyType.default,), "FontSize": s.LengthType(1, U.c), "FontStyle": s.FontStyleType.normal,
  "FontWeight": s.FontWeightType.normal, "LineHeight": s.SpecialValues.normal, "LinePadding": s.LengthType(0, U.c),
  "LuminanceGain": 1.0, "MultiRowAlign": s.MultiRowAlignType.auto, "Opacity": 1.0,
  "Origin": s.CoordinateType(s.LengthType(0, U.pct), s.LengthType(0, U.pct)), "Overflow": s.OverflowType.hidden,
  "Padding": s.PaddingType(s.LengthType(0, U.pct), s.LengthType(0, U.pct), s.LengthType(0, U.pct), s.LengthType(0, U.pct)),
  "Position": None, "RubyAlign": s.RubyAlignType.center, "RubyPosition": s.AnnotationPositionType.outside,
  "RubyReserve": s.SpecialValues.none, "Shear": 0.0, "ShowBackground": s.ShowBackgroundType.always,
  "TextAlign": s.TextAlignType.start, "TextCombine": s.TextCombineType.none,
  "TextDecoration": s.TextDecorationType(False, False, False), "TextEmphasis": s.SpecialValues.none,
  "TextOutline": s.SpecialValues.none, "TextShadow": s.SpecialValues.none, "UnicodeBidi": s.UnicodeBidiType.normal,
  "Visibility": s.VisibilityType.visible, "WrapOption": s.WrapOptionType.wrap, "WritingMode": s.WritingModeType.lrtb,
}


def absolute(begin, end, parent_begin, parent_end):
  """absolute [begin, end) of an element: offsets relative to the parent's begin, end clipped by the parent's end"""
  pb = parent_begin if parent_begin is not None else F(0)
  ab = pb + (begin if begin is not None else F(0))
  ae = None if end is None else pb + end
  if parent_end is not None:
    ae = parent_end if ae is None else min(ae, parent_end)
  return ab, ae


def active(iv, t):
  return iv[0] <= t and (iv[1] is None or t < iv[1])


def num(v):
  return v if isinstance(v, F) else F(v)


class Leaf:
  __slots__ = ("kind", "text", "chain", "node", "preserve")

  def __init__(self, kind, text, chain, node, preserve):
    self.kind, self.text, self.chain, self.node, self.preserve = kind, text, chain, node, preserve

  def __repr__(self):
    return "%s(%r under %s)" % (self.kind, self.text, "/".join(self.chain))


class RegionSnap:
  __slots__ = ("id", "node", "computed", "leaves", "elements", "order")

  def __init__(self, rid, node, computed):
    self.id, self.node, self.computed = rid, node, computed
    self.leaves = []       # presented leaves in document order
    self.elements = {}     # id -> (node, computed) of every active, associated, displayed container walked
    self.order = []        # ids in document order


class Ref:
  def __init__(self, spec):
    self.spec = spec
    self.cols, self.rows = spec["cell"]
    self.pxw, self.pxh = spec["px"]
    self.initials = spec["initials"]
    self.default = not spec["regions"]
    self.regions = spec["regions"] or [dict(kind="region", id=DEFAULT_REGION_ID, begin=None, end=None, region=None, styles={},
                                            anims=[], kids=[], space="default", lang="")]

  # ------------------------------------------------------------------------------------------ timing

  def change_points(self):
    """all absolute begins / ends of regions, elements and animation steps"""
    pts = set()

    def w(n, pb, pe):
      if n["kind"] in ("text",):
        return
      iv = absolute(n.get("begin"), n.get("end"), pb, pe)
      pts.add(iv[0])
      if iv[1] is not None:
        pts.add(iv[1])
      for (_k, b, e, _v) in n["anims"]:
        a = absolute(b, e, iv[0], iv[1])
        pts.add(a[0])
        if a[1] is not None:
          pts.add(a[1])
      for k in n["kids"]:
        w(k, iv[0], iv[1])

    for r in self.spec["regions"]:
      w(r, None, None)
    if self.spec["body"] is not None:
      w(self.spec["body"], None, None)
    return sorted(pts)

  def probe_times(self, extra=()):
    """change points, each +-eps, midpoints, 0, max+1 and the given extra times"""
    pts = self.change_points() or [F(0)]
    gaps = [b - a for a, b in zip(pts, pts[1:]) if b > a]
    eps = (min(gaps) if gaps else F(1)) / 1000
    out = set(pts) | {F(0), pts[-1] + 1}
    for p in pts:
      out.add(p + eps)
      if p - eps >= 0:
        out.add(p - eps)
    for a, b in zip(pts, pts[1:]):
      out.add((a + b) / 2)
    out.update(x for x in extra if x >= 0)
    return sorted(out), set(pts)

  # ------------------------------------------------------------------------------------------ lengths

  def length(self, l, axis, pct=None, em=None):
    """resolve one length to (Fraction, 'rh'|'rw'); axis 'h' = vertical extent, 'w' = horizontal"""
    v = num(l.value)
    u = l.units
    if u is U.pct:
      return (v * pct[0] / 100, pct[1])
    if u is U.em:
      return (v * em[0], em[1])
    if u is U.c:
      return (v * 100 / (self.rows if axis == "h" else self.cols), "rh" if axis == "h" else "rw")
    if u is U.px:
      return (v * 100 / (self.pxh if axis == "h" else self.pxw), "rh" if axis == "h" else "rw")
    return (v, u.value)

  # ------------------------------------------------------------------------------------------ styles

  @staticmethod
  def specified(n, name, iv, t):
    """animation step active at t (the last one in document order), else the specified value -> (source, value)"""
    val, found, distinct = None, False, set()
    for (k, b, e, v) in n["anims"]:
      if k != name:
        continue
      if active(absolute(b, e, iv[0], iv[1]), t):
        val, found = v, True
        distinct.add(repr(v))
    if found:
      return ("anim-multi" if len(distinct) > 1 else "anim"), val
    if name in n["styles"]:
      return "spec", n["styles"][name]
    return None, None

  def compute(self, n, iv, t, parent):
    """computed values of all 36 properties for element n (parent = computed dict of the parent, None for regions).
    Also returns, under "__src", the source of each value: anim / anim-multi / spec / inherit / initial / default / implied."""
    kind = n["kind"]
    is_region = kind == "region"
    raw, src = {}, {}
    for name in ALL_PROPS:
      so, v = self.specified(n, name, iv, t)
      if so is not None:
        raw[name], src[name] = v, so
        continue
      if name in INHERITED and parent is not None:
        raw[name], src[name] = parent[name], "inherit"
        continue
      if name in self.initials:
        raw[name], src[name] = self.initials[name], "initial"
      else:
        raw[name], src[name] = TTML_DEFAULTS[name], "default"
    # writing mode implies direction on regions (TTML2 10.2.12.1).  Two readings are possible when animation or initial values
    # are involved: (A) the computed writing mode implies the direction unless a direction is specified; (B) only a specified
    # writing mode does, and it also overrides an animated direction.  The property text does not choose: where the readings
    # disagree the value is UNKNOWN (not asserted, and propagated as such to descendants that inherit it).
    if is_region and "Direction" not in n["styles"]:
      def implied(wm):
        return s.DirectionType.ltr if wm is s.WritingModeType.lrtb else s.DirectionType.rtl
      wm = raw["WritingMode"]
      a_val = implied(wm) if wm not in VERTICAL else raw["Direction"]
      wm_spec = n["styles"].get("WritingMode")
      b_val = implied(wm_spec) if wm_spec is not None and wm_spec not in VERTICAL else raw["Direction"]
      if a_val is b_val:
        if a_val is not raw["Direction"] or (wm not in VERTICAL and src["WritingMode"] == "spec"):
          src["Direction"] = "implied"
        raw["Direction"] = a_val
      else:
        raw["Direction"], src["Direction"] = UNKNOWN, "unknown"
    c = {}
    alt = {}
    # font size first: everything relative depends on it
    cell_h = (F(100, self.rows), "rh")
    v = raw["FontSize"]
    if src["FontSize"] == "inherit":
      fs = v
      if fs is not UNKNOWN and (kind == "rtc" or (kind == "rt" and parent.get("__kind") != "rtc")):
        fs = (v[0] / 2, v[1])
        src["FontSize"] = "inherit-half"
    else:
      refl = parent["FontSize"] if parent is not None else cell_h
      fs = self.length(v, "h", refl, refl)
    c["FontSize"] = fs

    def rel(l):
      return self.length(l, "h", fs, fs)

    for name in ALL_PROPS:
      if name == "FontSize":
        continue
      v = raw[name]
      if src[name] == "inherit" and name != "TextDecoration":
        c[name] = v
        continue
      if v is UNKNOWN:
        c[name] = UNKNOWN
        continue
      if name == "TextDecoration":
        if src[name] == "inherit":
          c[name] = v
        else:
          own = (v.underline, v.line_through, v.overline)
          if parent is not None:
            pv = parent["TextDecoration"]
            own = tuple(a if a is not None else b for a, b in zip(own, pv))
          c[name] = tuple(bool(x) for x in own)
      elif name == "Extent":
        c[name] = (self.length(v.height, "h", (F(100), "rh")), self.length(v.width, "w", (F(100), "rw")))
      elif name == "Origin":
        c[name] = (self.length(v.x, "w", (F(100), "rw")), self.length(v.y, "h", (F(100), "rh")))
      elif name == "Disparity":
        c[name] = self.length(v, "w", (F(100), "rw"), fs)
      elif name == "LineHeight":
        c[name] = "normal" if v is s.SpecialValues.normal else rel(v)
      elif name == "LinePadding":
        c[name] = rel(v)
        if v.units is U.c:   # ebutts:linePadding in c: either cell axis is accepted (DESIGN C03 c'')
          alt[name] = [(num(v.value) * 100 / self.cols, "rw")]
      elif name == "RubyReserve":
        c[name] = "none" if v is s.SpecialValues.none else (v.position, (fs[0] / 2, fs[1]) if v.length is None else rel(v.length))
      elif name in ("Position", "Padding", "TextOutline", "TextShadow", "TextEmphasis"):
        pass
      else:
        c[name] = v
    color = c["Color"]
    for name in ("TextOutline", "TextShadow", "TextEmphasis"):
      v = raw[name]
      if src[name] == "inherit":
        c[name] = v
      elif v is s.SpecialValues.none:
        c[name] = "none"
      elif name == "TextOutline":
        c[name] = (v.color if v.color is not None else color, rel(v.thickness))
      elif name == "TextShadow":
        c[name] = tuple((rel(sh.x_offset), rel(sh.y_offset), None if sh.blur_radius is None else rel(sh.blur_radius),
                         sh.color if sh.color is not None else color) for sh in v.shadows)
      else:
        st_ = v.style
        if st_ is s.TextEmphasisType.Style.auto:
          wm = parent["__wm"] if parent is not None else c["WritingMode"]
          st_ = s.TextEmphasisType.Style.filled_sesame if wm in VERTICAL else s.TextEmphasisType.Style.filled_circle
        c[name] = (st_, v.color if v.color is not None else color, v.position)
    # position resolved against the computed extent and edges into the origin
    ext = c["Extent"]
    v = raw["Position"]
    if v is None:
      c["Position"] = c["Origin"]
      src["Position"] = "from-origin"
    else:
      h = self.length(v.h_offset, "w", (100 - ext[1][0], "rw"))
      vv = self.length(v.v_offset, "h", (100 - ext[0][0], "rh"))
      if v.h_edge is s.PositionType.HEdge.right:
        h = (100 - ext[1][0] - h[0], h[1])
      if v.v_edge is s.PositionType.VEdge.bottom:
        vv = (100 - ext[0][0] - vv[0], vv[1])
      c["Position"] = (h, vv)
      c["Origin"] = (h, vv)
      src["Origin"] = "from-position"
    # padding: percentages of the extent on the axis the writing mode selects
    v = raw["Padding"]
    vert = c["WritingMode"] in VERTICAL
    ba, se = ("w", "h") if vert else ("h", "w")

    def pad(l, axis):
      return self.length(l, axis, ext[1] if axis == "w" else ext[0], fs)

    c["Padding"] = (pad(v.before, ba), pad(v.end, se), pad(v.after, ba), pad(v.start, se))
    c["__kind"] = kind
    c["__wm"] = parent["__wm"] if parent is not None else c["WritingMode"]
    c["__src"] = src
    c["__alt"] = alt
    c["__raw"] = raw
    return c

  # ------------------------------------------------------------------------------------------ snapshot

  def snapshot(self, t):
    """list of RegionSnap for the regions that are active and displayed at t, in declaration order"""
    out = []
    for r in self.regions:
      riv = absolute(r["begin"], r["end"], None, None)
      if not active(riv, t):
        continue
      rc = self.compute(r, riv, t, None)
      if rc["Display"] is s.DisplayType.none:
        continue
      snap = RegionSnap(r["id"], r, rc)
      if self.spec["body"] is not None:
        self._walk(snap, self.spec["body"], None, rc, None, (), t)
      out.append(snap)
    return out

  def _walk(self, snap, n, piv, pcomp, inherited_region, chain, t):
    kind = n["kind"]
    iv = absolute(n["begin"], n["end"], piv[0] if piv else None, piv[1] if piv else None)
    if not active(iv, t):
      return
    assoc = n["region"] if n["region"] is not None else inherited_region
    if not self.default and assoc is not None and assoc != snap.id:
      return                       # the whole subtree belongs to another region
    cc = self.compute(n, iv, t, pcomp)
    if cc["Display"] is s.DisplayType.none:
      return
    snap.elements[n["id"]] = (n, cc)
    snap.order.append(n["id"])
    here = chain + (n["id"],)
    for k in n["kids"]:
      if k["kind"] == "text":
        if self.default or assoc is not None:
          snap.leaves.append(Leaf("text", k["text"], here, k, n["space"] == "preserve"))
      elif k["kind"] == "br":
        if self.default or assoc is not None:
          so, v = self.specified(k, "Display", iv, t)
          if so is not None and v is s.DisplayType.none:
            continue
          snap.leaves.append(Leaf("br", None, here + (k["id"],), k, False))
      else:
        self._walk(snap, k, iv, cc, assoc, here, t)

  # ------------------------------------------------------------------------------------------ painting

  @staticmethod
  def paints_background(rc):
    """whether a region without content paints anything (used by C14's cached/uncached comparison)"""
    if rc["ShowBackground"] is not s.ShowBackgroundType.always:
      return False
    if rc["Visibility"] is s.VisibilityType.hidden or num(rc["Opacity"]) == 0:
      return False
    return rc["BackgroundColor"].components[3] != 0


XML_SPACE = " \t\r\n"


def nonspace(text):
  """the characters of `text` other than the four XML white-space characters"""
  if text is None:
    return None
  return "".join(ch for ch in text if ch not in XML_SPACE)
