"""Coverage-guided fuzz target for one ttconv reader (atheris / libFuzzer).

usage: python -m vt.fuzz.atheris_target READER OUT_JSON CORPUS_DIR [libFuzzer args...]

The classifier of C18 runs inside the target: allowed outcomes return normally, anything else is recorded in OUT_JSON as
bucket -> smallest input (base64) and the campaign goes on (libFuzzer would otherwise stop at the first shallow failure).
OUT_JSON also carries the execution count.
"""
import base64
import json
import os
import sys


def main():
  reader, out_json, corpus = sys.argv[1], sys.argv[2], sys.argv[3]
  sys.path.insert(0, os.path.join(os.environ.get("VT_HOME", "."), ".deps"))
  import atheris
  with atheris.instrument_imports(include=["ttconv"]):
    import ttconv.imsc.reader  # noqa: F401  pylint: disable=unused-import
    import ttconv.scc.reader   # noqa: F401
    import ttconv.stl.reader   # noqa: F401
    import ttconv.srt.reader   # noqa: F401
    import ttconv.vtt.reader   # noqa: F401
    import ttconv.isd          # noqa: F401
  import logging
  logging.disable(logging.CRITICAL)
  from vt.props import c18
  from vt.run import Res
  state = {"n": 0, "docs": 0, "buckets": {}}

  def flush():
    with open(out_json + ".tmp", "w") as f:
      json.dump({"executions": state["n"], "documents": state["docs"], "buckets": state["buckets"]}, f)
    os.replace(out_json + ".tmp", out_json)

  def one(data):
    state["n"] += 1
    res = Res()
    case = {"reader": reader, "data": bytes(data), "origin": "atheris", "mutations": ["atheris"]}
    try:
      c18.run_case(case, res, 20, light=True)
    except c18.Timeout:
      res.fail(reader + ":hang", "no result within 20 s")
    if res.labels.get(reader + ":document"):
      state["docs"] += 1
    new = False
    for bucket, detail in res.fails:
      cur = state["buckets"].get(bucket)
      if cur is None or len(data) < cur["len"]:
        state["buckets"][bucket] = {"len": len(data), "data": base64.b64encode(bytes(data)).decode("ascii"), "detail": detail}
        new = True
    if new or state["n"] % 2000 == 0:
      flush()

  flush()
  atheris.Setup([sys.argv[0], corpus] + sys.argv[4:], one)
  atheris.Fuzz()


if __name__ == "__main__":
  main()
