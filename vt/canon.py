"""Canonical forms of ttconv ISDs and of reference snapshots, and structural fingerprints of documents."""
from fractions import Fraction as F

import ttconv.model as m
import ttconv.style_properties as s

from vt import obs
from vt.gen_model import spec_of
from vt.ref_isd import APPLICABLE, nonspace


def cv(v, digits=9):
  """canonical, hashable form of a style value (numbers rounded to `digits` decimals)"""
  if isinstance(v, bool) or v is None or isinstance(v, str):
    return v
  if isinstance(v, (int, float, F)):
    return round(float(v), digits) + 0.0
  if isinstance(v, s.LengthType):
    return (cv(v.value, digits), v.units.value)
  if isinstance(v, tuple):
    return tuple(cv(x, digits) for x in v)
  if isinstance(v, s.TextDecorationType):
    # an unspecified component (None) and "off" (False) present identically
    return ("TextDecorationType", bool(v.underline), bool(v.line_through), bool(v.overline))
  if hasattr(v, "__dataclass_fields__"):
    return (type(v).__name__,) + tuple(cv(getattr(v, f), digits) for f in v.__dataclass_fields__)
  if hasattr(v, "name"):
    return type(v).__name__ + "." + v.name
  return repr(v)


def canon_element(e, digits=9):
  k = obs.kind_of(e)
  if isinstance(e, m.Text):
    return ("text", e.get_text())
  styles = tuple(sorted((p.__name__, cv(e.get_style(p), digits)) for p in e.iter_styles()))
  if isinstance(e, m.Br):
    return ("br", e.get_id(), styles)
  return (k, e.get_id(), e.get_lang(), e.get_space().value, styles, tuple(canon_element(c, digits) for c in e))


def canon_isd(isd, digits=9):
  """nested tuples describing every region of an ISD"""
  return tuple(canon_element(r, digits) for r in isd.iter_regions())


def is_empty_region(creg):
  return len(creg[5]) == 0


def drop_empty_regions(c, keep=()):
  """removes regions without content whose id is not in `keep`"""
  return tuple(r for r in c if not is_empty_region(r) or r[1] in keep)


def canon_ref(snaps):
  """rendered form of a reference snapshot: regions that hold presented leaves (or are kept for their background), the
  presented leaves and the computed applicable styles of every element on the path to a presented leaf"""
  out = []
  for sn in snaps:
    leaves = [l for l in sn.leaves if l.kind == "br" or nonspace(l.text)]
    if not leaves and sn.computed["ShowBackground"] is not s.ShowBackgroundType.always:
      continue
    used = set()
    for l in leaves:
      used.update(l.chain)
    els = []
    for eid in sn.order:
      if eid in used:
        n, cc = sn.elements[eid]
        els.append((eid, tuple(sorted((p, repr(cc[p])) for p in APPLICABLE[n["kind"]]))))
    out.append((sn.id, tuple(sorted((p, repr(sn.computed[p])) for p in APPLICABLE["region"])),
                tuple((l.kind, l.chain, l.text if l.preserve else nonspace(l.text)) for l in leaves), tuple(els)))
  return tuple(out)


def fingerprint(doc):
  """deep structural fingerprint of a ContentDocument through public getters, plus object-identity facts"""
  from vt import codec
  spec = spec_of(doc)
  ident = []
  body = doc.get_body()
  if body is not None:
    for e in body.dfs_iterator():
      r = e.get_region()
      ident.append((None if r is None else (r.get_id(), doc.get_region(r.get_id()) is r), e.get_doc() is doc,
                    e.parent() is None or any(c is e for c in e.parent())))
  ident.append(tuple((rid, r.get_doc() is doc) for rid, r in ((x.get_id(), x) for x in doc.iter_regions())))
  return codec.dumps(spec) + repr(ident)
