"""Structured CEA-608 caption scripts for C08: Hypothesis strategies, encoder, flattening to SCC lines and words.

A *script* is plain data (JSON-able):

  {"df": bool, "start": frame count of the first line, "pmask": int (which words carry the parity bit),
   "caps": [caption, ...]}

  caption (pop-on)   {"style": "pop",   "enm": bool, "rows": [row...], "edm_pre": bool, "eoc_brk": gap|None,
                      "edm": gap|None, "gap": int, "single": [names of control codes sent once], "noise": {...}}
  caption (roll-up)  {"style": "roll",  "depth": 2|3|4, "rows": [row...], "edm": gap|None, "gap": int, ...}
                      row: {"pac": {...}|None, "brk": gap|None (row starts a new SCC line), "ru": bool (RUx re-sent), "items": [...]}
  caption (paint-on) {"style": "paint", "rows": [row...], "edm": gap|None, "gap": int, ...}

  row   {"row": 1-15, "indent": 0,4..28, "color": one of COLORS, "italic": bool, "ul": bool, "form": "indent"|"style",
         "to": 0-3, "brk": gap|None, "pre": [noise items], "items": [item...]}
  item  {"t": "txt", "s": str}                      standard characters
        {"t": "mid", "color": name|None, "ul": bool} mid-row code (color None = italics)
        {"t": "spc", "c": ch}                       special character (one cell)
        {"t": "ext", "c": ch, "fb": std char}       fallback standard character then the extended character
        {"t": "bs", "s": ch}                        a wrong character followed by backspace
        {"t": "pad", "n": n}                        n null words
        {"t": "ch2", "row": r, "s": str, "f2": bool, "ctl": name|None, "mirror": bool}  burst for channel 2 (or field-2 code), ignored
                                                    by channel 1; mirror: opens with the channel-2 twin of the preceding channel-1 code
  every control-bearing item may carry "single": True (sent once instead of twice)

flatten(script) gives the SCC lines and, for every word, its line, its index on the line, and what the generator meant by it;
render(script) the Scenarist text.  The grammar is enforced by construction in the strategies and *validated* again in flatten()
(GrammarError), so that a shrunk or hand-written script cannot silently leave the protocol.

profile(**switches) selects the classes: styles / mix (styles inside one file, always separated by EDM), the feature switches
(indent, to, pac_attr, mid, special, extended, bs, pad, ch2, f2, parity, df, brk_rows, edm_pre, cr_no_pac), the labelled classes
(undoubled, row_order, roll_base, roll_blank, pad_inside, paint_accumulate, mid_runs, pop_leftover) and the switches that let the triggers of
known reader defects in (paint_c1, italics_on_colour, trailing_mid, paint_c4; all off in the main classes, see vt/props/c08.py).
"""
from hypothesis import strategies as st

from vt import ref_608 as tab
from vt import ref_timecode as rtc
from fractions import Fraction

COLORS = tab.COLORS            # white green blue cyan red yellow magenta
CTL = ["RCL", "BS", "AOF", "AON", "DER", "RU2", "RU3", "RU4", "FON", "RDC", "TR", "RTD", "EDM", "CR", "ENM", "EOC"]
ROW_BITS = {row: key for key, row in tab.PAC_ROWS.items()}
DF = Fraction(30000, 1001)
NDF = Fraction(30)
MAX_START = 23 * 3600 * 30     # leaves an hour of head room before 24:00:00:00

# displayed standard character -> byte
STD_BYTE = {}
for _b in range(0x20, 0x80):
  STD_BYTE[tab.std_char(_b)] = _b
STD_CHARS = "".join(sorted(STD_BYTE))
PLAIN = "ABCDEFGHIJKLMNOPQRSTUVWXYZabcdefghijklmnopqrstuvwxyz0123456789"
PUNCT = "!\"#$%&'()+,-./:;<=>?@[]"
ACCENT = "áéíóúçÑñ÷█"
SPECIALS = [c for i, c in enumerate(tab.SPECIAL) if i != 9]      # 0x39 is the transparent space: not a displayable glyph
EXTENDED = {}
for _i, _c in enumerate(tab.EXT_SF):
  EXTENDED[_c] = (2, _i)
for _i, _c in enumerate(tab.EXT_PG):
  EXTENDED.setdefault(_c, (3, _i))
# conventional fallback for each extended character (any standard character is legal; encoders send a look-alike)
FALLBACK = {}
for _c in EXTENDED:
  import unicodedata as _ud
  _d = _ud.normalize("NFD", _c)[0]
  FALLBACK[_c] = _d if _d in STD_BYTE and _d != " " else {"‘": "'", "¡": "!", "—": "-", "©": "c", "℠": "s", "•": ".", "“": '"', "”": '"',
                                                         "«": "<", "»": ">", "{": "(", "}": ")", "\\": "/", "^": "'", "_": "-",
                                                         "|": "/", "~": "-", "ß": "s", "¥": "Y", "¤": "o", "│": "I", "Ø": "O", "ø": "o",
                                                         "┌": "+", "┐": "+", "└": "+", "┘": "+", "*": "x", "'": "'"}.get(_c, "?")


class GrammarError(Exception):
  """a script that is not a sentence of the protocol grammars (generator / shrinker bug): harness error, never a finding"""


# ------------------------------------------------------------------------------------------------ encoders (7-bit)

def enc_ctl(name, chan=1, field=1):
  hi = 0x08 if chan == 2 else 0
  if name.startswith("TO"):
    return (0x17 | hi) << 8 | (0x20 + int(name[2]))
  return ((0x15 if field == 2 else 0x14) | hi) << 8 | (0x20 + CTL.index(name))


def enc_pac(row, indent=0, color="white", italic=False, ul=False, form="indent", chan=1):
  x, hi = ROW_BITS[row]
  b1 = 0x10 | x | (0x08 if chan == 2 else 0)
  b2 = 0x40 | (0x20 if hi else 0)
  styled = italic or color != "white"
  if styled and indent:
    raise GrammarError("a PAC carries either an indent or a colour/italics")
  if styled or form == "style":
    if indent:
      raise GrammarError("style-form PAC has no indent")
    b2 |= (7 if italic else COLORS.index(color)) << 1
  else:
    if indent % 4 or not 0 <= indent <= 28:
      raise GrammarError("indent %r" % indent)
    b2 |= 0x10 | (indent // 4) << 1
  return b1 << 8 | b2 | (1 if ul else 0)


def enc_mid(color, ul=False, chan=1):
  a = 7 if color is None else COLORS.index(color)
  return (0x11 | (0x08 if chan == 2 else 0)) << 8 | 0x20 | a << 1 | (1 if ul else 0)


def enc_special(c, chan=1):
  return (0x11 | (0x08 if chan == 2 else 0)) << 8 | 0x30 + tab.SPECIAL.index(c)


def enc_extended(c, chan=1):
  x, i = EXTENDED[c]
  return (0x10 | x | (0x08 if chan == 2 else 0)) << 8 | 0x20 + i


def parity(b):
  return b | 0x80 if bin(b).count("1") % 2 == 0 else b


def with_parity(w):
  return parity(w >> 8) << 8 | parity(w & 0xFF)


# ------------------------------------------------------------------------------------------------ flattening

class Flat:
  """lines: [(frame count of the time code, [emitted 16-bit values])]; words: one dict per word, in transmission order:
  v (as written), s (parity stripped), line, k (index on its line), tc (frame count of the line's time code),
  chan (1, 2, "f2", None for nulls), red (True for the redundant second copy of a doubled control code), what (generator's intent)"""

  def __init__(self, df):
    self.df = df
    self.lines = []
    self.words = []
    self.labels = set()
    self.ncaps = 0
    self.max_rows = 0
    self.attr_changes = 0
    self.unassert_from = None   # index of the first word from which the displayed text is not asserted (leftover class)


class _Emitter:
  def __init__(self, script):
    self.flat = Flat(bool(script["df"]))
    self.pmask = int(script.get("pmask", -1))
    self.t = int(script["start"])
    self.cur = None
    self.pending = None      # a single standard character waiting for its partner
    self.need_ctl = False    # channel 1 must resume with a control code
    self.single = False
    self.ncode = 0
    self.split = set(script.get("split") or ())   # ordinals of the doubled codes whose second copy opens the next, adjacent, line

  # --- lines
  def brk(self, gap):
    """next word starts a new SCC line `gap` frames after the end of the current one"""
    self.flush()
    if self.cur is not None:
      self.t = self.cur[0] + len(self.cur[1]) + int(gap)
      self.cur = None

  def _word(self, s, chan, red, what):
    if self.cur is None:
      self.cur = (self.t, [])
      self.flat.lines.append(self.cur)
    n = len(self.flat.words)
    v = with_parity(s) if (self.pmask >> (n % 61)) & 1 else s
    self.flat.words.append({"v": v, "s": s, "line": len(self.flat.lines) - 1, "k": len(self.cur[1]), "tc": self.cur[0],
                            "chan": chan, "red": red, "what": what})
    self.cur[1].append(v)

  # --- channel 1
  def flush(self):
    if self.pending is not None:
      self._word(self.pending << 8, 1, False, "text")
      self.pending = None

  def text(self, s):
    if self.need_ctl and s:
      raise GrammarError("channel 1 text right after another channel's data: a channel-1 control code must come first")
    for c in s:
      if c not in STD_BYTE:
        raise GrammarError("not a standard character: %r" % c)
      b = STD_BYTE[c]
      if self.pending is None:
        self.pending = b
      else:
        self._word(self.pending << 8 | b, 1, False, "text")
        self.pending = None

  def code(self, s, what, single=False):
    self.flush()
    self.need_ctl = False
    self._word(s, 1, False, what)
    self.ncode += 1
    if not single:
      if self.ncode in self.split:
        # the line ends between the two copies; the next line's time code is the very next frame, so the second copy is still redundant
        self.t = self.cur[0] + len(self.cur[1])
        self.cur = None
        self.flat.labels.add("doubled-code-split-over-adjacent-lines")
      self._word(s, 1, True, what)
    else:
      self.flat.labels.add("undoubled-control")

  # --- everything channel 1 must ignore
  def pad(self, n):
    self.flush()
    for _ in range(int(n)):
      self._word(0, None, False, "null")

  def other(self, item):
    self.flush()
    chan = "f2" if item.get("f2") else 2
    last = self.flat.words[-1]["s"] if self.flat.words else 0
    if chan == 2 and item.get("mirror") and 0x1000 <= last < 0x2000 and not last & 0x0800 and (last >> 8) != 0x15:
      # the burst opens with the channel-2 twin of the channel-1 code just sent, transmitted once: equal in everything but the channel
      self._word(last | 0x0800, 2, False, "ch2")
      self.flat.labels.add("channel-2-twin-of-previous-code")
    elif chan == 2:
      w = enc_pac(item.get("row", 15), chan=2)
      self._word(w, 2, False, "ch2"); self._word(w, 2, True, "ch2")
      if item.get("ctl"):
        w = enc_ctl(item["ctl"], chan=2)
        self._word(w, 2, False, "ch2"); self._word(w, 2, True, "ch2")
    else:
      w = enc_ctl(item.get("ctl") or "RCL", chan=1, field=2)
      self._word(w, "f2", False, "f2"); self._word(w, "f2", True, "f2")
    s = item.get("s", "")
    bs = [STD_BYTE[c] for c in s]
    if len(bs) % 2:
      bs.append(0)
    for i in range(0, len(bs), 2):
      self._word(bs[i] << 8 | bs[i + 1], chan, False, "ch2" if chan == 2 else "f2")
    self.need_ctl = True
    self.flat.labels.add("channel-2-burst" if chan == 2 else "field-2-code")


def _items(em, items, width, mode, flat, pen="white"):
  """emits the items of one row; returns the pen colour at the end of the row. width = cells available from the cursor"""
  used = 0
  peak = 0
  for idx, it in enumerate(items):
    t = it["t"]
    single = bool(it.get("single"))
    if t == "txt":
      em.text(it["s"])
      used += len(it["s"])
      if "  " in it["s"]:
        flat.labels.add("double-space")
    elif t == "mid":
      em.code(enc_mid(it["color"], it["ul"]), "mid", single)
      prev = [x for x in items[:idx] if x["t"] not in ("pad", "ch2")]
      pair = False
      if prev and prev[-1]["t"] == "mid":
        pair = prev[-1]["color"] is not None and it["color"] is None and prev[-1]["ul"] == it["ul"] and \
            not (len(prev) > 1 and prev[-2]["t"] == "mid")
        flat.labels.add("mid-row-colour+italics-pair" if pair else "mid-row-run")
      if it["color"] is None and pen != "white" and not pair:
        flat.labels.add("italics-mid-row-code-after-colour")
      pen = it["color"] or pen
      used += 1
      flat.attr_changes += 1
      flat.labels.add("mid-row-code")
    elif t == "spc":
      em.code(enc_special(it["c"]), "spc", single)
      used += 1
      flat.labels.add("special-char")
    elif t == "ext":
      em.text(it["fb"])
      em.code(enc_extended(it["c"]), "ext", single)
      used += 1
      flat.labels.add("extended-char")
    elif t == "bs":
      em.text(it["s"])
      if len(it["s"]) != 1:
        raise GrammarError("bs item carries exactly one wrong character")
      peak = max(peak, used + 1)
      em.code(enc_ctl("BS"), "bs", single)
      flat.labels.add("backspace")
    elif t == "pad":
      em.pad(it["n"])
      flat.labels.add("null-padding")
      if mode != "pop" and 0 < idx < len(items) - 1:
        flat.labels.add("pad-inside-displayed-row")
    elif t == "ch2":
      em.other(it)
    else:
      raise GrammarError("unknown item %r" % (it,))
    peak = max(peak, used)
  real = [i for i in items if i["t"] not in ("pad", "ch2", "bs")]      # (a backspace pair leaves the row as it was)
  if real and real[-1]["t"] == "mid":
    flat.labels.add("row-ends-with-mid-row-code")
  if peak > width:
    raise GrammarError("row overflows: %d cells for %d columns" % (peak, width))
  # column 32 is sticky (the cursor does not advance past it): only plain text may end there
  if peak == width and items:
    last = [i for i in items if i["t"] not in ("pad", "ch2")]
    if used != width or not last or last[-1]["t"] != "txt":
      raise GrammarError("only standard characters may fill column 32")
    flat.labels.add("row-reaches-column-32")
  return pen


def _pre(em, row):
  for it in row.get("pre") or []:
    if it["t"] == "pad":
      em.pad(it["n"]); em.flat.labels.add("null-padding")
    elif it["t"] == "ch2":
      em.other(it)
    else:
      raise GrammarError("only noise may precede a row")


def _pac(em, row, flat):
  single = "PAC" in (row.get("single") or [])
  em.code(enc_pac(row["row"], row["indent"], row["color"], row["italic"], row["ul"], row.get("form", "indent")), "pac", single)
  if row["color"] != "white" or row["italic"] or row["ul"]:
    flat.attr_changes += 1
    flat.labels.add("pac-attributes")
  col = row["indent"]
  if row.get("to"):
    em.code(enc_ctl("TO%d" % row["to"]), "to", "TO" in (row.get("single") or []))
    col += row["to"]
    flat.labels.add("tab-offset")
  return col


def _noise(em, cap, where):
  for it in (cap.get("noise") or {}).get(where, []):
    if it["t"] == "pad":
      em.pad(it["n"]); em.flat.labels.add("null-padding")
    elif it["t"] == "ch2":
      em.other(it)
    else:
      raise GrammarError("noise is null padding or other-channel data")


def flatten(script):
  em = _Emitter(script)
  flat = em.flat
  if not 0 <= script["start"] <= MAX_START:
    raise GrammarError("start out of range")
  first = True
  prev_style = None
  left_overlap = []
  left = leftovers(script["caps"], left_overlap)
  paint_tops = []
  block = set()
  still_painted = set()
  for ci, cap in enumerate(script["caps"]):
    style = cap["style"]
    single = cap.get("single") or []
    if not first:
      em.brk(cap_gap)
    first = False
    if prev_style is not None and prev_style != style:
      flat.labels.add("mode-switch")
      if script["caps"][ci - 1].get("edm") is None:
        raise GrammarError("a caption of another style starts while the previous one is still displayed (outside the three grammars)")
    prev_style = style
    flat.ncaps += 1
    rows = cap["rows"]
    if not rows:
      raise GrammarError("caption without rows")
    if style in ("pop", "paint"):
      if len({r["row"] for r in rows}) != len(rows):
        if not (cap.get("revisit") and style == "pop"):
          raise GrammarError("a caption addresses each row once")
        # a pop-on caption that addresses a row again: at column 0 (asserted like any other caption) or elsewhere (labelled class)
        seen_rows = set()
        for r in rows:
          if r["row"] in seen_rows:
            flat.labels.add("pop:row-addressed-again:" + ("at-column-0" if r["indent"] + r.get("to", 0) == 0 else "elsewhere"))
          seen_rows.add(r["row"])
      if len({r["row"] for r in rows}) > 4:
        raise GrammarError("more than 4 rows")
      flat.max_rows = max(flat.max_rows, len({r["row"] for r in rows}))
    flat.labels.add("style:" + style)
    if style == "pop":
      _noise(em, cap, "head")
      if cap.get("enm"):
        em.code(enc_ctl("ENM"), "ENM", "ENM" in single)
        flat.labels.add("pop:ENM")
      em.code(enc_ctl("RCL"), "RCL", "RCL" in single)
      if left[ci]:
        flat.labels.add("pop:load-over-leftover")
        if not left_overlap[ci]:
          # the older caption sits on other rows: the load adds rows to it, which is asserted
          flat.labels.add("pop:load-over-leftover:other-rows")
        elif flat.unassert_from is None:
          flat.unassert_from = len(flat.words)
      for r in rows:
        if r.get("brk") is not None:
          em.brk(r["brk"]); flat.labels.add("caption-spans-lines")
        _pre(em, r)
        col = _pac(em, r, flat)
        _items(em, r["items"], 32 - col, "pop", flat, r["color"])
      if cap.get("eoc_brk") is not None:
        em.brk(cap["eoc_brk"]); flat.labels.add("caption-spans-lines")
      _noise(em, cap, "tail")
      if cap.get("edm_pre"):
        em.code(enc_ctl("EDM"), "EDM", "EDM" in single)
        flat.labels.add("pop:EDM-before-EOC")
      em.code(enc_ctl("EOC"), "EOC", "EOC" in single)
    elif style == "paint":
      # every PAC starts a new state of the painted block, whose top row is the smallest row painted since the last EDM
      if not (ci and script["caps"][ci - 1]["style"] == "paint" and script["caps"][ci - 1].get("edm") is None):
        block = set()
      for r in rows:
        block.add(r["row"])
        if paint_tops and min(block) > min(paint_tops):
          flat.labels.add("paint:caption-below-earlier-paint-on-caption")
        paint_tops.append(min(block))
      if ci and script["caps"][ci - 1]["style"] == "paint" and script["caps"][ci - 1].get("edm") is None:
        flat.labels.add("paint:accumulates-without-EDM")
        if set(_rows_of(cap)) & still_painted:
          raise GrammarError("paint-on caption overwrites rows that are still displayed")
      still_painted = (still_painted if ci and script["caps"][ci - 1].get("edm") is None else set()) | set(_rows_of(cap))
      if [r["row"] for r in rows] != sorted(r["row"] for r in rows):
        flat.labels.add("paint:rows-not-top-down")
      _noise(em, cap, "head")
      em.code(enc_ctl("RDC"), "RDC", "RDC" in single)
      for r in rows:
        if r.get("brk") is not None:
          em.brk(r["brk"]); flat.labels.add("caption-spans-lines")
        _pre(em, r)
        col = _pac(em, r, flat)
        _items(em, r["items"], 32 - col, "paint", flat, r["color"])
      em.flush()
    elif style == "roll":
      depth = cap["depth"]
      if depth not in (2, 3, 4):
        raise GrammarError("roll-up depth")
      flat.labels.add("roll:RU%d" % depth)
      flat.max_rows = max(flat.max_rows, min(depth, len(rows)))
      base = cap.get("base", 15)
      pen = "white"
      if base != 15:
        flat.labels.add("roll:base-row-not-15")
      for i, r in enumerate(rows):
        if i and r.get("brk") is not None:
          em.brk(r["brk"])
        _pre(em, r)
        if i == 0 or r.get("ru"):
          em.code(enc_ctl("RU%d" % depth), "RU", "RU" in single)
        em.code(enc_ctl("CR"), "CR", "CR" in single)
        col = 0
        if r.get("pac") is not None or i == 0:
          p = dict(r.get("pac") or {"indent": 0, "color": "white", "italic": False, "ul": False})
          p["row"] = base
          p.setdefault("form", "indent")
          col = _pac(em, p, flat)
          pen = p["color"]
        else:
          flat.labels.add("roll:CR-without-PAC")
        if not r["items"]:
          flat.labels.add("roll:blank-row")
        pen = _items(em, r["items"], 32 - col, "roll", flat, pen)
      em.flush()
    else:
      raise GrammarError("style %r" % style)
    if cap.get("edm") is not None:
      em.brk(cap["edm"])
      _noise(em, cap, "edm")
      em.code(enc_ctl("EDM"), "EDM", "EDM2" in single)
      flat.labels.add(style + ":EDM-after")
    cap_gap = cap.get("gap", 0)
  em.flush()
  if em.cur is not None and em.cur[0] + len(em.cur[1]) + 4 >= (24 * 3600 * 30 if not flat.df else rtc.frames_per_day(DF)):
    raise GrammarError("runs past 24 h")
  return flat


def timecode(df, count):
  """label of frame `count` (30 NDF with ':' or 30000/1001 DF with ';')"""
  h, m, s, f = rtc.label(DF if df else NDF, count)
  return "%02d:%02d:%02d%s%02d" % (h, m, s, ";" if df else ":", f)


def render_flat(flat, header="Scenarist_SCC V1.0", upper=False):
  fmt = "%04X" if upper else "%04x"
  out = [header, ""]
  for tc, ws in flat.lines:
    out.append(timecode(flat.df, tc) + "\t" + " ".join(fmt % w for w in ws))
    out.append("")
  return "\n".join(out)


def render(script):
  """Scenarist SCC text of a script"""
  return render_flat(flatten(script))


# ------------------------------------------------------------------------------------------------ strategies

WORDS = ["HELLO", "WORLD", "A", "I", "IS", "THE", "cat", "dog", "x1", "ok?", "(hm)", "Mr.", "U.S.", "it's", "WORLDWIDE", "no", "Go!", "42", "-",
         ">>", "[MUSIC]", "Oh,", "niño", "café"]


@st.composite
def _phrase(draw, maxlen, rich):
  """text of 1..maxlen standard characters, no leading/trailing blank (interior blanks are kept exactly)"""
  if maxlen <= 0:
    return ""
  n = draw(st.integers(1, 5))
  parts = []
  for _ in range(n):
    if rich and draw(st.integers(0, 5)) == 0:
      parts.append(draw(st.text(PLAIN + PUNCT + ACCENT, min_size=1, max_size=6)))
    else:
      parts.append(draw(st.sampled_from(WORDS)))
  sep = "  " if rich and draw(st.integers(0, 15)) == 0 else " "
  s = sep.join(parts)[:maxlen].strip()
  return s or "Z"


@st.composite
def _row_items(draw, width, prof, mode, pen_color="white"):
  """items whose cells fit in `width` columns.  Column 32 is sticky, so only standard characters may reach it: every other
  item (and the wrong character of a backspace pair) stays left of it - by construction"""
  full = draw(st.integers(0, 9)) == 0
  budget = width if full else max(1, min(width - 1, draw(st.integers(1, 31))))
  limit = min(budget, width - 1)          # for everything that is not plain text
  kinds = ["txt"] + [k for k, on in (("mid", prof["mid"]), ("spc", prof["special"]), ("ext", prof["extended"]), ("bs", prof["bs"])) if on]
  nseg = draw(st.integers(1, 5)) if len(kinds) > 1 else 1
  items = []
  used = 0

  def single(it):
    if prof["undoubled"] and draw(st.integers(0, 3)) == 0:
      it["single"] = True
    return it

  for seg in range(nseg):
    left = budget - used
    if left <= 0:
      break
    kind = "txt" if seg == 0 and draw(st.integers(0, 5)) else draw(st.sampled_from(kinds))
    if kind == "txt":
      s = draw(_phrase(left, prof["rich"]))
      if items and items[-1]["t"] != "mid" and len(s) + 1 <= left and draw(st.booleans()):
        s = " " + s
      items.append({"t": "txt", "s": s}); used += len(s)
    elif kind == "mid":
      if used + 2 > limit:
        continue
      if items and items[-1]["t"] == "mid" and not prof["mid_runs"]:
        continue            # back-to-back mid-row codes: only the colour+italics pair is something an encoder sends
      colors = COLORS + [None]
      if pen_color != "white":
        # C08 finding C-2 (italics mid-row code after a colour): kept out of the main classes, frequent in the dedicated one
        colors = COLORS + [None] * 6 if prof["italics_on_colour"] else COLORS
      it = single({"t": "mid", "color": draw(st.sampled_from(colors)), "ul": draw(st.integers(0, 3)) == 0})
      if prof["ch2"] and draw(st.integers(0, 7)) == 0:
        items.append(draw(_burst(prof)))
      items.append(it); used += 1
      if it["color"] is not None:
        pen_color = it["color"]
      if prof["mid_pairs"] and used + 2 <= limit and draw(st.integers(0, 5)) == 0:
        # colour then italics, back to back: the only way to get coloured italics
        items.append(single({"t": "mid", "color": None, "ul": it["ul"]})); used += 1
      # a mid-row code stands between words: text follows (a row *ending* with one is the labelled class "trailing_mid", below)
      t = draw(_phrase(budget - used, prof["rich"]))
      items.append({"t": "txt", "s": t}); used += len(t)
    elif kind == "spc":
      if used + 1 > limit:
        continue
      if prof["ch2"] and draw(st.integers(0, 9)) == 0:
        items.append(draw(_burst(prof)))
      it = single({"t": "spc", "c": draw(st.sampled_from(SPECIALS))})
      items.append(it); used += 1
      if it.get("single") and used + 1 <= limit and draw(st.integers(0, 2)) == 0:
        # the same code once more, sent once, with only null words or channel-2 data between the two: not consecutive words, so a
        # decoder executes both (seeded changes C08-19, C08-20)
        can_pad = prof["pad"] and (mode == "pop" or prof["pad_inside"])
        gap = None
        if can_pad and (not prof["ch2"] or draw(st.booleans())):
          gap = {"t": "pad", "n": draw(st.integers(1, 3))}
        elif prof["ch2"]:
          gap = draw(_burst(dict(prof, f2=False)))
        if gap is not None:
          items.append(gap)
          items.append({"t": "spc", "c": it["c"], "single": True}); used += 1
    elif kind == "ext":
      if used + 1 > limit:
        continue
      c = draw(st.sampled_from(sorted(EXTENDED)))
      items.append(single({"t": "ext", "c": c, "fb": FALLBACK[c] if draw(st.integers(0, 4)) else draw(st.sampled_from(PLAIN))})); used += 1
    elif kind == "bs":
      if used + 1 > limit:
        continue
      items.append(single({"t": "bs", "s": draw(st.sampled_from(PLAIN))}))
  if prof["trailing_mid"] and not full and used + 1 <= limit and draw(st.booleans()):
    items.append(single({"t": "mid", "color": draw(st.sampled_from(COLORS + [None])), "ul": draw(st.booleans())})); used += 1
  if full and used < width:
    s = draw(_phrase(width - used, prof["rich"]))
    s = (s + "xxxxxxxxxxxxxxxxxxxxxxxxxxxxxxxx")[:width - used]
    items.append({"t": "txt", "s": s}); used = width
  if not any(i["t"] in ("txt", "spc", "ext") for i in items):
    items.append({"t": "txt", "s": "Z"})
  if prof["pad"] and (mode == "pop" or prof["pad_inside"]) and draw(st.integers(0, 5)) == 0:
    items.insert(draw(st.integers(0, len(items))), {"t": "pad", "n": draw(st.integers(1, 6))})
  if mode == "paint" and not prof["paint_c4"]:
    _avoid_c4(items)
  # an undoubled control code followed at once (or after a field-2 burst at most) by the same code sent once would be read as its
  # redundant copy: the second one is doubled.  Null words or channel-2 words between the two make them two codes.
  last = None
  for it in items:
    if it["t"] == "pad" or (it["t"] == "ch2" and not it.get("f2")):
      last = None
      continue
    if it["t"] == "ch2":
      continue
    sig = ("mid", it["color"], it["ul"]) if it["t"] == "mid" else ("spc", it["c"]) if it["t"] == "spc" else None
    if sig is not None and sig == last and it.get("single"):
      del it["single"]
    last = sig if sig is not None and it.get("single") else None
  return items


def _avoid_c4(items):
  """C08 finding C-4 (paint-on: a character pair ending in a blank that opens a run gets no attributes) would be hit by a quarter of
  the paint-on streams.  Unless the profile asks for it, no one-character word followed by a blank starts on a pair boundary: the
  blank after it becomes a hyphen.  Pairs are formed from the characters sent between two control codes / paddings."""
  run = []      # (item, key) sources of the characters sent back to back

  def fix():
    chars = [c for it, key in run for c in it[key]]
    for i in range(0, len(chars) - 1, 2):
      if chars[i] != " " and chars[i + 1] == " " and (i == 0 or chars[i - 1] == " "):
        chars[i + 1] = "-"
    pos = 0
    for it, key in run:
      n = len(it[key])
      it[key] = "".join(chars[pos:pos + n])
      pos += n
    del run[:]

  for it in items:
    if it["t"] == "txt":
      run.append((it, "s"))
      continue
    if it["t"] == "ext":
      run.append((it, "fb"))
    elif it["t"] == "bs":
      run.append((it, "s"))
    fix()
  fix()


@st.composite
def _burst(draw, prof):
  f2 = prof["f2"] and draw(st.integers(0, 2)) == 0
  b = {"t": "ch2", "row": draw(st.integers(1, 15)), "s": draw(st.sampled_from(["", "zz", "OTHER", "ch2 text"])), "f2": f2,
       "ctl": draw(st.sampled_from([None, "RCL", "EOC", "EDM", "RU2", "CR", "RDC", "ENM"]))}
  if prof["undoubled"] and not f2 and draw(st.integers(0, 2)) == 0:
    b["mirror"] = True
    b["ctl"] = None
    b["s"] = draw(st.sampled_from(["zz", "OTHER", "ch2 text"]))
  return b


@st.composite
def _noise_list(draw, prof, p=6):
  out = []
  if prof["pad"] and draw(st.integers(0, p)) == 0:
    out.append({"t": "pad", "n": draw(st.integers(1, 8))})
  if prof["ch2"] and draw(st.integers(0, p)) == 0:
    out.append(draw(_burst(prof)))
    if prof["pad"] and draw(st.integers(0, 3)) == 0:
      out.append({"t": "pad", "n": draw(st.integers(1, 3))})
  return out


@st.composite
def _pac_fields(draw, prof):
  if prof["pac_attr"] and draw(st.integers(0, 2)) == 0:
    italic = draw(st.integers(0, 3)) == 0
    return {"indent": 0, "color": "white" if italic else draw(st.sampled_from(COLORS)), "italic": italic,
            "ul": draw(st.integers(0, 3)) == 0, "form": "style"}
  return {"indent": draw(st.sampled_from([0, 0, 4, 8, 12, 16, 20, 24, 28])) if prof["indent"] else 0, "color": "white", "italic": False,
          "ul": prof["pac_attr"] and draw(st.integers(0, 5)) == 0, "form": "indent"}


@st.composite
def _grid_rows(draw, prof, mode, free_rows=None, max_top=None):
  """1-4 rows at distinct row numbers, in the order an encoder sends them (top to bottom, sometimes not).
  max_top: the top row is at most this row (paint-on main class, see scripts())"""
  nrows = draw(st.integers(1, prof["max_rows"]))
  pool = list(free_rows) if free_rows is not None else list(range(1, 16))
  nrows = min(nrows, len(pool))
  if max_top is not None:
    top = draw(st.one_of(st.just(min(max_top, 15 - nrows + 1)), st.integers(1, min(max_top, 15 - nrows + 1))))
    rows = list(range(top, top + nrows))
  elif prof["contiguous"] or draw(st.integers(0, 3)):
    # contiguous block
    starts = [r for r in pool if all(r + i in pool for i in range(nrows))]
    if starts:
      top = draw(st.sampled_from(starts))
      rows = list(range(top, top + nrows))
    else:
      rows = sorted(draw(st.permutations(pool)))[:nrows]
  else:
    rows = sorted(draw(st.lists(st.sampled_from(pool), min_size=nrows, max_size=nrows, unique=True)))
  if prof["row_order"] and nrows > 1 and draw(st.integers(0, 5)) == 0:
    rows = list(draw(st.permutations(rows)))
  out = []
  for i, r in enumerate(rows):
    p = draw(_pac_fields(prof))
    to = draw(st.sampled_from([0, 0, 0, 1, 2, 3])) if prof["to"] else 0
    col = p["indent"] + to
    row = dict(p, row=r, to=to, items=draw(_row_items(32 - col, prof, mode, p["color"])))
    if prof["brk_rows"] and i and draw(st.integers(0, 5)) == 0:
      row["brk"] = draw(st.integers(0, 20))
    pre = draw(_noise_list(prof, 8))
    if pre:
      row["pre"] = pre
    sg = []
    if prof["undoubled"] and draw(st.integers(0, 4)) == 0:
      sg.append("PAC")
    if prof["undoubled"] and to and draw(st.integers(0, 4)) == 0:
      sg.append("TO")
    if sg:
      row["single"] = sg
    out.append(row)
  return out


def _singles(draw, prof, names):
  if not prof["undoubled"]:
    return []
  return [n for n in names if draw(st.integers(0, 5)) == 0]


@st.composite
def pop_caption(draw, prof, last=False):
  cap = {"style": "pop", "rows": draw(_grid_rows(prof, "pop")), "gap": draw(st.integers(0, 40))}
  if prof["revisit"] and draw(st.integers(0, 2)) == 0:
    # the caption addresses one of its rows again, at column 0 (the new text replaces the beginning of the row)
    r0 = draw(st.sampled_from(cap["rows"]))["row"]
    indent, to = 0, 0      # (elsewhere ttconv places the text differently from a cell grid: known finding, kept as a replay only)
    cap["rows"].append({"indent": indent, "color": "white", "italic": False, "ul": False, "form": "indent", "row": r0, "to": to,
                        "items": [{"t": "txt", "s": draw(_phrase(min(12, 32 - indent - to), False))}]})
    cap["revisit"] = True
  # main class: every load starts from an empty non-displayed memory (normalise() adds ENM where needed); leftover class: not
  cap["enm"] = draw(st.booleans())
  cap["edm_pre"] = prof["edm_pre"] and draw(st.integers(0, 5)) == 0
  cap["eoc_brk"] = draw(st.one_of(st.none(), st.integers(0, 30))) if prof["brk_rows"] else None
  if draw(st.integers(0, 2)) or last:
    cap["edm"] = draw(st.integers(0, 60))
  noise = {}
  for where in ("head", "tail", "edm"):
    n = draw(_noise_list(prof, 8))
    if n:
      noise[where] = n
  if noise:
    cap["noise"] = noise
  sg = _singles(draw, prof, ["RCL", "EOC", "EDM2"] + (["ENM"] if cap["enm"] else []) + (["EDM"] if cap["edm_pre"] else []))
  if sg:
    cap["single"] = sg
  return cap


@st.composite
def paint_caption(draw, prof, free_rows=None, max_top=None):
  cap = {"style": "paint", "rows": draw(_grid_rows(prof, "paint", free_rows, max_top)), "gap": draw(st.integers(0, 40))}
  # the caption is erased (EDM) before the next one, unless the profile lets paint-on captions accumulate on blank rows
  cap["edm"] = None if prof["paint_accumulate"] and draw(st.integers(0, 1)) else draw(st.integers(0, 60))
  noise = {}
  for where in ("head", "edm"):
    n = draw(_noise_list(prof, 8))
    if n:
      noise[where] = n
  if noise:
    cap["noise"] = noise
  sg = _singles(draw, prof, ["RDC", "EDM2"])
  if sg:
    cap["single"] = sg
  return cap


@st.composite
def roll_caption(draw, prof, base=15):
  depth = draw(st.sampled_from([2, 3, 4]))
  n = draw(st.integers(1, 6))
  rows = []
  pen = "white"
  for i in range(n):
    pac = None
    pac = draw(_pac_fields(prof))
    pac["to"] = draw(st.sampled_from([0, 0, 0, 1, 2, 3])) if prof["to"] else 0
    if i and prof["cr_no_pac"] and draw(st.integers(0, 4)) == 0:
      pac = None
    col = (pac["indent"] + pac["to"]) if pac else 0
    if pac:
      pen = pac["color"]
    row = {"pac": pac, "items": draw(_row_items(32 - col, prof, "roll", pen)), "ru": draw(st.booleans())}
    if i and prof["roll_blank"] and draw(st.integers(0, 4)) == 0:
      # a blank row (CR directly followed by the next CR): it is a row of the window like any other
      row["items"] = []
    pen = ([pen] + [i["color"] for i in row["items"] if i["t"] == "mid" and i["color"]])[-1]
    if i:
      row["brk"] = draw(st.integers(0, 40)) if draw(st.integers(0, 5)) else None
    pre = draw(_noise_list(prof, 8))
    if pre:
      row["pre"] = pre
    rows.append(row)
  cap = {"style": "roll", "depth": depth, "rows": rows, "gap": draw(st.integers(0, 40))}
  cap["edm"] = draw(st.integers(0, 60)) if draw(st.integers(0, 2)) == 0 else None
  if base != 15:
    cap["base"] = base        # one base row per file, low enough for any depth: the window never has to be re-fitted
  sg = _singles(draw, prof, ["RU", "CR", "EDM2"])
  if sg:
    cap["single"] = sg
  n = draw(_noise_list(prof, 8))
  if n:
    cap["noise"] = {"edm": n}
  return cap


def profile(**kw):
  p = dict(styles=("pop", "roll", "paint"), mix=False, max_caps=5, max_rows=4, indent=True, to=True, pac_attr=True, mid=True, special=True,
           extended=True, bs=True, rich=True, pad=True, pad_inside=False, ch2=True, f2=True, undoubled=False, brk_rows=True,
           row_order=False, contiguous=False, pop_leftover=False, edm_pre=True, cr_no_pac=True, roll_base=False,
           paint_accumulate=False, roll_blank=False, open_end=False, revisit=False, split=False, paint_c1=False, paint_c4=False, parity=True, df=True, italics_on_colour=False, mid_pairs=True, mid_runs=False, trailing_mid=False)
  for k in kw:
    if k not in p:
      raise KeyError(k)
  p.update(kw)
  return p


def _rows_of(cap):
  return [r["row"] for r in cap["rows"]]


@st.composite
def scripts(draw, prof):
  """a whole file: captions of one style (or mixed when prof["mix"]), time codes, parity mask"""
  ncaps = draw(st.integers(1, prof["max_caps"]))
  style = draw(st.sampled_from(prof["styles"]))
  caps = []
  paint_top = 15
  painted = set()
  roll_base = draw(st.integers(4, 14)) if prof["roll_base"] and draw(st.integers(0, 2)) == 0 else 15
  for i in range(ncaps):
    if prof["mix"] and i and draw(st.integers(0, 1)) == 0:
      style = draw(st.sampled_from(prof["styles"]))
    if style == "pop":
      cap = draw(pop_caption(prof, last=i == ncaps - 1))
    elif style == "paint":
      # C08 finding C-1 (a paint-on paragraph is attached to an earlier paint-on region above it) would shadow the search: unless
      # the profile asks for it, the top rows of the paint-on captions of a file never move down
      free = [r for r in range(1, 16) if r not in painted]
      if not free:
        caps[-1]["edm"] = 3
        free = list(range(1, 16))
      cap = draw(paint_caption(prof, free_rows=free if len(free) < 15 else None, max_top=None if prof["paint_c1"] or len(free) < 15 else paint_top))
      paint_top = min(paint_top, min(_rows_of(cap)))
      painted = (painted | set(_rows_of(cap))) if cap.get("edm") is None else set()
    else:
      cap = draw(roll_caption(prof, roll_base))
    if style != "paint":
      painted = set()
    caps.append(cap)
  if prof["open_end"] and prof["pop_leftover"] and len(caps) >= 3 and all(c["style"] == "pop" for c in caps[-3:]) and draw(st.integers(0, 1)):
    # three pop-on captions that replace one another directly (no EDM, no ENM): the third is built in the memory that showed
    # the first one, and the file ends while it is displayed
    for c in caps[-3:]:
      c["enm"], c["edm"], c["edm_pre"] = False, None, False
    caps[-1]["gap"] = 2 * (caps[-1].get("gap", 0) // 2)
  normalise(caps, prof, draw)
  df = prof["df"] and draw(st.booleans())
  start = draw(st.one_of(st.integers(0, 4000), st.integers(0, MAX_START),
                         st.sampled_from([1790, 17970, 107880, 215770]).flatmap(lambda c: st.integers(c - 40, c + 10))))
  pmask = draw(st.sampled_from([-1, -1, 0, None])) if prof["parity"] else -1
  if pmask is None:
    pmask = draw(st.integers(0, 2 ** 61 - 1))
  out = {"df": df, "start": max(0, start), "pmask": pmask, "caps": caps}
  if prof["split"] and draw(st.integers(0, 2)) == 0:
    out["split"] = sorted(set(draw(st.lists(st.integers(2, 30), min_size=1, max_size=3))))
  return out


def normalise(caps, prof, draw=None):
  """file-level grammar rules that involve neighbouring captions (by construction, so that the main class stays inside the protocol):
  * a pop-on load starts from an empty non-displayed memory: ENM, or the caption it replaces was erased (EDM) before the flip
    put it into non-displayed memory - unless the profile asks for the leftover class;
  * paint-on and roll-up captions end with EDM before a caption of another style starts, and a paint-on caption that follows a
    paint-on caption without EDM uses rows that are still blank;
  * the last caption of a file is erased (so that no paragraph is left open-ended by construction) - unless the profile's open_end
    switch lets the file end while it is displayed."""
  for i, cap in enumerate(caps):
    nxt = caps[i + 1] if i + 1 < len(caps) else None
    if nxt is None:
      if cap.get("edm") is None and not (prof["open_end"] and cap.get("gap", 0) % 2 == 0):
        cap["edm"] = 12
      continue
    if cap["style"] != nxt["style"] and cap.get("edm") is None:
      cap["edm"] = 9
  if not prof["pop_leftover"]:
    for cap, leftover in zip(caps, leftovers(caps)):
      if leftover:
        cap["enm"] = True
  return caps


def leftovers(caps, rows_out=None):
  """for each caption: True when it is a pop-on load that starts (no ENM) while non-displayed memory still holds an older caption.
  rows_out, when given, receives for each caption True when that older caption may occupy one of the rows the load addresses
  (memories are tracked as sets of row numbers; None = rows not tracked, e.g. what a roll-up or paint-on caption left displayed)"""
  out = []
  disp = nond = frozenset()
  mode = None
  for cap in caps:
    left = False
    overlap = False
    if cap["style"] == "pop":
      if cap.get("enm"):
        nond = frozenset()
      left = nond is None or len(nond) > 0
      mine = frozenset(r["row"] for r in cap["rows"])
      overlap = left and (nond is None or bool(nond & mine))
      nond = None if nond is None else nond | mine
      if cap.get("edm_pre"):
        disp = frozenset()
      disp, nond = nond, disp
    else:
      if cap["style"] == "roll" and mode in ("pop", "paint"):
        nond = frozenset()          # RU2-4 coming from pop-on / paint-on erases both memories
      disp = None
    mode = cap["style"]
    if cap.get("edm") is not None:
      disp = frozenset()
    out.append(left)
    if rows_out is not None:
      rows_out.append(overlap)
  return out


# ------------------------------------------------------------------------------------------------ shrinking (greedy, grammar preserving)

def simplifications(script):
  """simpler scripts, most aggressive first; every candidate is again a sentence of the grammar"""
  import copy
  caps = script["caps"]
  def mk(**kw):
    s = copy.deepcopy(script); s.update(kw); return s
  # drop a caption
  for i in range(len(caps)):
    if len(caps) > 1:
      c = copy.deepcopy(caps); del c[i]
      if c[-1].get("edm") is None:
        c[-1]["edm"] = 12
      yield mk(caps=c)
  if script["df"]:
    yield mk(df=False)
  if script["start"]:
    yield mk(start=0)
    yield mk(start=script["start"] // 2)
  if script["pmask"] != -1:
    yield mk(pmask=-1)
  for i, cap in enumerate(caps):
    def capmk(newcap):
      c = copy.deepcopy(caps); c[i] = newcap; return mk(caps=c)
    for key in ("noise", "single", "base"):
      if cap.get(key):
        n = copy.deepcopy(cap); del n[key]; yield capmk(n)
    for key, simple in (("enm", False), ("edm_pre", False), ("eoc_brk", None), ("gap", 0), ("edm", 0)):
      if cap.get(key) not in (None, simple) and not (key == "edm" and simple is None):
        n = copy.deepcopy(cap); n[key] = simple; yield capmk(n)
    if cap["style"] == "roll" and cap["depth"] != 2:
      n = copy.deepcopy(cap); n["depth"] = 2; yield capmk(n)
    rows = cap["rows"]
    for j in range(len(rows)):
      if len(rows) > 1:
        n = copy.deepcopy(cap); del n["rows"][j]
        if n["style"] == "roll" and j == 0:
          n["rows"][0]["brk"] = None
          if n["rows"][0].get("pac") is None:
            continue
        yield capmk(n)
    for j, r in enumerate(rows):
      def rowmk(newrow):
        n = copy.deepcopy(cap); n["rows"][j] = newrow; return capmk(n)
      tgt = r.get("pac") if cap["style"] == "roll" else r
      for key in ("pre", "single"):
        if r.get(key):
          n = copy.deepcopy(r); del n[key]; yield rowmk(n)
      if r.get("brk") is not None and (cap["style"] != "roll" or j):
        n = copy.deepcopy(r); n["brk"] = None; yield rowmk(n)
      if r.get("ru") and j:
        n = copy.deepcopy(r); n["ru"] = False; yield rowmk(n)
      if tgt is not None:
        for key, simple in (("to", 0), ("ul", False), ("italic", False), ("color", "white"), ("indent", 0)):
          if tgt.get(key) != simple:
            n = copy.deepcopy(r)
            (n["pac"] if cap["style"] == "roll" else n)[key] = simple
            yield rowmk(n)
      items = r["items"]
      for k in range(len(items)):
        if len(items) > 1:
          n = copy.deepcopy(r); del n["items"][k]
          if n["items"] and not (n["items"][0]["t"] == "txt" and False):
            yield rowmk(n)
      for k, it in enumerate(items):
        if it["t"] == "txt" and len(it["s"]) > 1:
          for s in (it["s"][:len(it["s"]) // 2], it["s"][len(it["s"]) // 2:], it["s"][:-1], it["s"][1:]):
            s = s.strip()
            if s and s != it["s"]:
              n = copy.deepcopy(r); n["items"][k] = {"t": "txt", "s": s}; yield rowmk(n)
        if it["t"] == "txt" and it["s"] not in ("A", "AB") and len(it["s"]) <= 2:
          n = copy.deepcopy(r); n["items"][k] = {"t": "txt", "s": "AB"[:len(it["s"])]}; yield rowmk(n)
        if it.get("single"):
          n = copy.deepcopy(r); del n["items"][k]["single"]; yield rowmk(n)
        if it["t"] == "pad" and it["n"] > 1:
          n = copy.deepcopy(r); n["items"][k]["n"] = 1; yield rowmk(n)
        if it["t"] == "mid" and (it["color"] != "white" or it["ul"]):
          n = copy.deepcopy(r); n["items"][k] = dict(it, color="white", ul=False); yield rowmk(n)
      if cap["style"] != "roll" and r["row"] != 15 and 15 not in _rows_of(cap):
        pass


CLASS_LABELS = ("undoubled-control", "mid-row-run", "row-ends-with-mid-row-code", "italics-mid-row-code-after-colour",
                "pop:load-over-leftover", "paint:caption-below-earlier-paint-on-caption", "paint:rows-not-top-down",
                "paint:accumulates-without-EDM", "pad-inside-displayed-row", "roll:base-row-not-15", "roll:CR-without-PAC", "mode-switch",
                "double-space", "row-reaches-column-32")


def shrinker(key="script"):
  """greedy simplifications that stay inside the grammar *and* inside the labelled classes of the original case (a shrunk case must
  not wander into another class, e.g. acquire a row that ends with a mid-row code)"""
  def f(case):
    try:
      have = flatten(case[key]).labels
    except GrammarError:
      return
    for s in simplifications(case[key]):
      try:
        labels = flatten(s).labels
      except GrammarError:
        continue
      if all(l in have for l in labels if l in CLASS_LABELS):
        c = dict(case); c[key] = s
        yield c
  return f
