"""C15 machinery: a fixed, named universe of ttconv.model objects, an interpreter for call histories given as data,
an invariant walker (public getters only, cycle-safe), an observer (fingerprint) and an abstract dict-of-lists model.

Nothing here asks ttconv whether a state is good: the expectations come from the content model of doc/data_model.md,
from the C15 statement and from the abstract model that is advanced together with the calls.
"""
from fractions import Fraction
import numbers

import ttconv.model as model
import ttconv.style_properties as sp

SP = sp.StyleProperties

# ------------------------------------------------------------------------------------------------ names

KINDS = ("Body", "Div", "P", "Span", "Br", "Ruby", "Rb", "Rt", "Rp", "Rbc", "Rtc", "Text")
DOCS = ("d1", "d2")
REGION_IDS = {"rA": "A", "rA2": "A", "rB": "B"}    # rA2 is the same-id replacement of rA


def _names():
  out = []
  for d in DOCS:
    for k in KINDS:
      for i in (1, 2):
        out.append("%s.%s%d" % (d, k.lower(), i))
    # a third element of the two kinds that may contain themselves: chains of three (an ancestor that is not the parent)
    for k in ("Div", "Span"):
      out.append("%s.%s3" % (d, k.lower()))
    for r in REGION_IDS:
      out.append("%s.%s" % (d, r))
  for k in KINDS:
    out.append("x.%s1" % k.lower())
  out.append("x.rA")
  return tuple(out)


NAMES = _names()
_KIND_BY_STEM = {k.lower(): k for k in KINDS}


def kind(name):
  """kind of a universe element, from its name"""
  stem = name.split(".")[1]
  if stem in REGION_IDS:
    return "Region"
  return _KIND_BY_STEM[stem.rstrip("0123456789")]


def home(name):
  """document the element is created in ('d1', 'd2' or None)"""
  d = name.split(".")[0]
  return None if d == "x" else d


def region_id(name):
  return REGION_IDS[name.split(".")[1]]


KIND = {n: kind(n) for n in NAMES}

# content model of doc/data_model.md
ALLOWED = {
  "Body": ("Div",), "Div": ("P", "Div"), "P": ("Span", "Ruby", "Br"), "Span": ("Span", "Br", "Text"),
  "Rbc": ("Rb",), "Rb": ("Span",), "Rt": ("Span",), "Rp": ("Span",),
  "Br": (), "Text": (), "Region": (),
  "Ruby": ("Rb", "Rt", "Rp", "Rbc", "Rtc"), "Rtc": ("Rt", "Rp"),
}
# Ruby : Rb? Rt? | Rb? Rp Rt? Rp | Rbc Rtc Rtc?
RUBY_LEGAL = {(), ("Rb",), ("Rt",), ("Rb", "Rt"), ("Rp", "Rp"), ("Rb", "Rp", "Rp"), ("Rp", "Rt", "Rp"), ("Rb", "Rp", "Rt", "Rp"),
              ("Rbc", "Rtc"), ("Rbc", "Rtc", "Rtc")}
# the four patterns Ruby.push_children is documented (by its tests) to take
RUBY_PUSHABLE = (("Rb", "Rt"), ("Rb", "Rp", "Rt", "Rp"), ("Rbc", "Rtc"), ("Rbc", "Rtc", "Rtc"))


def rtc_state(kinds):
  """Rtc : Rt* | Rp Rt* Rp   ->  'legal' | 'prefix' (strict prefix of Rp Rt* Rp, still completable by appending) | 'illegal'"""
  kinds = tuple(kinds)
  if all(k == "Rt" for k in kinds):
    return "legal"
  if kinds[0] != "Rp":
    return "illegal"
  if all(k == "Rt" for k in kinds[1:]):
    return "prefix"
  if kinds[-1] == "Rp" and all(k == "Rt" for k in kinds[1:-1]):
    return "legal"
  return "illegal"


def children_verdict(parent_kind, kinds):
  """'legal' | 'prefix' | 'illegal' for the sequence of child kinds under a parent kind"""
  kinds = tuple(kinds)
  if parent_kind == "Ruby":
    return "legal" if kinds in RUBY_LEGAL else "illegal"
  if parent_kind == "Rtc":
    return rtc_state(kinds)
  ok = ALLOWED.get(parent_kind, ())
  return "legal" if all(k in ok for k in kinds) else "illegal"


# ------------------------------------------------------------------------------------------------ style values

_L = sp.LengthType
_U = _L.Units
RED = sp.ColorType((255, 0, 0, 255))

VALUES = {
  "color.red": RED,
  "color.transparent": sp.ColorType((0, 0, 0, 0)),
  "direction.rtl": sp.DirectionType.rtl,
  "len.10pct": _L(10, _U.pct),
  "len.2c": _L(2, _U.c),
  "len.1em": _L(1, _U.em),
  "len.5px": _L(5, _U.px),
  "display.none": sp.DisplayType.none,
  "displayalign.after": sp.DisplayAlignType.after,
  "extent.pct": sp.ExtentType(height=_L(50, _U.pct), width=_L(80, _U.pct)),
  "bool.true": True,
  "ff.generic": (sp.GenericFontFamilyType.monospace,),
  "ff.mixed": ("Arial", sp.GenericFontFamilyType.sansSerif),
  "ff.bad-int-item": ("Arial", 5),
  "ff.bad-none-item": (None,),
  "ff.bad-nested-item": (("Arial",),),
  "ff.str-not-tuple": "Arial",
  "fontstyle.italic": sp.FontStyleType.italic,
  "fontweight.bold": sp.FontWeightType.bold,
  "special.normal": sp.SpecialValues.normal,
  "special.none": sp.SpecialValues.none,
  "num.half": 0.5,
  "num.int2": 2,
  "num.int1": 1,          # equal to True, but not a boolean
  "num.zero": 0,          # equal to False, but not a boolean
  "num.one-float": 1.0,
  "multirowalign.center": sp.MultiRowAlignType.center,
  "overflow.visible": sp.OverflowType.visible,
  "origin.pct": sp.CoordinateType(x=_L(10, _U.pct), y=_L(20, _U.pct)),
  "padding.c": sp.PaddingType(_L(1, _U.c), _L(1, _U.c), _L(1, _U.c), _L(1, _U.c)),
  "position.rb": sp.PositionType(_L(5, _U.pct), _L(5, _U.pct), sp.PositionType.HEdge.right, sp.PositionType.VEdge.bottom),
  "rubyalign.spacearound": sp.RubyAlignType.spaceAround,
  "rubyposition.before": sp.AnnotationPositionType.before,
  "rubyreserve.both": sp.RubyReserveType(position=sp.RubyReserveType.Position.both, length=_L(1, _U.em)),
  "showbackground.whenactive": sp.ShowBackgroundType.whenActive,
  "textalign.center": sp.TextAlignType.center,
  "textcombine.all": sp.TextCombineType.all,
  "textdecoration.underline": sp.TextDecorationType(underline=True),
  "textemphasis.dot": sp.TextEmphasisType(style=sp.TextEmphasisType.Style.filled_dot, position=sp.TextEmphasisType.Position.before),
  "textoutline.thin": sp.TextOutlineType(_L(5, _U.pct), RED),
  "textshadow.one": sp.TextShadowType((sp.TextShadowType.Shadow(_L(1, _U.px), _L(1, _U.px), None, None),)),
  "unicodebidi.embed": sp.UnicodeBidiType.embed,
  "visibility.hidden": sp.VisibilityType.hidden,
  "wrapoption.nowrap": sp.WrapOptionType.noWrap,
  "writingmode.tbrl": sp.WritingModeType.tbrl,
  "junk.str": "red",
}
VIDS = tuple(VALUES)

# property name -> (accepted classes, accepted special values); written from the TTML2 value types, not from validate()
_ENUM = {
  "Direction": sp.DirectionType, "Display": sp.DisplayType, "DisplayAlign": sp.DisplayAlignType, "FontStyle": sp.FontStyleType,
  "FontWeight": sp.FontWeightType, "MultiRowAlign": sp.MultiRowAlignType, "Overflow": sp.OverflowType, "RubyAlign": sp.RubyAlignType,
  "RubyPosition": sp.AnnotationPositionType, "ShowBackground": sp.ShowBackgroundType, "TextAlign": sp.TextAlignType,
  "TextCombine": sp.TextCombineType, "UnicodeBidi": sp.UnicodeBidiType, "Visibility": sp.VisibilityType,
  "WrapOption": sp.WrapOptionType, "WritingMode": sp.WritingModeType,
}
PROPS = tuple(sorted(p.__name__ for p in SP.ALL))
PROP = {p.__name__: p for p in SP.ALL}


def verdict(prop, value):
  """independent validity of `value` for style property `prop`: True / False / None (borderline: never generated, never judged)"""
  if value is None:
    return False
  if prop in _ENUM:
    return isinstance(value, _ENUM[prop])
  if prop in ("Color", "BackgroundColor"):
    return isinstance(value, sp.ColorType)
  if prop in ("Disparity", "FontSize"):
    return isinstance(value, _L)
  if prop == "LinePadding":
    if isinstance(value, _L):
      # ebutts:linePadding is expressed in c (IMSC 1.1); rh / rw are the model's computed forms; px, em and % are no line padding
      return True if value.units is _U.c else None if value.units in (_U.rh, _U.rw) else False
    return False
  if prop == "LineHeight":
    return value is sp.SpecialValues.normal or isinstance(value, _L)
  if prop in ("Extent", "Origin", "Position"):
    cls = {"Extent": sp.ExtentType, "Origin": sp.CoordinateType, "Position": sp.PositionType}[prop]
    if not isinstance(value, cls):
      return False
    lens = [getattr(value, f) for f in ("height", "width", "x", "y", "h_offset", "v_offset") if hasattr(value, f)]
    return True if all(isinstance(l, _L) and l.units is _U.pct for l in lens) else None
  if prop == "FillLineGap":
    return isinstance(value, bool)
  if prop == "FontFamily":
    if not isinstance(value, tuple):
      return False
    if any(not isinstance(i, (str, sp.GenericFontFamilyType)) for i in value):
      return False
    return True if value else None
  if prop in ("LuminanceGain", "Opacity", "Shear"):
    if isinstance(value, bool):
      return None
    return isinstance(value, numbers.Number)
  if prop == "Padding":
    return isinstance(value, sp.PaddingType)
  if prop == "RubyReserve":
    return value is sp.SpecialValues.none or isinstance(value, sp.RubyReserveType)
  if prop == "TextDecoration":
    return isinstance(value, sp.TextDecorationType)
  if prop == "TextEmphasis":
    return value is sp.SpecialValues.none or isinstance(value, sp.TextEmphasisType)
  if prop == "TextOutline":
    return value is sp.SpecialValues.none or isinstance(value, sp.TextOutlineType)
  if prop == "TextShadow":
    return value is sp.SpecialValues.none or isinstance(value, sp.TextShadowType)
  raise KeyError(prop)


VALID_VIDS = {p: tuple(v for v in VIDS if verdict(p, VALUES[v]) is True) for p in PROPS}
INVALID_VIDS = {p: tuple(v for v in VIDS if verdict(p, VALUES[v]) is False) for p in PROPS}


def bad_font_item(prop, vid):
  """the invalid values that differ from valid ones only in an item of the font-family tuple"""
  return prop == "FontFamily" and vid is not None and isinstance(VALUES.get(vid), tuple) and verdict(prop, VALUES[vid]) is False


def vid_of(value):
  for k, v in VALUES.items():
    if v is value:
      return k
  for k, v in VALUES.items():
    if type(v) is type(value) and v == value:
      return k
  return "?%r" % (value,)


# ------------------------------------------------------------------------------------------------ universe

class Universe:
  """two documents, 27 objects each, 13 detached objects; every history starts from a freshly built one"""

  def __init__(self):
    self.docs = {d: model.ContentDocument() for d in DOCS}
    self.obj = {}
    for n in NAMES:
      d = self.docs.get(home(n))
      k = KIND[n]
      if k == "Region":
        o = model.Region(region_id(n), d)
      elif k == "Text":
        o = model.Text(d, "t")
      else:
        o = getattr(model, k)(d)
      self.obj[n] = o
    self._name = {id(o): n for n, o in self.obj.items()}
    for d, doc in self.docs.items():
      self._name[id(doc)] = d
      doc.put_region(self.obj[d + ".rA"])
      doc.put_region(self.obj[d + ".rB"])

  def get(self, name):
    if name is None:
      return None
    if name in self.docs:
      return self.docs[name]
    return self.obj[name]

  def nm(self, o):
    if o is None:
      return None
    return self._name.get(id(o), "?" + type(o).__name__)


# ------------------------------------------------------------------------------------------------ abstract model

class Model:
  """abstract state: plain dicts and lists keyed by universe names"""
  FIELDS = ("parent", "children", "doc", "region", "styles", "anims", "misc", "body", "reg", "init")

  def __init__(self):
    self.parent = {n: None for n in NAMES}
    self.children = {n: [] for n in NAMES}
    self.doc = {n: home(n) for n in NAMES}
    self.region = {n: None for n in NAMES}
    self.styles = {n: {} for n in NAMES}
    self.anims = {n: [] for n in NAMES}
    self.misc = {n: (region_id(n) if KIND[n] == "Region" else None, None, None, "", "DEFAULT", "t" if KIND[n] == "Text" else None)
                 for n in NAMES}
    self.body = {d: None for d in DOCS}
    self.reg = {d: {"A": d + ".rA", "B": d + ".rB"} for d in DOCS}
    self.init = {d: {} for d in DOCS}

  def copy(self):
    m = Model.__new__(Model)
    m.parent = dict(self.parent)
    m.children = {k: list(v) for k, v in self.children.items()}
    m.doc = dict(self.doc)
    m.region = dict(self.region)
    m.styles = {k: dict(v) for k, v in self.styles.items()}
    m.anims = {k: list(v) for k, v in self.anims.items()}
    m.misc = dict(self.misc)
    m.body = dict(self.body)
    m.reg = {k: dict(v) for k, v in self.reg.items()}
    m.init = {k: dict(v) for k, v in self.init.items()}
    return m

  def diff(self, other, limit=6):
    out = []
    for f in self.FIELDS:
      a, b = getattr(self, f), getattr(other, f)
      if a == b:
        continue
      for k in a:
        if a[k] != b.get(k):
          out.append("%s[%s]: %r vs %r" % (f, k, a[k], b.get(k)))
          if len(out) >= limit:
            return out
    return out

  def same(self, other):
    return all(getattr(self, f) == getattr(other, f) for f in self.FIELDS)

  # -- queries

  def subtree(self, n):
    seen, stack, out = set(), [n], []
    while stack:
      x = stack.pop()
      if x in seen:
        continue
      seen.add(x)
      out.append(x)
      stack.extend(reversed(self.children[x]))
    return out

  def ancestors(self, n):
    """proper ancestors of n (cycle-safe)"""
    out, seen = [], {n}
    p = self.parent[n]
    while p is not None and p not in seen:
      out.append(p)
      seen.add(p)
      p = self.parent[p]
    return out

  def root(self, n):
    a = self.ancestors(n)
    return a[-1] if a else n

  def in_body(self, n):
    d = self.doc[n]
    return d is not None and self.body.get(d) is not None and self.root(n) == self.body[d]

  def referrers(self, rname, d=None):
    return [n for n in NAMES if self.region[n] == rname and (d is None or self.doc[n] == d)]

  def depth(self):
    best = 0
    for n in NAMES:
      if not self.children[n]:
        best = max(best, len(self.ancestors(n)))
    return best


# ------------------------------------------------------------------------------------------------ observation (fingerprint)

def child_chain(e, limit):
  """children of e by first_child()/next_sibling(), stopping at a repeated object or after `limit` steps; (list, terminated)"""
  out, ids = [], set()
  c = e.first_child()
  while c is not None:
    if id(c) in ids or len(out) > limit or not isinstance(c, model.ContentElement):
      return out, False
    ids.add(id(c))
    out.append(c)
    c = c.next_sibling()
  return out, True


def observe(u):
  """the whole universe read through public getters, in the shape of the abstract model"""
  m = Model.__new__(Model)
  nm = u.nm
  m.parent, m.children, m.doc, m.region, m.styles, m.anims, m.misc = {}, {}, {}, {}, {}, {}, {}
  lim = len(NAMES) + 2
  for n in NAMES:
    e = u.obj[n]
    m.parent[n] = nm(e.parent())
    m.children[n] = [nm(c) for c in child_chain(e, lim)[0]]
    m.doc[n] = nm(e.get_doc())
    m.region[n] = nm(e.get_region())
    m.styles[n] = {p.__name__ if isinstance(p, type) else repr(p): vid_of(e.get_style(p)) for p in e.iter_styles()}
    m.anims[n] = [(getattr(s.style_property, "__name__", "?"), s.begin, s.end, vid_of(s.value)) if isinstance(s, model.DiscreteAnimationStep)
                  else ("?", None, None, repr(s)) for s in e.iter_animation_steps()]
    sx = e.get_space()
    m.misc[n] = (e.get_id(), e.get_begin(), e.get_end(), e.get_lang(), sx.name if isinstance(sx, model.WhiteSpaceHandling) else repr(sx),
                 e.get_text() if isinstance(e, model.Text) else None)
  m.body, m.reg, m.init = {}, {}, {}
  for d, doc in u.docs.items():
    m.body[d] = nm(doc.get_body())
    m.reg[d] = {}
    for r in doc.iter_regions():
      rid = r.get_id() if isinstance(r, model.ContentElement) else repr(r)
      m.reg[d][rid] = nm(r)
    m.init[d] = {getattr(p, "__name__", repr(p)): vid_of(v) for p, v in doc.iter_initial_values()}
  return m


# ------------------------------------------------------------------------------------------------ invariant walker

def walk(u):
  """all well-formedness clauses of C15 on the live objects; returns [(clause, element name or None, detail)]"""
  fails = []
  nm = u.nm
  lim = len(NAMES) + 2

  def bad(clause, who, text):
    fails.append((clause, who, text))

  chains = {}
  listed = {}       # id(child) -> [parent names]
  for n in NAMES:
    e = u.obj[n]
    fwd, ok = child_chain(e, lim)
    chains[n] = fwd
    if not ok:
      bad("links", n, "%s: the next_sibling chain from first_child does not terminate" % n)
      continue
    # backward chain
    bwd, ids, c = [], set(), e.last_child()
    while c is not None and id(c) not in ids and len(bwd) <= lim and isinstance(c, model.ContentElement):
      ids.add(id(c))
      bwd.append(c)
      c = c.previous_sibling()
    if c is not None:
      bad("links", n, "%s: the previous_sibling chain from last_child does not terminate" % n)
    elif [id(x) for x in reversed(bwd)] != [id(x) for x in fwd]:
      bad("links", n, "%s: forward children %r but backward children %r" % (n, [nm(x) for x in fwd], [nm(x) for x in reversed(bwd)]))
    if len(e) != len(fwd):
      bad("links", n, "%s: len() = %d but %d children are linked" % (n, len(e), len(fwd)))
    if [id(x) for x in e] != [id(x) for x in fwd]:
      bad("links", n, "%s: iteration disagrees with first_child/next_sibling" % n)
    if e.has_children() != bool(fwd):
      bad("links", n, "%s: has_children() = %r with %d children" % (n, e.has_children(), len(fwd)))
    if fwd:
      if e.first_child() is not fwd[0] or e.last_child() is not fwd[-1]:
        bad("links", n, "%s: first_child/last_child are %s/%s, children %r" % (n, nm(e.first_child()), nm(e.last_child()), [nm(x) for x in fwd]))
      if e[0] is not fwd[0] or e[len(fwd) - 1] is not fwd[-1]:
        bad("links", n, "%s: indexing disagrees with the child list" % n)
    elif e.last_child() is not None:
      bad("links", n, "%s: no first child but last_child() = %s" % (n, nm(e.last_child())))
    for i, c in enumerate(fwd):
      listed.setdefault(id(c), []).append(n)
      if c.parent() is not e:
        bad("links", nm(c), "%s is in the child list of %s but its parent() is %s" % (nm(c), n, nm(c.parent())))
      want_prev = fwd[i - 1] if i else None
      want_next = fwd[i + 1] if i + 1 < len(fwd) else None
      if c.previous_sibling() is not want_prev or c.next_sibling() is not want_next:
        bad("links", nm(c), "%s: siblings %s/%s, expected %s/%s under %s" % (nm(c), nm(c.previous_sibling()), nm(c.next_sibling()),
                                                                                nm(want_prev), nm(want_next), n))
  for n in NAMES:
    e = u.obj[n]
    owners = listed.get(id(e), [])
    if len(owners) > 1:
      bad("multi-parent", n, "%s appears in the child lists of %r" % (n, owners))
    p = e.parent()
    if p is None:
      if owners:
        bad("links", n, "%s has no parent but is listed as a child of %r" % (n, owners))
      if e.previous_sibling() is not None or e.next_sibling() is not None:
        bad("links", n, "%s has no parent but siblings %s/%s" % (n, nm(e.previous_sibling()), nm(e.next_sibling())))
    else:
      if nm(p) not in owners:
        bad("links", n, "%s: parent() is %s which does not list it as a child" % (n, nm(p)))
    # acyclic
    seen, q, cyc = {id(e)}, p, False
    while q is not None:
      if id(q) in seen:
        cyc = True
        break
      seen.add(id(q))
      q = q.parent() if isinstance(q, model.ContentElement) else None
    if cyc:
      bad("cycle", n, "%s is its own ancestor (parent chain returns to %s)" % (n, nm(q)))
    else:
      r = e
      while r.parent() is not None:
        r = r.parent()
      if e.root() is not r:
        bad("links", n, "%s: root() is %s but the parent chain ends at %s" % (n, nm(e.root()), nm(r)))
    # one document per tree
    if p is not None and isinstance(p, model.ContentElement) and e.get_doc() is not p.get_doc():
      bad("mixed-document-tree", n, "%s belongs to %s but its parent %s belongs to %s" % (n, nm(e.get_doc()), nm(p), nm(p.get_doc())))
    if e.is_attached() != (e.get_doc() is not None):
      bad("links", n, "%s: is_attached() disagrees with get_doc()" % n)
    # content model
    kinds = [KIND.get(nm(c), nm(c)) for c in chains[n]]
    if children_verdict(KIND[n], kinds) == "illegal":
      bad("content-model", n, "%s (%s) has children %r" % (n, KIND[n], kinds))
    # region
    r = e.get_region()
    if r is not None:
      d = e.get_doc()
      if not isinstance(r, model.Region):
        bad("non-region-stored", n, "%s.get_region() is %s" % (n, nm(r)))
      elif d is None:
        bad("region-on-detached-element", n, "%s belongs to no document but references region %s" % (n, nm(r)))
      else:
        reg = d.get_region(r.get_id())
        if reg is r:
          if not d.has_region(r.get_id()):
            bad("document-tree", n, "get_region finds %s but has_region does not" % nm(r))
        elif r.get_doc() is not d:
          bad("foreign-region", n, "%s (document %s) references %s, a region of %s" % (n, nm(d), nm(r), nm(r.get_doc())))
        elif reg is None:
          bad("dangling-region", n, "%s references %s but its document has no region %r" % (n, nm(r), r.get_id()))
        else:
          bad("stale-region", n, "%s references %s but its document registers %s under %r" % (n, nm(r), nm(reg), r.get_id()))
    # stored values
    for p_ in e.iter_styles():
      pn = getattr(p_, "__name__", None)
      if pn not in PROP or PROP[pn] is not p_:
        bad("invalid-value-stored", n, "%s stores a style under the key %r" % (n, p_))
      elif verdict(pn, e.get_style(p_)) is False:
        bad("invalid-value-stored:" + pn, n, "%s stores %s = %r" % (n, pn, e.get_style(p_)))
      elif not e.has_style(p_):
        bad("links", n, "%s iterates style %s but has_style() is false" % (n, pn))
    for s in e.iter_animation_steps():
      if isinstance(e, model.Text):
        # no style property applies to a text node (set_style refuses every one of them): no value is valid as its animation value
        bad("invalid-value-stored:animation-step-on-text", n, "%s, a text node, stores the animation step %r" % (n, s))
        continue
      if not isinstance(s, model.DiscreteAnimationStep):
        bad("invalid-value-stored", n, "%s stores the animation step %r" % (n, s))
        continue
      pn = getattr(s.style_property, "__name__", None)
      if pn not in PROP or PROP[pn] is not s.style_property:
        bad("invalid-value-stored", n, "%s stores an animation step of %r" % (n, s.style_property))
      elif verdict(pn, s.value) is False:
        bad("invalid-value-stored:" + pn, n, "%s stores an animation step %s = %r" % (n, pn, s.value))
  for d, doc in u.docs.items():
    b = doc.get_body()
    if b is not None:
      if not isinstance(b, model.Body):
        bad("document-tree", None, "%s.get_body() is %s" % (d, nm(b)))
      else:
        if b.parent() is not None:
          bad("document-tree", nm(b), "the body %s of %s has the parent %s" % (nm(b), d, nm(b.parent())))
        if b.get_doc() is not doc:
          bad("document-tree", nm(b), "the body %s of %s belongs to %s" % (nm(b), d, nm(b.get_doc())))
    for r in list(doc.iter_regions()):
      if not isinstance(r, model.Region):
        bad("document-tree", None, "%s registers %s as a region" % (d, nm(r)))
        continue
      if r.get_doc() is not doc:
        bad("document-tree", nm(r), "%s registers region %s which belongs to %s" % (d, nm(r), nm(r.get_doc())))
      if doc.get_region(r.get_id()) is not r or not doc.has_region(r.get_id()):
        bad("document-tree", nm(r), "%s iterates region %s but get_region(%r) is %s" % (d, nm(r), r.get_id(), nm(doc.get_region(r.get_id()))))
    for p_, v in list(doc.iter_initial_values()):
      pn = getattr(p_, "__name__", None)
      if pn not in PROP or PROP[pn] is not p_:
        bad("invalid-value-stored", None, "%s stores an initial value under the key %r" % (d, p_))
      elif verdict(pn, v) is False:
        bad("invalid-value-stored:" + pn, None, "%s stores the initial value %s = %r" % (d, pn, v))
      elif doc.get_initial_value(p_) is not v or not doc.has_initial_value(p_):
        bad("links", None, "%s: initial value getters disagree for %s" % (d, pn))
  return fails


# ------------------------------------------------------------------------------------------------ operations

SINGLE = ("push_child", "remove", "remove_child", "set_doc", "set_region", "put_region", "remove_region", "set_body", "set_style",
          "add_animation_step", "put_initial_value")
MULTI = ("push_children", "remove_children", "copy_to")


def perform(u, op):
  """one API call; raises whatever ttconv raises"""
  k = op[0]
  g = u.get
  if k == "push_child":
    g(op[1]).push_child(g(op[2]))
  elif k == "push_children":
    items = [g(x) for x in op[2]]
    g(op[1]).push_children((x for x in items) if op[3] == "generator" else items)
  elif k == "remove":
    g(op[1]).remove()
  elif k == "remove_child":
    g(op[1]).remove_child(g(op[2]))
  elif k == "remove_children":
    g(op[1]).remove_children()
  elif k == "set_doc":
    g(op[1]).set_doc(g(op[2]))
  elif k == "set_region":
    g(op[1]).set_region(g(op[2]))
  elif k == "put_region":
    g(op[1]).put_region(g(op[2]))
  elif k == "remove_region":
    g(op[1]).remove_region(op[2])
  elif k == "set_body":
    g(op[1]).set_body(g(op[2]))
  elif k == "set_style":
    g(op[1]).set_style(PROP.get(op[2]), None if op[3] is None else VALUES[op[3]])
  elif k == "add_animation_step":
    if op[2] == "not-a-step":
      step = ("Color", 0, 1, RED)
    else:
      step = model.DiscreteAnimationStep(PROP.get(op[2]), _time(op[4]), _time(op[5]), None if op[3] is None else VALUES[op[3]])
    g(op[1]).add_animation_step(step)
  elif k == "put_initial_value":
    g(op[1]).put_initial_value(PROP.get(op[2]), None if op[3] is None else VALUES[op[3]])
  elif k == "copy_to":
    g(op[1]).copy_to(g(op[2]))
  else:
    raise ValueError("unknown operation %r" % (op,))


def _time(t):
  return None if t is None else Fraction(t)


def _prefix(k):
  return k + "." if k in ("Ruby", "Rtc") else ""


def _value_feature(prop, vid, on):
  if prop not in PROP:
    return "bad-prop"
  if vid is None:
    return "None"
  v = verdict(prop, VALUES[vid])
  if v is True:
    return "on-text" if on is not None and KIND[on] == "Text" else "valid"
  if bad_font_item(prop, vid):
    return "invalid-FontFamily-item"
  return "invalid"


def describe(m, op):
  """(method label, argument class) of a call against the abstract state before the call: names the root cause in buckets,
  and is what the 'clean' profile's preconditions are written in"""
  k = op[0]
  if k == "push_child":
    a, b = op[1], op[2]
    lab = _prefix(KIND[a]) + k
    if b is None:
      return lab, "None"
    if b == a:
      return lab, "self"
    if b in m.ancestors(a):
      return lab, "ancestor"
    if m.parent[b] is not None:
      return lab, "has-parent"
    if m.doc[b] != m.doc[a]:
      return lab, "foreign-doc"
    if KIND[a] == "Rtc":
      cur = [KIND[c] for c in m.children[a]]
      if KIND[b] not in ("Rt", "Rp"):
        return lab, "wrong-kind"
      if cur and rtc_state(cur) == "prefix":
        return lab, "extends-Rp-prefix"
      if not cur and KIND[b] == "Rp":
        return lab, "opens-Rp-pattern"
      return lab, ("ok" if rtc_state(cur + [KIND[b]]) == "legal" else "breaks-pattern")
    if KIND[a] == "Ruby":
      return lab, "always-rejected"
    return lab, ("ok" if KIND[b] in ALLOWED[KIND[a]] else "wrong-kind")
  if k == "push_children":
    a, bs, mode = op[1], op[2], op[3]
    lab = _prefix(KIND[a]) + k
    if any(b is None for b in bs):
      return lab, "None-child"
    if KIND[a] in ("Ruby", "Rtc") and mode == "generator":
      return lab, "generator"
    anc = set(m.ancestors(a)) | {a}
    if KIND[a] not in ("Ruby", "Rtc") and any(b in anc and b != a for b in bs):
      return lab, "ancestor-child"
    if len(set(bs)) != len(bs) or any(b in anc or m.parent[b] is not None or m.doc[b] != m.doc[a] for b in bs):
      return lab, "unpushable-child"
    if m.children[a] and bs:
      return lab, "onto-existing"
    ks = tuple(KIND[b] for b in bs)
    if KIND[a] == "Ruby":
      return lab, ("ok" if ks in RUBY_PUSHABLE else "bad-pattern")
    if KIND[a] == "Rtc":
      inner = ks[1:-1] if len(ks) > 2 and ks[0] == "Rp" and ks[-1] == "Rp" else ks
      return lab, ("ok" if all(x == "Rt" for x in inner) else "bad-pattern")
    return lab, ("ok" if all(x in ALLOWED[KIND[a]] for x in ks) else "wrong-kind-child")
  if k == "remove":
    p = m.parent[op[1]]
    if p is None:
      return k, "root"
    return k, ("child-of-" + KIND[p] if KIND[p] in ("Ruby", "Rtc") else "ok")
  if k == "remove_child":
    a, b = op[1], op[2]
    lab = _prefix(KIND[a]) + k
    if b is None:
      return lab, "None"
    return lab, ("ok" if b in m.children[a] else "non-child")
  if k == "remove_children":
    return _prefix(KIND[op[1]]) + k, ("ok" if m.children[op[1]] else "empty")
  if k == "set_doc":
    x, d = op[1], op[2]
    if d is None:
      if m.parent[x] is not None:
        return k, "None-child"
      if m.children[x]:
        return k, "None-root-with-children"
      if KIND[x] == "Region" and any(x in r.values() for r in m.reg.values()):
        return k, "None-registered-region"
      if x in m.body.values():
        return k, "None-body"
      if KIND[x] == "Br":
        return k, "None-br"
      return k, ("None-already-detached" if m.doc[x] is None else "None-leaf")
    if any(m.doc[y] is not None for y in m.subtree(x)):
      return k, "attach-attached"
    if m.parent[x] is not None:
      return k, "attach-child-of-detached-parent"
    return k, "attach-root"
  if k == "set_region":
    x, r = op[1], op[2]
    lab = KIND[x] + "." + k if KIND[x] in ("Br", "Text", "Region") else k
    if r is None:
      return lab, "None"
    if KIND[r] != "Region":
      return lab, "non-region"
    if m.doc[x] is None:
      return lab, "detached-element"
    cur = m.reg[m.doc[x]].get(region_id(r))
    if cur == r and m.doc[r] == m.doc[x]:
      return lab, "registered"
    if m.doc[r] != m.doc[x]:
      return lab, ("foreign-same-id" if cur is not None else "foreign")
    return lab, ("unregistered-same-id" if cur is not None else "unregistered")
  if k == "put_region":
    d, r = op[1], op[2]
    if r is None:
      return k, "None"
    if KIND[r] != "Region":
      return k, "non-region"
    if m.doc[r] != d:
      return k, "foreign"
    old = m.reg[d].get(region_id(r))
    if old is None:
      return k, "new"
    if old == r:
      return k, "again"
    return k, ("replace-referenced" if m.referrers(old) else "replace-unreferenced")
  if k == "remove_region":
    d, rid = op[1], op[2]
    old = m.reg[d].get(rid)
    if old is None:
      return k, "unknown-id"
    refs = m.referrers(old)
    if not refs:
      return k, "unreferenced"
    return k, ("referenced-in-body" if any(m.in_body(n) for n in refs) else "referenced-outside-body")
  if k == "set_body":
    d, x = op[1], op[2]
    if x is None:
      return k, "None"
    if KIND[x] != "Body":
      return k, "non-body"
    if m.parent[x] is not None:
      return k, "has-parent"
    return k, ("ok" if m.doc[x] == d else "foreign")
  if k == "set_style":
    return k, _value_feature(op[2], op[3], op[1])
  if k == "add_animation_step":
    if op[2] == "not-a-step":
      return k, "not-a-step"
    return k, _value_feature(op[2], op[3], None)
  if k == "put_initial_value":
    return k, _value_feature(op[2], op[3], None)
  if k == "copy_to":
    a, b = op[1], op[2]
    lab = KIND[a] + "." + k if KIND[a] in ("Br", "Region", "Text") else k      # the classes that override copy_to
    if b is None:
      return lab, "None"
    if a == b:
      return lab, ("self-with-animation" if m.anims[a] else "self")
    return lab, ("same-kind" if KIND[a] == KIND[b] else "other-kind")
  raise ValueError("unknown operation %r" % (op,))


def advance(m, op, obs):
  """expected state after an *accepted* call; `obs` (the observed state) only resolves the choices the property leaves open"""
  k = op[0]
  if k == "push_child":
    a, b = op[1], op[2]
    if b is not None:
      m.children[a].append(b)
      m.parent[b] = a
  elif k == "push_children":
    for b in op[2]:
      if b is not None:
        m.children[op[1]].append(b)
        m.parent[b] = op[1]
  elif k == "remove":
    x = op[1]
    p = m.parent[x]
    if p is not None:
      m.children[p] = [c for c in m.children[p] if c != x]
      m.parent[x] = None
  elif k == "remove_child":
    a, b = op[1], op[2]
    if b is not None and b in m.children[a]:
      m.children[a] = [c for c in m.children[a] if c != b]
      m.parent[b] = None
  elif k == "remove_children":
    for c in m.children[op[1]]:
      m.parent[c] = None
    m.children[op[1]] = []
  elif k == "set_doc":
    for y in m.subtree(op[1]):
      m.doc[y] = op[2]
      if op[2] is None:
        m.region[y] = None
  elif k == "set_region":
    m.region[op[1]] = op[2]
  elif k == "put_region":
    d, r = op[1], op[2]
    if r is not None and KIND[r] == "Region":
      rid = region_id(r)
      old = m.reg[d].get(rid)
      m.reg[d][rid] = r
      if old is not None and old != r:
        # references to the replaced region must follow the replacement or be cleared: either is taken from the observation
        for n in m.referrers(old, d):
          if obs.region[n] in (r, None):
            m.region[n] = obs.region[n]
  elif k == "remove_region":
    d, rid = op[1], op[2]
    old = m.reg[d].pop(rid, None)
    if old is not None:
      for n in m.referrers(old, d):
        m.region[n] = None
  elif k == "set_body":
    m.body[op[1]] = op[2]
  elif k == "set_style":
    if op[2] in PROP:
      if op[3] is None:
        m.styles[op[1]].pop(op[2], None)
      elif KIND[op[1]] != "Text":
        m.styles[op[1]][op[2]] = op[3]
  elif k == "add_animation_step":
    if op[2] in PROP:
      m.anims[op[1]].append((op[2], _time(op[4]), _time(op[5]), op[3]))
  elif k == "put_initial_value":
    if op[2] in PROP:
      if op[3] is None:
        m.init[op[1]].pop(op[2], None)
      else:
        m.init[op[1]][op[2]] = op[3]
  elif k == "copy_to":
    b = op[2]
    if b is not None:
      m.styles[b], m.anims[b], m.misc[b] = dict(obs.styles[b]), list(obs.anims[b]), obs.misc[b]
  return m
