"""Structured SubRip (SRT) files for C10: a file *description* (plain JSON-able data), its serialisation `render(desc)` and the
cue model it denotes, `expected(desc)`.  The expectation is computed from the description, never by parsing the text.

Description
-----------
desc = {"eol": "\n" | "\r\n", "bom": bool, "lead_blank": 0..3, "final_eol": bool, "trail_blank": 0..3,
        "delivery": "stringio" | "textfile", "cues": [cue, ...]}
cue  = {"counter": "<digits>", "begin": [h, m, s, ms], "end": [h, m, s, ms], "hdig": [2|3, 2|3], "arrow": [ws, ws],
        "sep_blank": 1..3 (blank lines between this cue and the next), "body": [token, ...]}
token = ["t", text] | ["nl"] | ["o", tag] | ["c", tag]          (o/c = open/close, properly nested by construction)
tag  = {"k": "b"|"i"|"u"|"font", "form": "as"|"al"|"bl"|"bs", "up": bool,
        "color": {"name": "Red"} | {"hex": [r, g, b], "upper": bool}, "quote": '"' | "'" | "", "pre": str, "post": str}

forms: as = angle short <b>, al = angle long <bold>, bl = brace long {bold}, bs = brace short {b}.
The brace short form is *not recognised* by ttconv's reader (DESIGN Q-4, undecided); `expected(desc, short_brace=...)` gives the
two readings ("literal": the characters {b} are text; "tag": they are a bold tag) and the check accepts either.

Grammar constraints kept by `normalise` (construction, not rejection): 1-5 text lines per cue, every raw text line contains a
non-blank character (a blank line would end the cue), begin <= end <= 999:59:59,999, hours >= 100 are printed with 3 digits,
a BOM is only placed directly in front of the first counter.
"""
from fractions import Fraction

from hypothesis import strategies as st

MAX_MS = ((999 * 60 + 59) * 60 + 59) * 1000 + 999

# HTML 4.01 section 6.5 colour names (sRGB values from the specification table)
HTML4_COLORS = {
  "black": (0, 0, 0), "silver": (192, 192, 192), "gray": (128, 128, 128), "white": (255, 255, 255),
  "maroon": (128, 0, 0), "red": (255, 0, 0), "purple": (128, 0, 128), "fuchsia": (255, 0, 255),
  "green": (0, 128, 0), "lime": (0, 255, 0), "olive": (128, 128, 0), "yellow": (255, 255, 0),
  "navy": (0, 0, 128), "blue": (0, 0, 255), "teal": (0, 128, 128), "aqua": (0, 255, 255),
}

LONG = {"b": "bold", "i": "italic", "u": "underline"}
FORMS = ("as", "al", "bl", "bs")
KIND_INDEX = {"b": 0, "i": 1, "u": 2, "font": 3}


# ------------------------------------------------------------------------------------------------ serialisation

def color_text(c):
  if "name" in c:
    return c["name"]
  if "raw" in c:
    return c["raw"]
  r, g, b = c["hex"]
  s = "#%02x%02x%02x" % (r, g, b)
  return s.upper() if c.get("upper") else s


def color_rgba(c):
  """None: not a colour the reader knows (the tag then changes nothing)"""
  if "name" in c:
    return HTML4_COLORS[c["name"].lower()] + (255,)
  if "raw" in c:
    return None
  r, g, b = c["hex"]
  return (r, g, b, 255)


def _name(tag):
  if tag["k"] == "font":
    n = "font"
  else:
    n = tag["k"] if tag["form"] in ("as", "bs") else LONG[tag["k"]]
  return n.upper() if tag.get("up") else n


def render_open(tag):
  n = _name(tag)
  if tag["k"] == "font":
    q = tag.get("quote", '"')
    attr = "COLOR" if tag.get("up") else "color"
    return "<%s%s %s=%s%s%s%s>" % (n, tag.get("pre", ""), attr, q, color_text(tag["color"]), q, tag.get("post", ""))
  if tag["form"] in ("as", "al"):
    return "<%s>" % n
  return "{%s}" % n


def render_close(tag):
  n = _name(tag)
  if tag["k"] == "font" or tag["form"] in ("as", "al"):
    return "</%s>" % n
  return "{/%s}" % n


def render_body(body):
  """raw text lines of a cue"""
  lines = [""]
  for tok in body:
    if tok[0] == "t":
      lines[-1] += tok[1]
    elif tok[0] == "nl":
      lines.append("")
    elif tok[0] == "o":
      lines[-1] += render_open(tok[1])
    else:
      lines[-1] += render_close(tok[1])
  return lines


def render_time(t, hdig):
  h, m, s, ms = t
  return "%0*d:%02d:%02d,%03d" % (hdig, h, m, s, ms)


def render(desc):
  eol = desc["eol"]
  out = ["\ufeff" if desc["bom"] else "", eol * desc["lead_blank"]]
  n = len(desc["cues"])
  for i, cue in enumerate(desc["cues"]):
    out.append(cue["counter"] + eol)
    out.append(render_time(cue["begin"], cue["hdig"][0]) + cue["arrow"][0] + "-->" + cue["arrow"][1]
               + render_time(cue["end"], cue["hdig"][1]) + eol)
    out.append(eol.join(render_body(cue["body"])))
    if i + 1 < n:
      out.append(eol + eol * cue["sep_blank"])
    else:
      out.append((eol if desc["final_eol"] else "") + eol * desc["trail_blank"])
  return "".join(out)


# ------------------------------------------------------------------------------------------------ expectation

def seconds(t):
  h, m, s, ms = t
  return Fraction(h * 3600 + m * 60 + s) + Fraction(ms, 1000)


def expected(desc, short_brace="literal"):
  """cue model: [{"begin": Fraction, "end": Fraction, "lines": [str], "styles": [[(bold, italic, underline, rgba|None)]],
  "src": [[(form|None,)*4]]}]: styles[l][c] applies to lines[l][c]; src names the form of the tag responsible for each component"""
  cues = []
  for cue in desc["cues"]:
    lines, sty, src = [""], [[]], [[]]
    stack = []

    def emit(text):
      b = i = u = False
      col = None
      why = [None, None, None, None]
      for tag in stack:           # outermost first: the innermost font wins, b/i/u accumulate
        k = tag["k"]
        if k == "b":
          b = True
        elif k == "i":
          i = True
        elif k == "u":
          u = True
        else:
          c = color_rgba(tag["color"])
          col = c if c is not None else col
        why[KIND_INDEX[k]] = form_label(tag)
      for ch in text:
        lines[-1] += ch
        sty[-1].append((b, i, u, col))
        src[-1].append(tuple(why))

    for tok in cue["body"]:
      if tok[0] == "t":
        emit(tok[1])
      elif tok[0] == "nl":
        lines.append("")
        sty.append([])
        src.append([])
      elif tok[0] == "o":
        if tok[1]["form"] == "bs" and short_brace == "literal":
          emit(render_open(tok[1]))
        else:
          stack.append(tok[1])
      else:
        if tok[1]["form"] == "bs" and short_brace == "literal":
          emit(render_close(tok[1]))
        else:
          stack.pop()
    if stack:
      raise ValueError("unbalanced body in description")
    cues.append({"begin": seconds(cue["begin"]), "end": seconds(cue["end"]), "lines": lines, "styles": sty, "src": src})
  return cues


def form_label(tag):
  if tag["k"] == "font":
    return "font-upper" if tag.get("up") else "font"
  return {"as": "angle-short", "al": "angle-long", "bl": "brace-long", "bs": "brace-short"}[tag["form"]] + ("-upper" if tag.get("up") else "")


# ------------------------------------------------------------------------------------------------ validity and repair

def ms_to_fields(n):
  n, ms = divmod(n, 1000)
  n, s = divmod(n, 60)
  h, m = divmod(n, 60)
  return [h, m, s, ms]


def fields_to_ms(t):
  return ((t[0] * 60 + t[1]) * 60 + t[2]) * 1000 + t[3]


def normalise_body(body):
  """at most 4 line breaks; no blank raw line (a single '-' is inserted where one would occur)"""
  out = []
  nls = 0
  nonblank = False
  for tok in body:
    if tok[0] == "nl":
      if nls >= 4:
        continue
      nls += 1
      if not nonblank:
        out.append(["t", "-"])
      out.append(["nl"])
      nonblank = False
      continue
    if tok[0] == "t":
      if tok[1] == "":
        continue
      if tok[1].strip(" ") != "":
        nonblank = True
    else:
      nonblank = True
    out.append(tok)
  if not nonblank:
    out.append(["t", "-"])
  return out


def body_ok(body):
  depth = []
  for tok in body:
    if tok[0] == "o":
      depth.append(tok[1])
    elif tok[0] == "c":
      if not depth or depth.pop() != tok[1]:
        return False
    elif tok[0] == "t":
      if not tok[1] or any(c in tok[1] for c in "<>{}\r\n"):
        return False
  if depth:
    return False
  raw = render_body(body)
  return 1 <= len(raw) <= 5 and all(l.strip() != "" for l in raw)


def normalise(desc):
  d = dict(desc)
  d["cues"] = []
  for cue in desc["cues"]:
    c = dict(cue)
    c["body"] = normalise_body(cue["body"])
    b, e = fields_to_ms(c["begin"]), fields_to_ms(c["end"])
    if b > e:
      c["begin"], c["end"] = c["end"], c["begin"]
    c["hdig"] = [3 if c["begin"][0] >= 100 else c["hdig"][0], 3 if c["end"][0] >= 100 else c["hdig"][1]]
    d["cues"].append(c)
  if not d["cues"]:
    d["final_eol"] = True
  if d["trail_blank"] and not d["final_eol"]:
    d["final_eol"] = True
  if d["bom"] and (d["lead_blank"] or not d["cues"]):
    d["bom"] = False
  return d


def valid(desc):
  if desc["eol"] not in ("\n", "\r\n") or desc["delivery"] not in ("stringio", "textfile"):
    return False
  if desc["bom"] and (desc["lead_blank"] or not desc["cues"]):
    return False
  if desc["trail_blank"] and not desc["final_eol"]:
    return False
  for c in desc["cues"]:
    if not (c["counter"].isdigit() and c["counter"].isascii()):
      return False
    for t, hd in zip((c["begin"], c["end"]), c["hdig"]):
      if not (0 <= t[0] <= 999 and 0 <= t[1] <= 59 and 0 <= t[2] <= 59 and 0 <= t[3] <= 999):
        return False
      if hd not in (2, 3) or (t[0] >= 100 and hd != 3):
        return False
    if fields_to_ms(c["begin"]) > fields_to_ms(c["end"]):
      return False
    if any(a == "" or a.strip(" \t") != "" for a in c["arrow"]) or c["sep_blank"] < 1:
      return False
    if not body_ok(c["body"]):
      return False
  return True


# ------------------------------------------------------------------------------------------------ strategies

_SIMPLE = "abcdefghijklmnopqrstuvwxyz"
_ALPHA = ("abcdefghijklmnopqrstuvwxyzABCDEFGHIJKLMNOPQRSTUVWXYZ0123456789"
          "     .,!?'\"-:;()[]/%$#@*+=_~|^"
          "éßñÇΩЖ日本語—♪\U0001F642")


def weighted(*pairs):
  """one_of with integer weights (one_of drops repeated strategy objects, so each copy is a distinct mapped strategy)"""
  out = []
  for w, s in pairs:
    out.extend(s.map(lambda x: x) for _ in range(w))
  return st.one_of(*out)


def texts():
  return st.one_of(
    st.text(alphabet=_SIMPLE, min_size=1, max_size=6),
    st.text(alphabet=_ALPHA, min_size=1, max_size=14),
    st.sampled_from([" ", "42", "7", "a & b", "Tom & Jerry", " x", "x ", "- Hi.", "00:00:01,000"]),
    # an ampersand that starts no character reference stays an ampersand, wherever it sits in the cue (html.parser holds back a text
    # run ending in a possible reference until it is closed)
    # (followed by a digit here: "&" + letters of a neighbouring piece could spell a legacy reference such as "&gt")
    st.sampled_from(["1&2", "R&2", "&1", "a&1", "x &2", "AT&7", "&&1"]),
  )


def colors():
  names = st.builds(lambda n, style: {"name": n if style == 0 else n.capitalize() if style == 1 else n.upper()},
                    st.sampled_from(sorted(HTML4_COLORS)), st.sampled_from([0, 0, 0, 1, 2]))
  comp = st.one_of(st.integers(0, 255), st.sampled_from([0, 255, 128, 1, 254]))
  hexes = st.builds(lambda r, g, b, up: {"hex": [r, g, b], "upper": up}, comp, comp, comp, st.booleans())
  # values that are not colours for the reader (3-digit hex is common in the wild): the tag is ignored, the text is kept
  unknown = st.builds(lambda v: {"raw": v}, st.sampled_from(["#F00", "bogus", "#12345", "rgb(1,2)", "#ggg", "ff0000"]))
  return st.one_of(names, hexes, names, hexes, unknown)


_EXTRA = ["", "", "", "", ' face="Arial"', ' size="4"', " size=12"]


def tags():
  simple = st.builds(lambda k, form, up: {"k": k, "form": form, "up": bool(up and form in ("as", "al"))},
                     st.sampled_from(["b", "i", "u"]),
                     st.sampled_from(["as", "as", "as", "as", "al", "al", "al", "bl", "bl", "bl", "bl", "bs"]),
                     st.sampled_from([False] * 7 + [True]))
  font = st.builds(lambda c, q, pre, post, up: {"k": "font", "form": "as", "up": up, "color": c, "quote": q, "pre": pre, "post": post},
                   colors(), st.sampled_from(['"', '"', '"', "'", ""]), st.sampled_from(_EXTRA), st.sampled_from(_EXTRA),
                   st.sampled_from([False] * 7 + [True]))
  return weighted((3, simple), (1, font))


def _flatten(parts):
  out = []
  for p in parts:
    out.extend(p)
  return out


def bodies():
  """token lists: plain lines (frequent), one flat tag, or a recursive tag tree"""
  txt = texts().map(lambda s: [["t", s]])
  plain = st.lists(weighted((2, txt), (1, st.just([["nl"]]))), min_size=1, max_size=6).map(_flatten)
  tall = st.lists(st.one_of(txt, st.just([["nl"]])), min_size=4, max_size=10).map(_flatten)
  leaf = weighted((3, txt), (1, st.just([["nl"]])))
  def extend(children):
    return st.builds(lambda tag, inner: [["o", tag]] + _flatten(inner) + [["c", tag]], tags(), st.lists(children, min_size=0, max_size=3))
  node = st.recursive(leaf, extend, max_leaves=6)
  tree = st.lists(node, min_size=1, max_size=4).map(_flatten)
  return weighted((3, plain), (5, tree), (1, tall))


def times():
  """(begin, end) field lists, begin <= end, over the whole range, biased to the edges and to short durations"""
  point = st.one_of(
    st.integers(0, MAX_MS),
    st.integers(0, 100 * 3600 * 1000 - 1),
    st.integers(0, 3 * 3600 * 1000),
    st.sampled_from([0, 1, 999, 1000, 59999, 3599999, 99 * 3600000 + 3599999, 100 * 3600000, MAX_MS - 1, MAX_MS]),
    st.builds(lambda s, ms: s * 1000 + ms, st.integers(0, 36000), st.sampled_from([280, 1, 999, 100, 10, 33, 67, 40, 960, 500, 125])),
  )
  dur = weighted((3, st.integers(1, 10000)), (1, st.integers(0, MAX_MS)))
  return st.builds(lambda b, d: [ms_to_fields(b), ms_to_fields(min(MAX_MS, b + d))], point, dur)


def cues():
  counter = weighted((4, st.none()), (1, st.integers(0, 10 ** 12).map(str)), (1, st.text(alphabet="0123456789", min_size=1, max_size=8)))
  ws = st.sampled_from([" ", " ", " ", " ", " ", "  ", "\t"])
  return st.builds(
    lambda counter, t, hd, a1, a2, sep, body: {"counter": counter, "begin": t[0], "end": t[1], "hdig": hd, "arrow": [a1, a2],
                                               "sep_blank": sep, "body": body},
    counter, times(), st.lists(st.sampled_from([2, 2, 2, 3]), min_size=2, max_size=2), ws, ws,
    st.sampled_from([1, 1, 1, 1, 2, 3]), bodies())


def descs(max_cues=8):
  def mk(eol, bom, lead, final_eol, trail, delivery_raw, cue_list):
    for i, c in enumerate(cue_list):
      if c["counter"] is None:
        c["counter"] = str(i + 1)
    delivery = "stringio" if (eol == "\n" and delivery_raw < 2) or delivery_raw == 0 else "textfile"
    return normalise({"eol": eol, "bom": bom, "lead_blank": lead, "final_eol": final_eol, "trail_blank": trail,
                      "delivery": delivery, "cues": cue_list})
  ncues = weighted((3, st.sampled_from([0, 1, 1, 1, 2, 2, 2, 3, 3])), (1, st.integers(0, max_cues)))
  return st.builds(mk, st.sampled_from(["\n", "\r\n"]), st.sampled_from([False] * 5 + [True]), st.sampled_from([0, 0, 0, 1, 2, 3]),
                   st.sampled_from([True, True, True, False]), st.sampled_from([0, 0, 1, 2, 3]), st.integers(0, 3),
                   ncues.flatmap(lambda n: st.lists(cues(), min_size=n, max_size=n)))


# ------------------------------------------------------------------------------------------------ simplification

def _simple_tag(tag):
  if tag["k"] == "font":
    return {"k": "font", "form": "as", "up": False, "color": {"name": "red"}, "quote": '"', "pre": "", "post": ""}
  return {"k": tag["k"], "form": "as", "up": False}


def _body_simplifications(body):
  # drop a matched tag pair (content kept)
  for i, tok in enumerate(body):
    if tok[0] == "o":
      depth = 0
      for j in range(i, len(body)):
        if body[j][0] == "o":
          depth += 1
        elif body[j][0] == "c":
          depth -= 1
          if depth == 0:
            yield body[:i] + body[i + 1:j] + body[j + 1:]
            # the element with its whole content
            yield body[:i] + body[j + 1:]
            st_ = _simple_tag(tok[1])
            if st_ != tok[1]:
              yield body[:i] + [["o", st_]] + body[i + 1:j] + [["c", st_]] + body[j + 1:]
            break
  for i, tok in enumerate(body):
    if tok[0] in ("t", "nl"):
      yield body[:i] + body[i + 1:]
  for i, tok in enumerate(body):
    if tok[0] == "t" and len(tok[1]) > 1:
      yield body[:i] + [["t", tok[1][:1]]] + body[i + 1:]
      yield body[:i] + [["t", "x"]] + body[i + 1:]


def simplifications(desc):
  """simpler valid descriptions, most aggressive first (greedy minimiser)"""
  def with_(**kw):
    d = dict(desc)
    d.update(kw)
    return d
  out = []
  cs = desc["cues"]
  if len(cs) > 1:
    for i in range(len(cs)):
      out.append(with_(cues=[cs[i]]))
    for i in range(len(cs)):
      out.append(with_(cues=cs[:i] + cs[i + 1:]))
  if desc["bom"]:
    out.append(with_(bom=False))
  if desc["lead_blank"]:
    out.append(with_(lead_blank=0))
  if desc["trail_blank"]:
    out.append(with_(trail_blank=0))
  if not desc["final_eol"]:
    out.append(with_(final_eol=True))
  if desc["eol"] != "\n":
    out.append(with_(eol="\n", delivery="stringio"))
  if desc["delivery"] != "stringio":
    out.append(with_(delivery="stringio"))
  for i, c in enumerate(cs):
    def cue_with(**kw):
      c2 = dict(c)
      c2.update(kw)
      return with_(cues=cs[:i] + [c2] + cs[i + 1:])
    if c["counter"] != "1":
      out.append(cue_with(counter="1"))
    if c["arrow"] != [" ", " "]:
      out.append(cue_with(arrow=[" ", " "]))
    if c["sep_blank"] != 1:
      out.append(cue_with(sep_blank=1))
    if c["begin"] != [0, 0, 0, 0] or c["end"] != [0, 0, 1, 0]:
      out.append(cue_with(begin=[0, 0, 0, 0], end=[0, 0, 1, 0], hdig=[2, 2]))
      out.append(cue_with(begin=[0, 0, 0, c["begin"][3]], end=[0, 0, 1, c["end"][3]], hdig=[2, 2]))
      out.append(cue_with(begin=[0, 0, 0, 0], end=c["end"], hdig=[2, c["hdig"][1]]))
    if c["hdig"] != [2, 2] and c["begin"][0] < 100 and c["end"][0] < 100:
      out.append(cue_with(hdig=[2, 2]))
    for b in _body_simplifications(c["body"]):
      out.append(cue_with(body=b))
  for d in out:
    d = normalise(d)
    if valid(d) and d != desc:
      yield d


# ------------------------------------------------------------------------------------------------ self-test

def selftest():
  """the serialiser and the expectation on a hand-written description"""
  red = {"k": "font", "form": "as", "up": False, "color": {"name": "Red"}, "quote": '"', "pre": "", "post": ' size="4"'}
  b = {"k": "b", "form": "bl", "up": False}
  i = {"k": "i", "form": "as", "up": True}
  sb = {"k": "u", "form": "bs", "up": False}
  desc = {"eol": "\r\n", "bom": True, "lead_blank": 0, "final_eol": False, "trail_blank": 0, "delivery": "textfile", "cues": [
    {"counter": "7", "begin": [0, 2, 16, 612], "end": [100, 0, 0, 1], "hdig": [3, 3], "arrow": [" ", "\t"], "sep_blank": 2,
     "body": [["t", "a "], ["o", b], ["t", "b"], ["nl"], ["o", i], ["t", "c"], ["c", i], ["c", b], ["t", "d"]]},
    {"counter": "8", "begin": [0, 0, 0, 0], "end": [0, 0, 0, 0], "hdig": [2, 2], "arrow": [" ", " "], "sep_blank": 1,
     "body": [["o", red], ["o", sb], ["t", "x"], ["c", sb], ["c", red]]}]}
  text = ("\ufeff7\r\n000:02:16,612 -->\t100:00:00,001\r\na {bold}b\r\n<I>c</I>{/bold}d\r\n\r\n\r\n"
          "8\r\n00:00:00,000 --> 00:00:00,000\r\n<font color=\"Red\" size=\"4\">{u}x{/u}</font>")
  if not valid(desc) or normalise(desc) != desc:
    raise AssertionError("gen_srt selftest: description not valid/normal")
  if render(desc) != text:
    raise AssertionError("gen_srt selftest: render\n%r\n%r" % (render(desc), text))
  e = expected(desc)
  if (e[0]["begin"], e[0]["end"]) != (Fraction(136612, 1000), Fraction(360000001, 1000)):
    raise AssertionError("gen_srt selftest: times")
  if e[0]["lines"] != ["a b", "cd"] or e[0]["styles"] != [
      [(False, False, False, None)] * 2 + [(True, False, False, None)], [(True, True, False, None), (False, False, False, None)]]:
    raise AssertionError("gen_srt selftest: cue 0 %r" % (e[0],))
  r = (255, 0, 0, 255)
  if e[1]["lines"] != ["{u}x{/u}"] or e[1]["styles"] != [[(False, False, False, r)] * 8]:
    raise AssertionError("gen_srt selftest: cue 1 literal %r" % (e[1],))
  e = expected(desc, "tag")
  if e[1]["lines"] != ["x"] or e[1]["styles"] != [[(False, False, True, r)]] or e[1]["src"] != [[(None, None, "brace-short", "font")]]:
    raise AssertionError("gen_srt selftest: cue 1 tag %r" % (e[1],))
  if normalise_body([["nl"], ["t", " "], ["nl"], ["nl"], ["nl"], ["nl"], ["nl"]]) != [
      ["t", "-"], ["nl"], ["t", " "], ["t", "-"], ["nl"], ["t", "-"], ["nl"], ["t", "-"], ["nl"], ["t", "-"]]:
    raise AssertionError("gen_srt selftest: normalise_body")
